(** * MonitorProofs: what a record sequence accepted by the trace monitor (Model/Monitor.v) satisfies.
    Statements are about the raw record list (Model/MonitorSpec.v); the monitor state only appears in the
    invariants that connect the two. *)
From Coq Require Import List ZArith NArith Bool Lia.
From CqlProxy Require Import Lib.Val Lib.Util Gen.Tables Model.Retry Model.Monitor Model.MonitorSpec.
Import ListNotations.
Local Open Scope Z_scope.

(** ** lists *)
Lemma count_app p a b : count p (a ++ b) = (count p a + count p b)%nat.
Proof. unfold count. rewrite filter_app, app_length. reflexivity. Qed.

Lemma count_snoc p a x : count p (a ++ [x]) = (count p a + if p x then 1 else 0)%nat.
Proof. rewrite count_app. unfold count. cbn [filter]. destruct (p x); reflexivity. Qed.

Lemma count_cons p x a : count p (x :: a) = ((if p x then 1 else 0) + count p a)%nat.
Proof. unfold count. cbn [filter]. destruct (p x); reflexivity. Qed.

Lemma count_nil p : count p [] = 0%nat. Proof. reflexivity. Qed.

Lemma count_zero_none p l : count p l = 0%nat <-> none_of p l.
Proof.
  unfold none_of. induction l as [|x l IH]; [split; [constructor|reflexivity]|].
  rewrite count_cons. split.
  - intro H. destruct (p x) eqn:E; [discriminate|]. constructor; [exact E|]. apply IH. exact H.
  - intro H. inversion H as [|? ? Hx Hl]; subst. rewrite Hx. apply IH. exact Hl.
Qed.

Lemma count_pos_in p l : (0 < count p l)%nat <-> exists x, In x l /\ p x = true.
Proof.
  unfold count. split.
  - intro H. destruct (filter p l) as [|x f] eqn:E; [cbn in H; lia|].
    assert (Hin : In x (filter p l)) by (rewrite E; left; reflexivity). apply filter_In in Hin. exists x. exact Hin.
  - intros (x & Hin & Hp). assert (Hf : In x (filter p l)) by (apply filter_In; auto).
    destruct (filter p l); [destruct Hf|cbn; lia].
Qed.

Lemma none_of_app p a b : none_of p (a ++ b) <-> none_of p a /\ none_of p b.
Proof. unfold none_of. apply Forall_app. Qed.

Lemma none_of_existsb p l : none_of p l <-> existsb p l = false.
Proof.
  unfold none_of. induction l as [|x l IH]; cbn [existsb]; [split; [reflexivity|constructor]|].
  rewrite orb_false_iff, <- IH. split.
  - intro H. inversion H; subst. auto.
  - intros [H1 H2]. constructor; assumption.
Qed.

Lemma existsb_snoc {A} (p : A -> bool) l x : existsb p (l ++ [x]) = existsb p l || p x.
Proof. rewrite existsb_app. cbn [existsb]. rewrite orb_false_r. reflexivity. Qed.

Lemma split_snoc_cases {A} (l : list A) (x : A) l1 y l2 :
  l ++ [x] = l1 ++ y :: l2 ->
  (l2 = [] /\ l1 = l /\ y = x) \/ (exists l2', l2 = l2' ++ [x] /\ l = l1 ++ y :: l2').
Proof.
  revert l1. induction l as [|a l IH]; intros l1 H.
  - destruct l1 as [|b l1]; cbn in H.
    + injection H as E1 E2. subst. left. auto.
    + injection H as E1 E2. destruct l1; discriminate.
  - destruct l1 as [|b l1]; cbn in H.
    + injection H as E1 E2. subst y. right. exists l. split; [symmetry; exact E2|reflexivity].
    + injection H as E1 E2. subst b. destruct (IH l1 E2) as [(A1 & A2 & A3)|(l2' & A1 & A2)].
      * left. subst. auto.
      * right. exists l2'. subst. auto.
Qed.

Lemma filter_snoc {A} (p : A -> bool) l x : filter p (l ++ [x]) = filter p l ++ (if p x then [x] else []).
Proof. rewrite filter_app. cbn [filter]. destruct (p x); reflexivity. Qed.

Lemma last_snoc {A} (l : list A) x d : last (l ++ [x]) d = x.
Proof. induction l as [|a l IH]; [reflexivity|]. cbn [app last]. destruct (l ++ [x]) eqn:E; [destruct l; discriminate|exact IH]. Qed.

Lemma repeat_snoc {A} (a : A) n : repeat a n ++ [a] = repeat a (S n).
Proof. induction n as [|n IH]; [reflexivity|]. cbn [repeat app]. rewrite IH. reflexivity. Qed.

(** ** the association lists of the monitor state *)
Lemma zlookup_zupdate_same {A} k (v : A) l : zlookup k (zupdate k v l) = Some v.
Proof.
  induction l as [|[k' v'] l IH]; cbn [zupdate zlookup]; [rewrite Z.eqb_refl; reflexivity|].
  destruct (k =? k') eqn:E; cbn [zlookup]; [rewrite Z.eqb_refl; reflexivity|rewrite E; exact IH].
Qed.

Lemma zlookup_zupdate_other {A} k k' (v : A) l : k' <> k -> zlookup k' (zupdate k v l) = zlookup k' l.
Proof.
  intro N. induction l as [|[k0 v0] l IH]; cbn [zupdate zlookup].
  - destruct (k' =? k) eqn:E; [apply Z.eqb_eq in E; contradiction|reflexivity].
  - destruct (k =? k0) eqn:E; cbn [zlookup].
    + apply Z.eqb_eq in E. subst k0. destruct (k' =? k) eqn:E'; [apply Z.eqb_eq in E'; contradiction|reflexivity].
    + destruct (k' =? k0); [reflexivity|exact IH].
Qed.

Lemma zlookup_zupdate {A} k k' (v : A) l : zlookup k' (zupdate k v l) = if k' =? k then Some v else zlookup k' l.
Proof.
  destruct (k' =? k) eqn:E; [apply Z.eqb_eq in E; subst; apply zlookup_zupdate_same|].
  apply zlookup_zupdate_other. intro H. subst. rewrite Z.eqb_refl in E. discriminate.
Qed.

Lemma zlookup_In {A} k (v : A) l : zlookup k l = Some v -> In (k, v) l.
Proof.
  induction l as [|[k' v'] l IH]; cbn [zlookup]; [discriminate|].
  destruct (k =? k') eqn:E; [apply Z.eqb_eq in E; subst; intro H; inversion H; left; reflexivity|].
  intro H. right. apply IH. exact H.
Qed.

Lemma pair_eqb_eq a b : pair_eqb a b = true <-> a = b.
Proof.
  destruct a as [a1 a2], b as [b1 b2]. unfold pair_eqb. cbn [fst snd]. rewrite andb_true_iff, !Z.eqb_eq.
  split; [intros [-> ->]; reflexivity|intro H; inversion H; auto].
Qed.

Lemma pair_eqb_refl a : pair_eqb a a = true.
Proof. apply pair_eqb_eq. reflexivity. Qed.

Lemma pair_eqb_neq a b : pair_eqb a b = false <-> a <> b.
Proof.
  split.
  - intros H E. subst. rewrite pair_eqb_refl in H. discriminate.
  - intro N. destruct (pair_eqb a b) eqn:E; [apply pair_eqb_eq in E; contradiction|reflexivity].
Qed.

Lemma plookup_In {A} k (v : A) l : plookup k l = Some v -> In (k, v) l.
Proof.
  induction l as [|[k' v'] l IH]; cbn [plookup]; [discriminate|].
  destruct (pair_eqb k k') eqn:E; [apply pair_eqb_eq in E; subst; intro H; inversion H; left; reflexivity|].
  intro H. right. apply IH. exact H.
Qed.

Lemma plookup_none_keys {A} k (l : list ((Z * Z) * A)) : plookup k l = None <-> ~ In k (map fst l).
Proof.
  induction l as [|[k' v'] l IH]; cbn [plookup map In fst]; [tauto|].
  destruct (pair_eqb k k') eqn:E.
  - apply pair_eqb_eq in E. subst. split; [discriminate|intro H; exfalso; apply H; left; reflexivity].
  - apply pair_eqb_neq in E. rewrite IH. split; [intros H [H1|H1]; [subst; apply E; reflexivity|contradiction]|tauto].
Qed.

Lemma plookup_nodup_in {A} k (v : A) l : NoDup (map fst l) -> In (k, v) l -> plookup k l = Some v.
Proof.
  induction l as [|[k' v'] l IH]; cbn [plookup map In fst]; [intros _ []|].
  intros ND [H|H].
  - inversion H; subst. rewrite pair_eqb_refl. reflexivity.
  - inversion ND as [|? ? Hn ND']; subst. destruct (pair_eqb k k') eqn:E.
    + apply pair_eqb_eq in E. subst. exfalso. apply Hn. apply in_map_iff. exists (k', v). auto.
    + apply IH; assumption.
Qed.

Lemma In_premove {A} k x (l : list ((Z * Z) * A)) : In x (premove k l) -> In x l.
Proof.
  induction l as [|[k' v'] l IH]; cbn [premove]; [auto|].
  destruct (pair_eqb k k'); [intro H; right; exact H|].
  intros [H|H]; [left; exact H|right; apply IH; exact H].
Qed.

Lemma premove_keys_incl {A} k (l : list ((Z * Z) * A)) k0 : In k0 (map fst (premove k l)) -> In k0 (map fst l).
Proof.
  intro H. apply in_map_iff in H. destruct H as (x & E & Hin). apply In_premove in Hin.
  apply in_map_iff. exists x. auto.
Qed.

Lemma premove_nodup {A} k (l : list ((Z * Z) * A)) : NoDup (map fst l) -> NoDup (map fst (premove k l)).
Proof.
  induction l as [|[k' v'] l IH]; cbn [premove map fst]; [auto|].
  intro ND. inversion ND as [|? ? Hn ND']; subst. destruct (pair_eqb k k'); [exact ND'|].
  cbn [map fst]. constructor; [|apply IH; exact ND'].
  intro H. apply Hn. eapply premove_keys_incl. exact H.
Qed.

Lemma premove_nodup_notin {A} k (l : list ((Z * Z) * A)) : NoDup (map fst l) -> ~ In k (map fst (premove k l)).
Proof.
  induction l as [|[k' v'] l IH]; cbn [premove map fst]; [auto|].
  intro ND. inversion ND as [|? ? Hn ND']; subst. destruct (pair_eqb k k') eqn:E.
  - apply pair_eqb_eq in E. subst. exact Hn.
  - apply pair_eqb_neq in E. cbn [map fst In]. intros [H|H]; [apply E; auto|]. apply (IH ND'). exact H.
Qed.

Lemma plookup_premove_other {A} k k' (l : list ((Z * Z) * A)) : k' <> k -> plookup k' (premove k l) = plookup k' l.
Proof.
  intro N. induction l as [|[k0 v0] l IH]; cbn [premove plookup]; [reflexivity|].
  destruct (pair_eqb k k0) eqn:E.
  - apply pair_eqb_eq in E. subst k0. destruct (pair_eqb k' k) eqn:E'; [apply pair_eqb_eq in E'; contradiction|reflexivity].
  - cbn [plookup]. destruct (pair_eqb k' k0); [reflexivity|exact IH].
Qed.

Lemma plookup_filter {A} (f : Z -> bool) k (l : list ((Z * Z) * A)) :
  plookup k (filter (fun e => f (fst (fst e))) l) = if f (fst k) then plookup k l else None.
Proof.
  induction l as [|[k0 v0] l IH]; cbn [filter plookup fst]; [destruct (f (fst k)); reflexivity|].
  destruct (f (fst k0)) eqn:F; cbn [plookup].
  - destruct (pair_eqb k k0) eqn:E; [apply pair_eqb_eq in E; subst; rewrite F; reflexivity|exact IH].
  - destruct (pair_eqb k k0) eqn:E; [apply pair_eqb_eq in E; subst; rewrite F in *; exact IH|exact IH].
Qed.

Lemma plookup_app {A} k (a b : list ((Z * Z) * A)) :
  plookup k (a ++ b) = match plookup k a with Some v => Some v | None => plookup k b end.
Proof. induction a as [|[k0 v0] a IH]; cbn [app plookup]; [reflexivity|]. destruct (pair_eqb k k0); [reflexivity|exact IH]. Qed.

Lemma filter_keys_nodup {A} (f : (Z * Z) * A -> bool) (l : list ((Z * Z) * A)) : NoDup (map fst l) -> NoDup (map fst (filter f l)).
Proof.
  induction l as [|x l IH]; cbn [filter map]; [auto|]. intro ND. inversion ND as [|? ? Hn ND']; subst.
  destruct (f x); [|apply IH; exact ND']. cbn [map]. constructor; [|apply IH; exact ND'].
  intro H. apply Hn. apply in_map_iff in H. destruct H as (y & E & Hin). apply filter_In in Hin.
  apply in_map_iff. exists y. tauto.
Qed.

(** ** running the monitor *)
Fixpoint arun (s : mstate) (recs : list val) : option mstate :=
  match recs with
  | [] => Some s
  | x :: rest => match mstep s x with Accept s' => arun s' rest | Reject _ => None end
  end.

Lemma mrun_arun recs : forall s i s', mrun s recs i = (None, s') <-> arun s recs = Some s'.
Proof.
  induction recs as [|x recs IH]; intros s i s'; cbn [mrun arun].
  - split; intro H; inversion H; reflexivity.
  - destruct (mstep s x) as [s1|why]; [apply IH|]. split; discriminate.
Qed.

Lemma arun_app a : forall s b, arun s (a ++ b) = match arun s a with Some s1 => arun s1 b | None => None end.
Proof. induction a as [|x a IH]; intros s b; cbn [app arun]; [reflexivity|]. destruct (mstep s x); [apply IH|reflexivity]. Qed.

Lemma accepted_arun recs s : accepted recs s <-> arun init_mstate recs = Some s.
Proof. apply mrun_arun. Qed.

Lemma accepted_nil s : accepted [] s <-> s = init_mstate.
Proof. rewrite accepted_arun. cbn. split; intro H; [inversion H|subst]; reflexivity. Qed.

Lemma accepted_snoc recs x s' : accepted (recs ++ [x]) s' <-> exists s, accepted recs s /\ mstep s x = Accept s'.
Proof.
  rewrite accepted_arun, arun_app. split.
  - destruct (arun init_mstate recs) as [s|] eqn:E; [|discriminate]. cbn [arun].
    destruct (mstep s x) as [s1|] eqn:M; [|discriminate]. intro H. inversion H; subst. exists s. split; [apply accepted_arun; exact E|exact M].
  - intros (s & Ha & M). apply accepted_arun in Ha. rewrite Ha. cbn [arun]. rewrite M. reflexivity.
Qed.

Lemma accepted_prefix l1 l2 s : accepted (l1 ++ l2) s -> exists s1, accepted l1 s1 /\ arun s1 l2 = Some s.
Proof.
  rewrite accepted_arun, arun_app. destruct (arun init_mstate l1) as [s1|] eqn:E; [|discriminate].
  intro H. exists s1. split; [apply accepted_arun; exact E|exact H].
Qed.

Lemma accepted_split l1 x l2 s : accepted (l1 ++ x :: l2) s ->
  exists s1 s2, accepted l1 s1 /\ mstep s1 x = Accept s2 /\ accepted (l1 ++ [x]) s2 /\ arun s2 l2 = Some s.
Proof.
  intro H. apply accepted_prefix in H. destruct H as (s1 & H1 & H2). cbn [arun] in H2.
  destruct (mstep s1 x) as [s2|] eqn:M; [|discriminate]. exists s1, s2. repeat split; try assumption.
  apply accepted_snoc. exists s1. auto.
Qed.

Lemma accepted_ind (P : list val -> mstate -> Prop) :
  P [] init_mstate ->
  (forall recs s x s', accepted recs s -> P recs s -> mstep s x = Accept s' -> P (recs ++ [x]) s') ->
  forall recs s, accepted recs s -> P recs s.
Proof.
  intros H0 Hs recs. induction recs as [|x recs IH] using rev_ind; intros s Ha.
  - apply accepted_nil in Ha. subst. exact H0.
  - apply accepted_snoc in Ha. destruct Ha as (s0 & Ha & M). eapply Hs; eauto.
Qed.

(** ** one accepted step, as a relation *)
Definition st_tables (s : mstate) T : mstate :=
  {| ms_tables := T; ms_regs := ms_regs s; ms_tonotify := ms_tonotify s; ms_reqs := ms_reqs s |}.
Definition st_regs (s : mstate) R : mstate :=
  {| ms_tables := ms_tables s; ms_regs := R; ms_tonotify := ms_tonotify s; ms_reqs := ms_reqs s |}.
Definition st_tonotify (s : mstate) R : mstate :=
  {| ms_tables := ms_tables s; ms_regs := ms_regs s; ms_tonotify := R; ms_reqs := ms_reqs s |}.
Definition set_q (s : mstate) (r : Z) (q : mreq) : mstate :=
  {| ms_tables := ms_tables s; ms_regs := ms_regs s; ms_tonotify := ms_tonotify s; ms_reqs := zupdate r q (ms_reqs s) |}.
Definition mq (q : mreq) (plan : list bytes) (host : bytes) (done : bool) (regs : nat) (ok : bool) : mreq :=
  {| m_client := m_client q; m_cstream := m_cstream q; m_plan := plan; m_host := host; m_done := done; m_regs := regs;
     m_resend_ok := ok |}.
Definition rkey (x : val) : Z * Z := (rtable x, rstream x).
Definition on_table (t : Z) (e : (Z * Z) * (Z * Z)) : bool := fst (fst e) =? t.

Inductive astep (s : mstate) (x : val) : mstate -> Prop :=
| A_table : rkind x = 0 -> astep s x (st_tables s (zupdate (rtable x) (rtext x, false) (ms_tables s)))
| A_push_unknown : rkind x = 1 -> zlookup (rtable x) (ms_tables s) = None -> astep s x s
| A_push_anon hk : rkind x = 1 -> zlookup (rtable x) (ms_tables s) = Some (hk, false) ->
    plookup (rkey x) (ms_regs s) = None -> (rreq x = 0 \/ zlookup (rreq x) (ms_reqs s) = None) ->
    astep s x (st_regs s ((rkey x, (rreq x, rrk x)) :: ms_regs s))
| A_push hk q : rkind x = 1 -> zlookup (rtable x) (ms_tables s) = Some (hk, false) ->
    plookup (rkey x) (ms_regs s) = None -> rreq x <> 0 -> zlookup (rreq x) (ms_reqs s) = Some q ->
    m_done q = false -> m_regs q = 0%nat -> hk = m_host q ->
    astep s x (set_q (st_regs s ((rkey x, (rreq x, rrk x)) :: ms_regs s)) (rreq x) (with_regs q 1))
| A_pop_ignored : rkind x = 2 -> plookup (rkey x) (ms_regs s) = None -> zlookup (rtable x) (ms_tables s) = None -> astep s x s
| A_pop rk0 : rkind x = 2 -> plookup (rkey x) (ms_regs s) = Some (rreq x, rk0) ->
    astep s x (let s1 := st_regs s (premove (rkey x) (ms_regs s)) in if rreq x =? 0 then s1 else dec_regs s1 (rreq x))
| A_closing_unknown : rkind x = 4 -> zlookup (rtable x) (ms_tables s) = None -> astep s x s
| A_closing hk b : rkind x = 4 -> zlookup (rtable x) (ms_tables s) = Some (hk, b) ->
    astep s x {| ms_tables := zupdate (rtable x) (hk, true) (ms_tables s);
                 ms_regs := filter (fun e => negb (on_table (rtable x) e)) (ms_regs s);
                 ms_tonotify := filter (on_table (rtable x)) (ms_regs s) ++ ms_tonotify s; ms_reqs := ms_reqs s |}
| A_notify_ignored : rkind x = 3 -> plookup (rkey x) (ms_tonotify s) = None -> zlookup (rtable x) (ms_tables s) = None -> astep s x s
| A_notify rk0 : rkind x = 3 -> plookup (rkey x) (ms_tonotify s) = Some (rreq x, rk0) ->
    astep s x (let s1 := st_tonotify s (premove (rkey x) (ms_tonotify s)) in if rreq x =? 0 then s1 else dec_regs s1 (rreq x))
| A_start : rkind x = 5 -> zlookup (rreq x) (ms_reqs s) = None ->
    astep s x (set_q s (rreq x) {| m_client := robj x; m_cstream := ra x; m_plan := fields (rtext x); m_host := []; m_done := false;
                                   m_regs := 0; m_resend_ok := true |})
| A_req_unknown : (rkind x < 0 \/ 6 <= rkind x) -> zlookup (rreq x) (ms_reqs s) = None -> astep s x s
| A_host_end q : rkind x = 6 -> zlookup (rreq x) (ms_reqs s) = Some q -> m_plan q = [] -> rtext x = [] ->
    astep s x (set_q s (rreq x) (mq q [] [] (m_done q) (m_regs q) (m_resend_ok q)))
| A_host q h rest : rkind x = 6 -> zlookup (rreq x) (ms_reqs s) = Some q -> m_plan q = h :: rest -> rtext x = h -> m_regs q = 0%nat ->
    astep s x (set_q s (rreq x) (mq q rest h (m_done q) (m_regs q) (m_resend_ok q)))
| A_decision q : rkind x = 7 -> zlookup (rreq x) (ms_reqs s) = Some q ->
    ra x = Z.of_N (handle_error (rc x =? 2) (err_of_fields (rtext x)) (rb x)) ->
    ((rc x =? 2) = false -> ra x <> Z.of_N dec_ReturnError -> safe_to_resend (OError (err_of_fields (rtext x))) = true) ->
    astep s x (set_q s (rreq x) (mq q (m_plan q) (m_host q) (m_done q) (m_regs q)
                                    (safe_to_resend (OError (err_of_fields (rtext x))) || (rc x =? 2))))
| A_reply q : rkind x = 8 -> zlookup (rreq x) (ms_reqs s) = Some q -> m_done q = false -> m_regs q = 0%nat ->
    astep s x (set_q s (rreq x) (mq q (m_plan q) (m_host q) true (m_regs q) (m_resend_ok q)))
| A_other q : (rkind x < 0 \/ 9 <= rkind x) -> zlookup (rreq x) (ms_reqs s) = Some q -> astep s x s.

Lemma mstep_astep s x s' : mstep s x = Accept s' -> astep s x s'.
Proof.
  unfold mstep. cbv zeta.
  fold (rkind x) (rtable x) (rstream x) (rreq x) (rrk x) (robj x) (ra x) (rb x) (rc x) (rtext x).
  change (rtable x, rstream x) with (rkey x).
  destruct (rkind x =? 0) eqn:K0.
  { apply Z.eqb_eq in K0. intro H. inversion H. apply A_table. exact K0. }
  destruct (rkind x =? 1) eqn:K1.
  { apply Z.eqb_eq in K1. destruct (zlookup (rtable x) (ms_tables s)) as [[hk cl]|] eqn:T.
    2:{ intro H. inversion H; subst. apply A_push_unknown; assumption. }
    destruct cl; [discriminate|]. destruct (plookup (rkey x) (ms_regs s)) eqn:P; [discriminate|].
    destruct (rreq x =? 0) eqn:R0.
    { apply Z.eqb_eq in R0. intro H. inversion H. eapply A_push_anon; eauto. }
    apply Z.eqb_neq in R0. destruct (zlookup (rreq x) (ms_reqs s)) as [q|] eqn:Q.
    2:{ intro H. inversion H. eapply A_push_anon; eauto. }
    destruct (m_done q) eqn:D; [discriminate|]. destruct (Nat.eqb (m_regs q) 0) eqn:G; [|discriminate].
    apply Nat.eqb_eq in G. destruct (bytes_eqb hk (m_host q)) eqn:Hh; [|discriminate]. apply bytes_eqb_eq in Hh.
    cbn [negb]. intro H. inversion H. eapply A_push; eauto. }
  destruct (rkind x =? 2) eqn:K2.
  { apply Z.eqb_eq in K2. destruct (plookup (rkey x) (ms_regs s)) as [[r0 rk0]|] eqn:P.
    2:{ destruct (zlookup (rtable x) (ms_tables s)) eqn:T; [discriminate|]. intro H. inversion H; subst. apply A_pop_ignored; assumption. }
    destruct (r0 =? rreq x) eqn:E; [|discriminate]. apply Z.eqb_eq in E. subst r0. cbn [negb].
    intro H. inversion H. eapply A_pop; eauto. }
  destruct (rkind x =? 4) eqn:K4.
  { apply Z.eqb_eq in K4. destruct (zlookup (rtable x) (ms_tables s)) as [[hk cl]|] eqn:T.
    2:{ intro H. inversion H; subst. apply A_closing_unknown; assumption. }
    intro H. inversion H. eapply A_closing; eauto. }
  destruct (rkind x =? 3) eqn:K3.
  { apply Z.eqb_eq in K3. destruct (plookup (rkey x) (ms_tonotify s)) as [[r0 rk0]|] eqn:P.
    2:{ destruct (zlookup (rtable x) (ms_tables s)) eqn:T; [discriminate|]. intro H. inversion H; subst. apply A_notify_ignored; assumption. }
    destruct (r0 =? rreq x) eqn:E; [|discriminate]. apply Z.eqb_eq in E. subst r0. cbn [negb].
    intro H. inversion H. eapply A_notify; eauto. }
  destruct (rkind x =? 5) eqn:K5.
  { apply Z.eqb_eq in K5. destruct (zlookup (rreq x) (ms_reqs s)) eqn:Q; [discriminate|].
    intro H. inversion H. apply A_start; assumption. }
  apply Z.eqb_neq in K0, K1, K2, K3, K4, K5.
  destruct (zlookup (rreq x) (ms_reqs s)) as [q|] eqn:Q.
  2:{ intro H. inversion H; subst. apply A_req_unknown; [lia|assumption]. }
  destruct (rkind x =? 6) eqn:K6.
  { apply Z.eqb_eq in K6. destruct (m_plan q) as [|h rest] eqn:Pl.
    - destruct (bytes_eqb (rtext x) []) eqn:B; [|discriminate]. apply bytes_eqb_eq in B.
      intro H. inversion H. eapply A_host_end; eauto.
    - destruct (bytes_eqb (rtext x) h) eqn:B; [|discriminate]. apply bytes_eqb_eq in B. cbn [negb].
      destruct (Nat.eqb (m_regs q) 0) eqn:G; [|discriminate]. apply Nat.eqb_eq in G. cbn [negb].
      intro H. inversion H. subst h. eapply A_host; eauto. }
  destruct (rkind x =? 7) eqn:K7.
  { apply Z.eqb_eq in K7.
    destruct (Z.of_N (handle_error (rc x =? 2) (err_of_fields (rtext x)) (rb x)) =? ra x) eqn:D; [|discriminate].
    apply Z.eqb_eq in D. cbn [negb].
    destruct (negb (rc x =? 2) && negb (ra x =? Z.of_N dec_ReturnError) && negb (safe_to_resend (OError (err_of_fields (rtext x))))) eqn:S; [discriminate|].
    intro H. inversion H. eapply A_decision; eauto.
    intros I1 I2. rewrite I1 in S. apply Z.eqb_neq in I2. rewrite I2 in S. cbn [negb andb] in S.
    destruct (safe_to_resend (OError (err_of_fields (rtext x)))); [reflexivity|discriminate]. }
  destruct (rkind x =? 8) eqn:K8.
  { apply Z.eqb_eq in K8. destruct (m_done q) eqn:D; [discriminate|]. destruct (Nat.eqb (m_regs q) 0) eqn:G; [|discriminate].
    apply Nat.eqb_eq in G. cbn [negb]. intro H. inversion H. eapply A_reply; eauto. }
  apply Z.eqb_neq in K6, K7, K8. intro H. inversion H; subst. eapply A_other; [lia|eauto].
Qed.

(** ** reading the state *)
Definition started_s (s : mstate) (r : Z) : bool := match zlookup r (ms_reqs s) with Some _ => true | None => false end.
Definition known_s (s : mstate) (t : Z) : bool := match zlookup t (ms_tables s) with Some _ => true | None => false end.
Definition regs_of (s : mstate) (r : Z) : nat := match zlookup r (ms_reqs s) with Some q => m_regs q | None => 0%nat end.
Definition done_of (s : mstate) (r : Z) : bool := match zlookup r (ms_reqs s) with Some q => m_done q | None => false end.

Lemma dec_regs_tables s r : ms_tables (dec_regs s r) = ms_tables s.
Proof. unfold dec_regs. destruct (zlookup r (ms_reqs s)); reflexivity. Qed.
Lemma dec_regs_regs s r : ms_regs (dec_regs s r) = ms_regs s.
Proof. unfold dec_regs. destruct (zlookup r (ms_reqs s)); reflexivity. Qed.
Lemma dec_regs_tonotify s r : ms_tonotify (dec_regs s r) = ms_tonotify s.
Proof. unfold dec_regs. destruct (zlookup r (ms_reqs s)); reflexivity. Qed.

Lemma dec_regs_lookup s r r' :
  zlookup r' (ms_reqs (dec_regs s r)) =
  if r' =? r then match zlookup r (ms_reqs s) with Some q => Some (with_regs q (pred (m_regs q))) | None => None end
  else zlookup r' (ms_reqs s).
Proof.
  unfold dec_regs. destruct (zlookup r (ms_reqs s)) as [q|] eqn:Q; cbn [ms_reqs].
  - apply zlookup_zupdate.
  - destruct (r' =? r) eqn:E; [apply Z.eqb_eq in E; subst; exact Q|reflexivity].
Qed.

Lemma opt_tables (c : bool) (s1 : mstate) r : ms_tables (if c then s1 else dec_regs s1 r) = ms_tables s1.
Proof. destruct c; [reflexivity|apply dec_regs_tables]. Qed.
Lemma opt_regs (c : bool) (s1 : mstate) r : ms_regs (if c then s1 else dec_regs s1 r) = ms_regs s1.
Proof. destruct c; [reflexivity|apply dec_regs_regs]. Qed.
Lemma opt_tonotify (c : bool) (s1 : mstate) r : ms_tonotify (if c then s1 else dec_regs s1 r) = ms_tonotify s1.
Proof. destruct c; [reflexivity|apply dec_regs_tonotify]. Qed.

(** ** how one accepted step changes each component *)
Lemma step_tables s x s' : astep s x s' ->
  (rkind x = 0 /\ ms_tables s' = zupdate (rtable x) (rtext x, false) (ms_tables s)) \/
  (rkind x = 4 /\ exists hk b, zlookup (rtable x) (ms_tables s) = Some (hk, b) /\
                              ms_tables s' = zupdate (rtable x) (hk, true) (ms_tables s)) \/
  (rkind x <> 0 /\ (rkind x = 4 -> zlookup (rtable x) (ms_tables s) = None) /\ ms_tables s' = ms_tables s).
Proof.
  intro H. inversion H; subst; cbv zeta; rewrite ?opt_tables; cbn [ms_tables st_tables st_regs st_tonotify set_q];
    first [ solve [left; split; [assumption|reflexivity]]
          | solve [right; left; split; [assumption|eauto]]
          | solve [right; right; split; [lia|split; [intro; try lia; try assumption|reflexivity]]] ].
Qed.

Inductive regs_change (s : mstate) (x : val) (s' : mstate) : Prop :=
| RC_push hk : rkind x = 1 -> zlookup (rtable x) (ms_tables s) = Some (hk, false) -> plookup (rkey x) (ms_regs s) = None ->
    ms_regs s' = (rkey x, (rreq x, rrk x)) :: ms_regs s -> ms_tonotify s' = ms_tonotify s -> regs_change s x s'
| RC_pop rk0 : rkind x = 2 -> plookup (rkey x) (ms_regs s) = Some (rreq x, rk0) ->
    ms_regs s' = premove (rkey x) (ms_regs s) -> ms_tonotify s' = ms_tonotify s -> regs_change s x s'
| RC_closing : rkind x = 4 -> known_s s (rtable x) = true ->
    ms_regs s' = filter (fun e => negb (on_table (rtable x) e)) (ms_regs s) ->
    ms_tonotify s' = filter (on_table (rtable x)) (ms_regs s) ++ ms_tonotify s -> regs_change s x s'
| RC_notify rk0 : rkind x = 3 -> plookup (rkey x) (ms_tonotify s) = Some (rreq x, rk0) ->
    ms_regs s' = ms_regs s -> ms_tonotify s' = premove (rkey x) (ms_tonotify s) -> regs_change s x s'
| RC_same : ms_regs s' = ms_regs s -> ms_tonotify s' = ms_tonotify s ->
    (rkind x = 1 -> known_s s (rtable x) = false) ->
    (rkind x = 2 -> known_s s (rtable x) = false /\ plookup (rkey x) (ms_regs s) = None) ->
    (rkind x = 3 -> known_s s (rtable x) = false /\ plookup (rkey x) (ms_tonotify s) = None) ->
    (rkind x = 4 -> known_s s (rtable x) = false) -> regs_change s x s'.

Ltac kn := unfold known_s; repeat match goal with E : zlookup _ (ms_tables _) = _ |- _ => rewrite E end; auto.

Lemma step_regs s x s' : astep s x s' -> regs_change s x s'.
Proof.
  intro H. inversion H; subst;
    try (eapply RC_push; eauto; fail);
    try (eapply RC_pop; eauto; cbv zeta; rewrite ?opt_regs, ?opt_tonotify; reflexivity);
    try (eapply RC_notify; eauto; cbv zeta; rewrite ?opt_regs, ?opt_tonotify; reflexivity);
    try (eapply RC_closing; eauto; kn; fail);
    try (apply RC_same; try reflexivity; try (intro; lia); intros _; kn).
Qed.

(** deciding the kind tests once the kind of the record is known *)
Ltac kdec :=
  repeat match goal with
         | |- context [rkind ?x =? ?k] =>
             first [ replace (rkind x =? k) with false by (symmetry; apply Z.eqb_neq; lia)
                   | replace (rkind x =? k) with true by (symmetry; apply Z.eqb_eq; lia) ]
         end.
Ltac preds := unfold touches, frees; unfold tbl_rec, push_on, push_at, push_of, pop_on, pop_of, notify_on, notify_of, closing_of, start_of,
                     hostrec_of, decision_of, reply_of.
Ltac kp := preds; kdec; cbn [andb orb negb].

Lemma known_snoc l x t : known (l ++ [x]) t = known l t || tbl_rec t x.
Proof. apply existsb_snoc. Qed.
Lemma started_snoc l x r : started (l ++ [x]) r = started l r || start_of r x.
Proof. apply existsb_snoc. Qed.

(** ** T1: a table is known to the monitor iff a table record declared it *)
Lemma inv_known recs s : accepted recs s -> forall t, known_s s t = known recs t.
Proof.
  revert recs s. apply (accepted_ind (fun recs s => forall t, known_s s t = known recs t)); [reflexivity|].
  intros recs s x s' Ha IH M t. apply mstep_astep in M. rewrite known_snoc, <- IH.
  destruct (step_tables _ _ _ M) as [(K & E)|[(K & hk & b & L & E)|(K & _ & E)]]; unfold known_s; rewrite E.
  - rewrite zlookup_zupdate. kp. rewrite (Z.eqb_sym (rtable x) t). destruct (t =? rtable x); [rewrite orb_true_r|rewrite orb_false_r]; reflexivity.
  - rewrite zlookup_zupdate. kp. rewrite orb_false_r. destruct (t =? rtable x) eqn:Et; [|reflexivity].
    apply Z.eqb_eq in Et. subst t. rewrite L. reflexivity.
  - kp. rewrite orb_false_r. reflexivity.
Qed.

(** ** A1: a request is known to the monitor iff a start record declared it *)
Lemma started_s_set_q_some s r' q q0 r : zlookup r' (ms_reqs s) = Some q0 -> started_s (set_q s r' q) r = started_s s r.
Proof.
  intro H. unfold started_s. cbn [ms_reqs set_q]. rewrite zlookup_zupdate. destruct (r =? r') eqn:E; [|reflexivity].
  apply Z.eqb_eq in E. subst. rewrite H. reflexivity.
Qed.
Lemma started_s_set_q_none s r' q r : zlookup r' (ms_reqs s) = None -> started_s (set_q s r' q) r = started_s s r || (r' =? r).
Proof.
  intro H. unfold started_s. cbn [ms_reqs set_q]. rewrite zlookup_zupdate, (Z.eqb_sym r' r). destruct (r =? r') eqn:E.
  - rewrite orb_true_r. reflexivity.
  - rewrite orb_false_r. reflexivity.
Qed.
Lemma started_s_dec_regs s r' r : started_s (dec_regs s r') r = started_s s r.
Proof.
  unfold started_s. rewrite dec_regs_lookup. destruct (r =? r') eqn:E; [|reflexivity]. apply Z.eqb_eq in E. subst.
  destruct (zlookup r' (ms_reqs s)); reflexivity.
Qed.
Lemma started_s_opt (c : bool) s r' r : started_s (if c then s else dec_regs s r') r = started_s s r.
Proof. destruct c; [reflexivity|apply started_s_dec_regs]. Qed.

Lemma started_s_st_regs s R r : started_s (st_regs s R) r = started_s s r. Proof. reflexivity. Qed.
Lemma started_s_st_tonotify s R r : started_s (st_tonotify s R) r = started_s s r. Proof. reflexivity. Qed.
Lemma started_s_st_tables s R r : started_s (st_tables s R) r = started_s s r. Proof. reflexivity. Qed.

Lemma started_s_step s x s' r : astep s x s' -> started_s s' r = started_s s r || start_of r x.
Proof.
  intro H. inversion H; subst; cbv zeta; rewrite ?started_s_opt;
    try (erewrite started_s_set_q_some by eassumption);
    try (rewrite started_s_set_q_none by assumption);
    rewrite ?started_s_st_regs, ?started_s_st_tonotify, ?started_s_st_tables; kp; rewrite ?orb_false_r; try reflexivity.
Qed.

Lemma inv_started recs s : accepted recs s -> forall r, started_s s r = started recs r.
Proof.
  revert recs s. apply (accepted_ind (fun recs s => forall r, started_s s r = started recs r)); [reflexivity|].
  intros recs s x s' Ha IH M r. apply mstep_astep in M. rewrite started_snoc, <- IH. apply started_s_step. exact M.
Qed.

(** ** the request table: done flag, registration count *)
Definition isSome {A} (o : option A) : bool := match o with Some _ => true | None => false end.

Lemma done_of_set_q s r' q' r : done_of (set_q s r' q') r = if r =? r' then m_done q' else done_of s r.
Proof. unfold done_of. cbn [ms_reqs set_q]. rewrite zlookup_zupdate. destruct (r =? r'); reflexivity. Qed.
Lemma done_of_dec_regs s r' r : done_of (dec_regs s r') r = done_of s r.
Proof.
  unfold done_of. rewrite dec_regs_lookup. destruct (r =? r') eqn:E; [|reflexivity]. apply Z.eqb_eq in E. subst.
  destruct (zlookup r' (ms_reqs s)); reflexivity.
Qed.
Lemma done_of_opt (c : bool) s r' r : done_of (if c then s else dec_regs s r') r = done_of s r.
Proof. destruct c; [reflexivity|apply done_of_dec_regs]. Qed.
Lemma done_of_st_regs s R r : done_of (st_regs s R) r = done_of s r. Proof. reflexivity. Qed.
Lemma done_of_st_tonotify s R r : done_of (st_tonotify s R) r = done_of s r. Proof. reflexivity. Qed.
Lemma done_of_st_tables s R r : done_of (st_tables s R) r = done_of s r. Proof. reflexivity. Qed.

Lemma regs_of_set_q s r' q' r : regs_of (set_q s r' q') r = if r =? r' then m_regs q' else regs_of s r.
Proof. unfold regs_of. cbn [ms_reqs set_q]. rewrite zlookup_zupdate. destruct (r =? r'); reflexivity. Qed.
Lemma regs_of_dec_regs s r' r : regs_of (dec_regs s r') r = if r =? r' then pred (regs_of s r) else regs_of s r.
Proof.
  unfold regs_of. rewrite dec_regs_lookup. destruct (r =? r') eqn:E; [|reflexivity]. apply Z.eqb_eq in E. subst.
  destruct (zlookup r' (ms_reqs s)); reflexivity.
Qed.
Lemma regs_of_st_regs s R r : regs_of (st_regs s R) r = regs_of s r. Proof. reflexivity. Qed.
Lemma regs_of_st_tonotify s R r : regs_of (st_tonotify s R) r = regs_of s r. Proof. reflexivity. Qed.
Lemma regs_of_st_tables s R r : regs_of (st_tables s R) r = regs_of s r. Proof. reflexivity. Qed.

Ltac use_lookups :=
  repeat match goal with
         | E : zlookup ?k ?l = _ |- context [zlookup ?k ?l] => rewrite E
         | E : plookup ?k ?l = _ |- context [plookup ?k ?l] => rewrite E
         end.

Lemma done_of_step s x s' r : astep s x s' -> done_of s' r = done_of s r || (reply_of r x && started_s s r).
Proof.
  intro H. inversion H; subst; cbv zeta; rewrite ?done_of_opt, ?done_of_set_q, ?done_of_st_regs, ?done_of_st_tonotify, ?done_of_st_tables;
    kp; rewrite ?orb_false_r; try reflexivity;
    (destruct (r =? rreq x) eqn:E; [apply Z.eqb_eq in E; subst r; rewrite ?Z.eqb_refl|rewrite ?(Z.eqb_sym (rreq x) r), ?E]);
    unfold done_of, started_s; use_lookups; cbn [m_done mq with_regs andb orb];
    repeat (rewrite ?andb_false_r, ?orb_false_r, ?orb_true_r, ?andb_true_r; cbn [andb orb]); try reflexivity.
Qed.

Lemma reply_step_facts s x s' r : astep s x s' -> reply_of r x = true -> started_s s r = true ->
  done_of s r = false /\ regs_of s r = 0%nat.
Proof.
  unfold reply_of. intros H R S. apply andb_true_iff in R. destruct R as [K R]. apply Z.eqb_eq in K, R. subst r.
  unfold started_s in S. inversion H; subst; try lia; unfold done_of, regs_of; use_lookups; try discriminate; auto.
  all: revert S; use_lookups; discriminate.
Qed.

Lemma start_step_fresh s x s' r : astep s x s' -> start_of r x = true -> started_s s r = false.
Proof.
  unfold start_of. intros H R. apply andb_true_iff in R. destruct R as [K R]. apply Z.eqb_eq in K, R. subst r.
  inversion H; subst; try lia. unfold started_s. use_lookups. reflexivity.
Qed.

Lemma life_snoc r l x : life r (l ++ [x]) = if started l r then life r l ++ [x] else [].
Proof.
  induction l as [|a l IH]; cbn [app life started existsb].
  - destruct (start_of r x); reflexivity.
  - fold (started l r). destruct (start_of r a); cbn [orb]; [reflexivity|exact IH].
Qed.

Lemma life_split r l0 st l1 : start_of r st = true -> none_of (start_of r) l0 -> life r (l0 ++ st :: l1) = l1.
Proof.
  intros Hs Hn. induction l0 as [|a l0 IH]; cbn [app life]; [rewrite Hs; reflexivity|].
  inversion Hn as [|? ? Ha Hn']; subst. rewrite Ha. apply IH. exact Hn'.
Qed.

(** A2: at most one start record per request; A3: replies since the start = the done flag *)
Lemma inv_starts recs s : accepted recs s -> forall r, count (start_of r) recs = if started recs r then 1%nat else 0%nat.
Proof.
  revert recs s. apply (accepted_ind (fun recs s => forall r, count (start_of r) recs = if started recs r then 1%nat else 0%nat)); [reflexivity|].
  intros recs s x s' Ha IH M r. apply mstep_astep in M. rewrite started_snoc, count_snoc, IH.
  destruct (start_of r x) eqn:S.
  - apply (start_step_fresh _ _ _ _ M) in S. rewrite (inv_started _ _ Ha) in S. rewrite S. reflexivity.
  - rewrite orb_false_r. lia.
Qed.

Lemma inv_replies recs s : accepted recs s -> forall r, count (reply_of r) (life r recs) = if done_of s r then 1%nat else 0%nat.
Proof.
  revert recs s. apply (accepted_ind (fun recs s => forall r, count (reply_of r) (life r recs) = if done_of s r then 1%nat else 0%nat)); [reflexivity|].
  intros recs s x s' Ha IH M r. apply mstep_astep in M. rewrite life_snoc, <- (inv_started _ _ Ha), (done_of_step _ _ _ _ M).
  destruct (started_s s r) eqn:S.
  - rewrite count_snoc, IH, andb_true_r. destruct (reply_of r x) eqn:R.
    + destruct (reply_step_facts _ _ _ _ M R S) as [D _]. rewrite D. reflexivity.
    + rewrite orb_false_r. lia.
  - rewrite andb_false_r, orb_false_r. unfold started_s in S. unfold done_of. destruct (zlookup r (ms_reqs s)); [discriminate|reflexivity].
Qed.

(** ** the slot tables: keys are distinct, and only known tables have entries *)
Lemma known_s_mono recs s x s' t : accepted recs s -> mstep s x = Accept s' -> known_s s t = true -> known_s s' t = true.
Proof.
  intros Ha M K. assert (Ha' : accepted (recs ++ [x]) s') by (apply accepted_snoc; eauto).
  rewrite (inv_known _ _ Ha') , known_snoc, <- (inv_known _ _ Ha), K. reflexivity.
Qed.

Lemma inv_regs_nodup recs s : accepted recs s -> NoDup (map fst (ms_regs s)).
Proof.
  revert recs s. apply (accepted_ind (fun recs s => NoDup (map fst (ms_regs s)))); [constructor|].
  intros recs s x s' Ha IH M. apply mstep_astep in M. destruct (step_regs _ _ _ M) as [hk K T P E _|rk0 K P E _|K T E _|rk0 K P E _|E _ _ _ _ _]; rewrite E.
  - cbn [map fst]. constructor; [apply plookup_none_keys; exact P|exact IH].
  - apply premove_nodup. exact IH.
  - apply filter_keys_nodup. exact IH.
  - exact IH.
  - exact IH.
Qed.

Lemma inv_entries_known recs s : accepted recs s ->
  forall k v, In (k, v) (ms_regs s ++ ms_tonotify s) -> known_s s (fst k) = true.
Proof.
  revert recs s. apply (accepted_ind (fun recs s => forall k v, In (k, v) (ms_regs s ++ ms_tonotify s) -> known_s s (fst k) = true)); [intros k v []|].
  intros recs s x s' Ha IH M k v Hin. pose proof (known_s_mono _ _ _ _ (fst k) Ha M) as Mono. apply mstep_astep in M.
  destruct (step_regs _ _ _ M) as [hk K T P E E'|rk0 K P E E'|K T E E'|rk0 K P E E'|E E' _ _ _ _]; rewrite E, E' in Hin.
  - cbn [app In] in Hin. destruct Hin as [Hin|Hin]; [|apply Mono; eapply IH; exact Hin].
    inversion Hin; subst. apply Mono. unfold known_s, rkey. cbn [fst]. rewrite T. reflexivity.
  - apply Mono. apply (IH k v). apply in_app_iff in Hin. apply in_app_iff. destruct Hin as [Hin|Hin]; [left; eapply In_premove; exact Hin|right; exact Hin].
  - apply Mono. apply (IH k v). rewrite !in_app_iff in Hin. apply in_app_iff.
    destruct Hin as [Hin|[Hin|Hin]]; [left; apply filter_In in Hin; tauto|left; apply filter_In in Hin; tauto|right; exact Hin].
  - apply Mono. apply (IH k v). apply in_app_iff in Hin. apply in_app_iff. destruct Hin as [Hin|Hin]; [left; exact Hin|right; eapply In_premove; exact Hin].
  - apply Mono. apply (IH k v). exact Hin.
Qed.

(** ** B: registrations of a request *)
Definition entries_of (r : Z) (l : list ((Z * Z) * (Z * Z))) : nat := length (filter (fun e => fst (snd e) =? r) l).

Lemma entries_app r a b : entries_of r (a ++ b) = (entries_of r a + entries_of r b)%nat.
Proof. unfold entries_of. rewrite filter_app, app_length. reflexivity. Qed.

Lemma entries_cons r e l : entries_of r (e :: l) = ((if (fst (snd e) =? r)%Z then 1 else 0) + entries_of r l)%nat.
Proof. unfold entries_of. cbn [filter]. destruct (fst (snd e) =? r); reflexivity. Qed.

Lemma entries_premove_same k r rk l : plookup k l = Some (r, rk) -> entries_of r l = S (entries_of r (premove k l)).
Proof.
  induction l as [|[k0 [r0 rk0]] l IH]; cbn [plookup premove]; [discriminate|].
  destruct (pair_eqb k k0).
  - intro H. inversion H; subst. rewrite entries_cons. cbn [fst snd]. rewrite Z.eqb_refl. reflexivity.
  - intro H. rewrite !entries_cons. rewrite (IH H). lia.
Qed.

Lemma entries_premove_other k r r' rk l : plookup k l = Some (r', rk) -> r <> r' -> entries_of r (premove k l) = entries_of r l.
Proof.
  intros H N. induction l as [|[k0 [r0 rk0]] l IH]; cbn [plookup premove] in *; [discriminate|].
  destruct (pair_eqb k k0).
  - inversion H; subst. rewrite entries_cons. cbn [fst snd]. destruct (r' =? r) eqn:E; [apply Z.eqb_eq in E; subst; contradiction|reflexivity].
  - rewrite !entries_cons. rewrite (IH H). reflexivity.
Qed.

Lemma entries_filter_split r f l : (entries_of r (filter f l) + entries_of r (filter (fun e => negb (f e)) l) = entries_of r l)%nat.
Proof.
  induction l as [|e l IH]; [reflexivity|]. cbn [filter]. destruct (f e); cbn [negb]; rewrite !entries_cons; lia.
Qed.

Lemma entries_pos_in r l : (0 < entries_of r l)%nat -> exists k rk, In (k, (r, rk)) l.
Proof.
  unfold entries_of. intro H. destruct (filter (fun e => fst (snd e) =? r) l) as [|[k [r0 rk]] f] eqn:E; [cbn in H; lia|].
  assert (Hin : In (k, (r0, rk)) (filter (fun e => fst (snd e) =? r) l)) by (rewrite E; left; reflexivity).
  apply filter_In in Hin. destruct Hin as [Hin Hr]. cbn [fst snd] in Hr. apply Z.eqb_eq in Hr. subst. eauto.
Qed.

Lemma kcount_from_snoc p l : forall pre x,
  kcount_from pre p (l ++ [x]) = (kcount_from pre p l + if p x && known (pre ++ l) (rtable x) then 1 else 0)%nat.
Proof.
  induction l as [|a l IH]; intros pre x; cbn [app kcount_from].
  - rewrite app_nil_r. lia.
  - rewrite IH, <- app_assoc. cbn [app]. lia.
Qed.

Lemma kcount_snoc p l x : kcount p (l ++ [x]) = (kcount p l + if p x && known l (rtable x) then 1 else 0)%nat.
Proof. unfold kcount. rewrite kcount_from_snoc. reflexivity. Qed.

Lemma regs_of_opt (c : bool) s r' r :
  regs_of (if c then s else dec_regs s r') r = if negb c && (r =? r') then pred (regs_of s r) else regs_of s r.
Proof. destruct c; cbn [negb andb]; [reflexivity|apply regs_of_dec_regs]. Qed.

Lemma regs_of_step s x s' r : astep s x s' -> r <> 0 ->
  regs_of s' r =
    if push_of r x && known_s s (rtable x) && started_s s r then 1%nat
    else if (pop_of r x && isSome (plookup (rkey x) (ms_regs s))) || (notify_of r x && isSome (plookup (rkey x) (ms_tonotify s)))
         then pred (regs_of s r) else regs_of s r.
Proof.
  intros H N. inversion H; subst; cbv zeta; rewrite ?regs_of_opt, ?regs_of_set_q, ?regs_of_st_regs, ?regs_of_st_tonotify, ?regs_of_st_tables;
    kp; rewrite ?orb_false_r; try reflexivity;
    (destruct (r =? rreq x) eqn:E; [apply Z.eqb_eq in E; subst r; rewrite ?Z.eqb_refl|rewrite ?(Z.eqb_sym (rreq x) r), ?E]);
    unfold regs_of, started_s, known_s, isSome; use_lookups; cbn [m_regs mq with_regs andb orb negb];
    repeat (rewrite ?andb_false_r, ?orb_false_r, ?orb_true_r, ?andb_true_r; cbn [andb orb]); try reflexivity.
  - match goal with Hx : _ \/ _ |- _ => destruct Hx as [Hx|Hx]; [contradiction|rewrite Hx; reflexivity] end.
  - apply Z.eqb_neq in N. rewrite N. reflexivity.
  - apply Z.eqb_neq in N. rewrite N. reflexivity.
Qed.

Lemma push_step_facts s x s' r : astep s x s' -> push_of r x = true -> r <> 0 -> known_s s (rtable x) = true -> started_s s r = true ->
  regs_of s r = 0%nat /\ done_of s r = false /\ plookup (rkey x) (ms_regs s) = None /\
  exists hk q, zlookup (rtable x) (ms_tables s) = Some (hk, false) /\ zlookup r (ms_reqs s) = Some q /\ hk = m_host q.
Proof.
  unfold push_of. intros H R N Kn St. apply andb_true_iff in R. destruct R as [K R]. apply Z.eqb_eq in K, R. subst r.
  unfold started_s in St. unfold known_s in Kn.
  inversion H; subst; try lia; unfold done_of, regs_of.
  - revert Kn. use_lookups. discriminate.
  - match goal with Hx : _ \/ _ |- _ => destruct Hx as [Hx|Hx]; [contradiction|revert St; rewrite Hx; discriminate] end.
  - use_lookups. repeat split; try assumption. eauto.
Qed.

Lemma born_prefix recs x r : born_in_trace (recs ++ [x]) r -> born_in_trace recs r.
Proof. intros B l1 y l2 E. apply (B l1 y (l2 ++ [x])). rewrite E, <- app_assoc. reflexivity. Qed.

Lemma born_last recs x r : born_in_trace (recs ++ [x]) r -> push_of r x = true -> started recs r = true.
Proof. intros B P. apply (B recs x []); [reflexivity|exact P]. Qed.

Definition regs_inv (recs : list val) (s : mstate) (r : Z) : Prop :=
  entries_of r (ms_regs s ++ ms_tonotify s) = regs_of s r /\ (regs_of s r <= 1)%nat /\
  kcount (push_of r) recs = (kcount (pop_of r) recs + kcount (notify_of r) recs + regs_of s r)%nat.

Lemma inv_regs_count recs s : accepted recs s -> forall r, r <> 0 -> born_in_trace recs r -> regs_inv recs s r.
Proof.
  revert recs s. apply (accepted_ind (fun recs s => forall r, r <> 0 -> born_in_trace recs r -> regs_inv recs s r)).
  { intros r _ _. repeat split; cbn; lia. }
  intros recs s x s' Ha IH M r N B. specialize (IH r N (born_prefix _ _ _ B)). destruct IH as (I1 & I2 & I3).
  pose proof (inv_entries_known _ _ Ha) as EK. pose proof (inv_known _ _ Ha (rtable x)) as Kn.
  pose proof (inv_started _ _ Ha r) as St.
  apply mstep_astep in M. pose proof (regs_of_step _ _ _ r M N) as RS. pose proof (push_step_facts _ _ _ r M) as PF.
  unfold regs_inv. rewrite !kcount_snoc, <- Kn, I3. rewrite entries_app in I1 |- *.
  destruct (step_regs _ _ _ M) as [hk K T P E E'|rk0 K P E E'|K T E E'|rk0 K P E E'|E E' S1 S2 S3 S4]; rewrite E, E'; revert RS; kp.
  - (* push *)
    assert (KT : known_s s (rtable x) = true) by (unfold known_s; rewrite T; reflexivity). rewrite KT in *. cbn [andb].
    rewrite entries_cons. cbn [fst snd]. destruct (rreq x =? r) eqn:Er.
    + assert (Hp : push_of r x = true) by (unfold push_of; rewrite K, Er; reflexivity).
      pose proof (born_last _ _ _ B Hp) as S0. rewrite <- St in S0. rewrite S0.
      destruct (PF Hp N eq_refl S0) as (Z0 & _). intros ->; cbn [andb orb]; lia.
    + intros ->; cbn [andb orb]; lia.
  - (* pop *)
    rewrite P. cbn [isSome andb]. assert (KT : known_s s (rtable x) = true).
    { apply (EK (rkey x) (rreq x, rk0)). apply in_app_iff. left. apply plookup_In. exact P. }
    rewrite KT. rewrite andb_true_r. destruct (rreq x =? r) eqn:Er.
    + apply Z.eqb_eq in Er. subst r. intros ->. rewrite (entries_premove_same _ _ _ _ P) in I1. cbn [andb orb]. lia.
    + apply Z.eqb_neq in Er. intros ->. rewrite (entries_premove_other _ r _ _ _ P) by (intro; subst; auto). cbn [andb orb]. lia.
  - (* closing *)
    intros ->. rewrite entries_app. pose proof (entries_filter_split r (on_table (rtable x)) (ms_regs s)). cbn [andb orb]. lia.
  - (* notify *)
    rewrite P. cbn [isSome andb]. assert (KT : known_s s (rtable x) = true).
    { apply (EK (rkey x) (rreq x, rk0)). apply in_app_iff. right. apply plookup_In. exact P. }
    rewrite KT. rewrite andb_true_r. destruct (rreq x =? r) eqn:Er.
    + apply Z.eqb_eq in Er. subst r. intros ->. rewrite (entries_premove_same _ _ _ _ P) in I1. cbn [andb orb]. lia.
    + apply Z.eqb_neq in Er. intros ->. rewrite (entries_premove_other _ r _ _ _ P) by (intro; subst; auto). cbn [andb orb]. lia.
  - (* nothing registered or released *)
    destruct (rkind x =? 1) eqn:K1; [apply Z.eqb_eq in K1; rewrite ?(S1 K1)|]; cbn [andb];
    (destruct (rkind x =? 2) eqn:K2; [apply Z.eqb_eq in K2; destruct (S2 K2) as [S2a S2b]; rewrite ?S2a, ?S2b|]); cbn [andb isSome];
    (destruct (rkind x =? 3) eqn:K3; [apply Z.eqb_eq in K3; destruct (S3 K3) as [S3a S3b]; rewrite ?S3a, ?S3b|]); cbn [andb isSome orb];
    rewrite ?andb_false_r; cbn [andb orb]; intros ->; cbn [andb orb]; lia.
Qed.

(** ** M1, M8 (C01): replies *)
Lemma unique_start recs s r l0 st l1 : accepted recs s -> recs = l0 ++ st :: l1 -> start_of r st = true ->
  none_of (start_of r) l0 /\ none_of (start_of r) l1 /\ life r recs = l1 /\ started recs r = true.
Proof.
  intros Ha E S. pose proof (inv_starts _ _ Ha r) as C. rewrite E, count_app, count_cons, S in C.
  assert (St : started (l0 ++ st :: l1) r = true).
  { unfold started. rewrite existsb_app. cbn [existsb]. rewrite S, orb_true_r. reflexivity. }
  rewrite St in C. assert (C0 : count (start_of r) l0 = 0%nat) by lia. assert (C1 : count (start_of r) l1 = 0%nat) by lia.
  apply count_zero_none in C0, C1. repeat split; try assumption; subst recs; [apply life_split; assumption|exact St].
Qed.

Theorem accepted_at_most_one_reply recs s : accepted recs s ->
  forall r l0 st l1, recs = l0 ++ st :: l1 -> start_of r st = true -> (count (reply_of r) l1 <= 1)%nat.
Proof.
  intros Ha r l0 st l1 E S. destruct (unique_start _ _ _ _ _ _ Ha E S) as (_ & _ & L & _).
  rewrite <- L, (inv_replies _ _ Ha r). destruct (done_of s r); lia.
Qed.

Lemma quiescent_all_done s : quiescent_ok s = [] -> forall r q, zlookup r (ms_reqs s) = Some q -> m_done q = true /\ m_regs q = 0%nat.
Proof.
  unfold quiescent_ok. intros H r q Hq. apply zlookup_In in Hq.
  destruct (existsb (fun e => negb (m_done (snd e))) (ms_reqs s)) eqn:E1.
  { exfalso. revert H. vm_compute. discriminate. }
  destruct (existsb (fun e => negb (Nat.eqb (m_regs (snd e)) 0)) (ms_reqs s)) eqn:E2.
  { exfalso. revert H. vm_compute. discriminate. }
  split.
  - destruct (m_done q) eqn:D; [reflexivity|]. assert (X : existsb (fun e => negb (m_done (snd e))) (ms_reqs s) = true).
    { apply existsb_exists. exists (r, q). split; [exact Hq|]. cbn [snd]. rewrite D. reflexivity. }
    rewrite X in E1. discriminate.
  - destruct (Nat.eqb (m_regs q) 0) eqn:D; [apply Nat.eqb_eq in D; exact D|].
    assert (X : existsb (fun e => negb (Nat.eqb (m_regs (snd e)) 0)) (ms_reqs s) = true).
    { apply existsb_exists. exists (r, q). split; [exact Hq|]. cbn [snd]. rewrite D. reflexivity. }
    rewrite X in E2. discriminate.
Qed.

Theorem accepted_quiescent_all_answered recs s : accepted recs s -> quiescent_ok s = [] ->
  forall r l0 st l1, recs = l0 ++ st :: l1 -> start_of r st = true -> count (reply_of r) l1 = 1%nat.
Proof.
  intros Ha Q r l0 st l1 E S. destruct (unique_start _ _ _ _ _ _ Ha E S) as (_ & _ & L & St).
  rewrite <- L, (inv_replies _ _ Ha r). rewrite <- (inv_started _ _ Ha) in St. unfold started_s in St. unfold done_of.
  destruct (zlookup r (ms_reqs s)) as [q|] eqn:Hq; [|discriminate]. destruct (quiescent_all_done _ Q _ _ Hq) as [D _]. rewrite D. reflexivity.
Qed.

(** ** M4, M2 (C01): registrations *)
Lemma born_app l1 l2 r : born_in_trace (l1 ++ l2) r -> born_in_trace l1 r.
Proof. intros B a y b E. apply (B a y (b ++ l2)). rewrite E, <- app_assoc. reflexivity. Qed.

Theorem accepted_single_registration recs s : accepted recs s -> forall r, r <> 0 -> born_in_trace recs r ->
  forall pre post, recs = pre ++ post ->
  exists n, (n <= 1)%nat /\ kcount (push_of r) pre = (kcount (pop_of r) pre + kcount (notify_of r) pre + n)%nat.
Proof.
  intros Ha r N B pre post E. subst recs. destruct (accepted_prefix _ _ _ Ha) as (s1 & H1 & _).
  destruct (inv_regs_count _ _ H1 r N (born_app _ _ _ B)) as (_ & I2 & I3). exists (regs_of s1 r). auto.
Qed.

Theorem accepted_reply_when_unregistered recs s : accepted recs s -> forall r, r <> 0 -> born_in_trace recs r ->
  forall l1 x l2, recs = l1 ++ x :: l2 -> reply_of r x = true -> started l1 r = true ->
  kcount (push_of r) l1 = (kcount (pop_of r) l1 + kcount (notify_of r) l1)%nat.
Proof.
  intros Ha r N B l1 x l2 E R St. subst recs. destruct (accepted_split _ _ _ _ Ha) as (s1 & s2 & H1 & M & _ & _).
  destruct (inv_regs_count _ _ H1 r N (born_app _ _ _ B)) as (_ & _ & I3). apply mstep_astep in M.
  rewrite <- (inv_started _ _ H1) in St. destruct (reply_step_facts _ _ _ _ M R St) as [_ Z0]. lia.
Qed.

Theorem accepted_no_push_after_reply recs s : accepted recs s -> forall r, r <> 0 ->
  forall l1 p l2, recs = l1 ++ p :: l2 -> push_of r p = true -> known l1 (rtable p) = true -> started l1 r = true ->
  count (reply_of r) (life r l1) = 0%nat.
Proof.
  intros Ha r N l1 p l2 E P Kn St. subst recs. destruct (accepted_split _ _ _ _ Ha) as (s1 & s2 & H1 & M & _ & _).
  apply mstep_astep in M. rewrite <- (inv_known _ _ H1) in Kn. rewrite <- (inv_started _ _ H1) in St.
  destruct (push_step_facts _ _ _ _ M P N Kn St) as (_ & D & _). rewrite (inv_replies _ _ H1 r), D. reflexivity.
Qed.

(** when the recording is complete the scoped counts are the plain counts *)
Lemma complete_app l1 l2 : recording_complete (l1 ++ l2) -> recording_complete l1.
Proof. intros C a y b E. apply (C a y (b ++ l2)). rewrite E, <- app_assoc. reflexivity. Qed.

Lemma complete_kcount p recs : (forall x, p x = true -> rkind x = 1 \/ rkind x = 2 \/ rkind x = 3 \/ rkind x = 4) ->
  recording_complete recs -> kcount p recs = count p recs.
Proof.
  intro Hp. induction recs as [|x recs IH] using rev_ind; intro C; [reflexivity|].
  rewrite kcount_snoc, count_snoc, (IH (complete_app _ _ C)). destruct (p x) eqn:P; [|reflexivity].
  destruct (C recs x [] eq_refl) as [C1 _]. rewrite (C1 (Hp _ P)). reflexivity.
Qed.

Lemma complete_born recs r : r <> 0 -> recording_complete recs -> born_in_trace recs r.
Proof.
  intros N C l1 x l2 E P. destruct (C l1 x l2 E) as [_ C2]. unfold push_of in P. apply andb_true_iff in P. destruct P as [K R].
  apply Z.eqb_eq in K, R. subst r. apply C2; [left; exact K|exact N].
Qed.

(** ** D: what stands in the slot table is the last push on a slot that was not freed since *)
Lemma known_app l1 l2 t : known l1 t = true -> known (l1 ++ l2) t = true.
Proof. unfold known. rewrite existsb_app. intros ->. reflexivity. Qed.

Lemma rkey_push_on k x : rkind x = 1 -> push_on k x = true <-> rkey x = k.
Proof.
  intro K. unfold push_on, rkey. rewrite K, Z.eqb_refl. cbn [andb]. rewrite andb_true_iff, !Z.eqb_eq. destruct k as [a b]. cbn [fst snd].
  split; [intros [-> ->]; reflexivity|intro H; inversion H; auto].
Qed.

Lemma rkey_pop_on k x : rkind x = 2 -> pop_on k x = true <-> rkey x = k.
Proof.
  intro K. unfold pop_on, rkey. rewrite K, Z.eqb_refl. cbn [andb]. rewrite andb_true_iff, !Z.eqb_eq. destruct k as [a b]. cbn [fst snd].
  split; [intros [-> ->]; reflexivity|intro H; inversion H; auto].
Qed.

Lemma rkey_notify_on k x : rkind x = 3 -> notify_on k x = true <-> rkey x = k.
Proof.
  intro K. unfold notify_on, rkey. rewrite K, Z.eqb_refl. cbn [andb]. rewrite andb_true_iff, !Z.eqb_eq. destruct k as [a b]. cbn [fst snd].
  split; [intros [-> ->]; reflexivity|intro H; inversion H; auto].
Qed.

Lemma not_true_false b : b <> true -> b = false.
Proof. destruct b; [intro H; exfalso; apply H; reflexivity|reflexivity]. Qed.

Lemma touches_kind1 k x : rkind x = 1 -> touches k x = push_on k x.
Proof. intro K. kp. rewrite orb_false_r. reflexivity. Qed.
Lemma touches_kind2 k x : rkind x = 2 -> touches k x = pop_on k x.
Proof. intro K. kp. rewrite orb_false_r. reflexivity. Qed.
Lemma touches_kind4 k x : rkind x = 4 -> touches k x = (rtable x =? fst k).
Proof. intro K. kp. reflexivity. Qed.

Definition slot_origin (recs : list val) (k : Z * Z) (r rk : Z) : Prop :=
  exists l1 p l2, recs = l1 ++ p :: l2 /\ push_on k p = true /\ known l1 (fst k) = true /\ rreq p = r /\ rrk p = rk /\
                  none_of (touches k) l2.

Lemma slot_origin_snoc recs k r rk x : slot_origin recs k r rk -> touches k x = false -> slot_origin (recs ++ [x]) k r rk.
Proof.
  intros (l1 & p & l2 & E & P & Kn & R & Rk & No) T. exists l1, p, (l2 ++ [x]). subst recs. rewrite <- app_assoc. cbn [app].
  repeat split; try assumption. apply none_of_app. split; [exact No|constructor; [exact T|constructor]].
Qed.

Lemma inv_slot_origin recs s : accepted recs s -> forall k r rk, In (k, (r, rk)) (ms_regs s) -> slot_origin recs k r rk.
Proof.
  revert recs s. apply (accepted_ind (fun recs s => forall k r rk, In (k, (r, rk)) (ms_regs s) -> slot_origin recs k r rk)); [intros k r rk []|].
  intros recs s x s' Ha IH M k r rk Hin. pose proof (inv_regs_nodup _ _ Ha) as ND. pose proof (inv_entries_known _ _ Ha) as EK.
  pose proof (inv_known _ _ Ha) as Kn. apply mstep_astep in M.
  destruct (step_regs _ _ _ M) as [hk K T P E E'|rk0 K P E E'|K T E E'|rk0 K P E E'|E E' S1 S2 S3 S4]; rewrite E in Hin.
  - destruct Hin as [Hin|Hin].
    + inversion Hin; subst. exists recs, x, []. repeat split; try reflexivity; [apply rkey_push_on; auto| |constructor].
      rewrite <- Kn. unfold known_s, rkey. cbn [fst]. rewrite T. reflexivity.
    + apply slot_origin_snoc; [apply IH; exact Hin|]. rewrite touches_kind1 by exact K. apply not_true_false. intro Hp.
      apply (rkey_push_on k x K) in Hp. subst k. apply plookup_none_keys in P. apply P. apply in_map_iff. exists (rkey x, (r, rk)). auto.
  - apply slot_origin_snoc; [apply IH; eapply In_premove; exact Hin|]. rewrite touches_kind2 by exact K. apply not_true_false. intro Hp.
    apply (rkey_pop_on k x K) in Hp. subst k. apply (premove_nodup_notin (rkey x) (ms_regs s) ND). apply in_map_iff. exists (rkey x, (r, rk)). auto.
  - apply filter_In in Hin. destruct Hin as [Hin F]. unfold on_table in F. cbn [fst] in F.
    apply slot_origin_snoc; [apply IH; exact Hin|]. rewrite touches_kind4 by exact K. rewrite (Z.eqb_sym (rtable x) (fst k)). apply negb_true_iff in F. exact F.
  - apply slot_origin_snoc; [apply IH; exact Hin|]. kp. reflexivity.
  - apply slot_origin_snoc; [apply IH; exact Hin|].
    assert (KT : known_s s (fst k) = true) by (apply (EK k (r, rk)); apply in_app_iff; left; exact Hin).
    assert (X : forall (Q : Prop), (Q -> known_s s (rtable x) = false) -> Q -> (rtable x =? fst k) = false).
    { intros Q HQ q. apply Z.eqb_neq. intro Eq. rewrite Eq in HQ. rewrite (HQ q) in KT. discriminate. }
    preds. destruct (rkind x =? 1) eqn:K1; [apply Z.eqb_eq in K1; rewrite ?(X _ S1 K1)|]; cbn [andb orb];
    (destruct (rkind x =? 2) eqn:K2; [apply Z.eqb_eq in K2; rewrite ?(X _ (fun q => proj1 (S2 q)) K2)|]); cbn [andb orb];
    (destruct (rkind x =? 4) eqn:K4; [apply Z.eqb_eq in K4; rewrite ?(X _ S4 K4)|]); reflexivity.
Qed.

Lemma inv_slot_taken recs s : accepted recs s ->
  forall k l1 p l2, recs = l1 ++ p :: l2 -> push_on k p = true -> known l1 (fst k) = true -> none_of (frees k) l2 ->
  plookup k (ms_regs s) = Some (rreq p, rrk p).
Proof.
  revert recs s. apply (accepted_ind (fun recs s => forall k l1 p l2, recs = l1 ++ p :: l2 -> push_on k p = true ->
    known l1 (fst k) = true -> none_of (frees k) l2 -> plookup k (ms_regs s) = Some (rreq p, rrk p))).
  { intros k l1 p l2 E. destruct l1; discriminate. }
  intros recs s x s' Ha IH M k l1 p l2 E Pp Kn No. pose proof (inv_known _ _ Ha) as KN. apply mstep_astep in M.
  assert (Kp : rkind p = 1). { unfold push_on in Pp. apply andb_true_iff in Pp. destruct Pp as [Pp _]. apply andb_true_iff in Pp. destruct Pp as [Pp _]. apply Z.eqb_eq. exact Pp. }
  destruct (split_snoc_cases _ _ _ _ _ E) as [(-> & -> & ->)|(l2' & -> & E2)].
  - apply (rkey_push_on k x Kp) in Pp. subst k. cbn [rkey fst] in Kn. rewrite <- KN in Kn.
    destruct (step_regs _ _ _ M) as [hk K T P E1 E'|rk0 K P E1 E'|K T E1 E'|rk0 K P E1 E'|E1 E' S1 S2 S3 S4]; try lia.
    + rewrite E1. cbn [plookup]. rewrite pair_eqb_refl. reflexivity.
    + rewrite (S1 Kp) in Kn. discriminate.
  - apply none_of_app in No. destruct No as [No Nx]. inversion Nx as [|? ? Fx _]; subst. specialize (IH k l1 p l2' eq_refl Pp Kn No).
    unfold frees in Fx. apply orb_false_iff in Fx. destruct Fx as [F1 F2].
    destruct (step_regs _ _ _ M) as [hk K T P E1 E'|rk0 K P E1 E'|K T E1 E'|rk0 K P E1 E'|E1 E' S1 S2 S3 S4]; rewrite E1.
    + cbn [plookup]. destruct (pair_eqb k (rkey x)) eqn:Ek; [|exact IH]. apply pair_eqb_eq in Ek. subst k. rewrite P in IH. discriminate.
    + rewrite plookup_premove_other; [exact IH|]. intro Ek. subst k. assert (pop_on (rkey x) x = true) by (apply rkey_pop_on; auto). congruence.
    + unfold closing_of in F2. rewrite K, Z.eqb_refl in F2. cbn [andb] in F2.
      unfold on_table. rewrite (plookup_filter (fun z => negb (z =? rtable x)) k (ms_regs s)). rewrite (Z.eqb_sym (fst k)), F2. exact IH.
    + exact IH.
    + exact IH.
Qed.

(** ** T3: a closed table stays closed until its id is declared again *)
Lemma inv_closing_flag recs s : accepted recs s ->
  forall t l1 c l2, recs = l1 ++ c :: l2 -> closing_of t c = true -> known l1 t = true -> none_of (tbl_rec t) l2 ->
  exists hk, zlookup t (ms_tables s) = Some (hk, true).
Proof.
  revert recs s. apply (accepted_ind (fun recs s => forall t l1 c l2, recs = l1 ++ c :: l2 -> closing_of t c = true ->
    known l1 t = true -> none_of (tbl_rec t) l2 -> exists hk, zlookup t (ms_tables s) = Some (hk, true))).
  { intros t l1 c l2 E. destruct l1; discriminate. }
  intros recs s x s' Ha IH M t l1 c l2 E Cc Kn No. pose proof (inv_known _ _ Ha) as KN. apply mstep_astep in M.
  assert (Kc : rkind c = 4 /\ rtable c = t). { unfold closing_of in Cc. apply andb_true_iff in Cc. rewrite !Z.eqb_eq in Cc. exact Cc. }
  destruct Kc as [Kc Tc].
  destruct (split_snoc_cases _ _ _ _ _ E) as [(-> & -> & ->)|(l2' & -> & E2)].
  - subst t. rewrite <- KN in Kn. unfold known_s in Kn.
    destruct (step_tables _ _ _ M) as [(K & E1)|[(K & hk & b & L & E1)|(K & K4 & E1)]]; try lia.
    + rewrite E1, zlookup_zupdate_same. eauto.
    + rewrite (K4 Kc) in Kn. discriminate.
  - apply none_of_app in No. destruct No as [No Nx]. inversion Nx as [|? ? Fx _]; subst. destruct (IH _ l1 c l2' eq_refl Cc Kn No) as (hk0 & L0).
    destruct (step_tables _ _ _ M) as [(K & E1)|[(K & hk & b & L & E1)|(K & K4 & E1)]]; rewrite E1.
    + unfold tbl_rec in Fx. rewrite K, Z.eqb_refl in Fx. cbn [andb] in Fx. rewrite zlookup_zupdate, (Z.eqb_sym (rtable c)), Fx. eauto.
    + rewrite zlookup_zupdate. destruct (rtable c =? rtable x); eauto.
    + eauto.
Qed.

Lemma push_not_on_closing s x s' hk : astep s x s' -> rkind x = 1 -> zlookup (rtable x) (ms_tables s) = Some (hk, true) -> False.
Proof. intros H K T. inversion H; subst; try lia; congruence. Qed.

Lemma push_not_on_taken s x s' v : astep s x s' -> rkind x = 1 -> known_s s (rtable x) = true -> plookup (rkey x) (ms_regs s) = Some v -> False.
Proof. unfold known_s. intros H K T P. inversion H; subst; try lia; try congruence. revert T. use_lookups. discriminate. Qed.

(** ** M3 (C02): stream ids *)
Theorem accepted_no_push_after_closing recs s : accepted recs s ->
  forall t l1 c l2 p l3, recs = l1 ++ c :: l2 ++ p :: l3 -> closing_of t c = true -> known l1 t = true -> push_at t p = true ->
  exists y, In y l2 /\ tbl_rec t y = true.
Proof.
  intros Ha t l1 c l2 p l3 E Cc Kn Pp. destruct (existsb (tbl_rec t) l2) eqn:Ex; [apply existsb_exists in Ex; exact Ex|].
  exfalso. apply none_of_existsb in Ex. subst recs. replace (l1 ++ c :: l2 ++ p :: l3) with ((l1 ++ c :: l2) ++ p :: l3) in Ha by (rewrite <- app_assoc; reflexivity).
  destruct (accepted_split _ _ _ _ Ha) as (s1 & s2 & H1 & M & _ & _). apply mstep_astep in M.
  destruct (inv_closing_flag _ _ H1 t l1 c l2 eq_refl Cc Kn Ex) as (hk & L).
  unfold push_at in Pp. apply andb_true_iff in Pp. rewrite !Z.eqb_eq in Pp. destruct Pp as [K T]. subst t.
  eapply push_not_on_closing; eauto.
Qed.

Corollary accepted_closed_table_stays_closed recs s : accepted recs s ->
  forall t l1 c l2 p l3, recs = l1 ++ c :: l2 ++ p :: l3 -> closing_of t c = true -> known l1 t = true ->
  table_declared_once recs t -> push_at t p = false.
Proof.
  intros Ha t l1 c l2 p l3 E Cc Kn Once. apply not_true_false. intro Pp.
  destruct (accepted_no_push_after_closing _ _ Ha t l1 c l2 p l3 E Cc Kn Pp) as (y & Hy & Ty).
  unfold table_declared_once in Once. assert (C1 : (0 < count (tbl_rec t) l1)%nat).
  { apply count_pos_in. unfold known in Kn. apply existsb_exists in Kn. exact Kn. }
  assert (C2 : (0 < count (tbl_rec t) l2)%nat) by (apply count_pos_in; eauto).
  rewrite E, count_app, count_cons, count_app in Once. lia.
Qed.

Theorem accepted_stream_exclusive recs s : accepted recs s ->
  forall k l1 p1 l2 p2 l3, recs = l1 ++ p1 :: l2 ++ p2 :: l3 -> push_on k p1 = true -> push_on k p2 = true -> known l1 (fst k) = true ->
  (exists y, In y l2 /\ pop_on k y = true) \/
  (exists l2a c l2b y, l2 = l2a ++ c :: l2b /\ closing_of (fst k) c = true /\ In y l2b /\ tbl_rec (fst k) y = true).
Proof.
  intros Ha k l1 p1 l2 p2 l3 E P1 P2 Kn.
  destruct (existsb (pop_on k) l2) eqn:Ex; [left; apply existsb_exists in Ex; exact Ex|].
  destruct (existsb (closing_of (fst k)) l2) eqn:Ec.
  - right. apply existsb_exists in Ec. destruct Ec as (c & Hc & Cc). apply in_split in Hc. destruct Hc as (l2a & l2b & ->).
    assert (E' : recs = (l1 ++ p1 :: l2a) ++ c :: l2b ++ p2 :: l3) by (rewrite E, <- !app_assoc; reflexivity).
    assert (Pa : push_at (fst k) p2 = true).
    { unfold push_on in P2. unfold push_at. apply andb_true_iff in P2. destruct P2 as [P2 _]. exact P2. }
    destruct (accepted_no_push_after_closing _ _ Ha (fst k) _ c l2b p2 l3 E' Cc (known_app _ _ _ Kn) Pa) as (y & Hy & Ty).
    exists l2a, c, l2b, y. auto.
  - exfalso. apply none_of_existsb in Ex, Ec. subst recs.
    replace (l1 ++ p1 :: l2 ++ p2 :: l3) with ((l1 ++ p1 :: l2) ++ p2 :: l3) in Ha by (rewrite <- app_assoc; reflexivity).
    destruct (accepted_split _ _ _ _ Ha) as (s1 & s2 & H1 & M & _ & _). apply mstep_astep in M.
    assert (No : none_of (frees k) l2).
    { unfold none_of in *. rewrite Forall_forall in *. intros y Hy. unfold frees. rewrite (Ex y Hy), (Ec y Hy). reflexivity. }
    pose proof (inv_slot_taken _ _ H1 k l1 p1 l2 eq_refl P1 Kn No) as Tk.
    assert (K2 : rkind p2 = 1). { unfold push_on in P2. apply andb_true_iff in P2. destruct P2 as [P2 _]. apply andb_true_iff in P2. destruct P2 as [P2 _]. apply Z.eqb_eq. exact P2. }
    pose proof (proj1 (rkey_push_on k p2 K2) P2) as Ek. subst k.
    eapply push_not_on_taken; eauto. rewrite (inv_known _ _ H1). apply known_app. exact Kn.
Qed.

Theorem accepted_pop_matches_push recs s : accepted recs s ->
  forall k l1 x l2, recs = l1 ++ x :: l2 -> pop_on k x = true -> known l1 (fst k) = true ->
  exists la p lb, l1 = la ++ p :: lb /\ push_on k p = true /\ known la (fst k) = true /\ rreq p = rreq x /\ none_of (touches k) lb.
Proof.
  intros Ha k l1 x l2 E Px Kn. subst recs. destruct (accepted_split _ _ _ _ Ha) as (s1 & s2 & H1 & M & _ & _). apply mstep_astep in M.
  assert (K2 : rkind x = 2). { unfold pop_on in Px. apply andb_true_iff in Px. destruct Px as [Px _]. apply andb_true_iff in Px. destruct Px as [Px _]. apply Z.eqb_eq. exact Px. }
  pose proof (proj1 (rkey_pop_on k x K2) Px) as Ek. subst k. cbn [rkey fst] in Kn. rewrite <- (inv_known _ _ H1) in Kn.
  destruct (step_regs _ _ _ M) as [hk K T P E1 E'|rk0 K P E1 E'|K T E1 E'|rk0 K P E1 E'|E1 E' S1 S2 S3 S4]; try lia.
  - apply plookup_In in P. destruct (inv_slot_origin _ _ H1 _ _ _ P) as (la & p & lb & El & Pp & Kl & Rp & _ & No).
    exists la, p, lb. auto.
  - destruct (S2 K2) as [S2a _]. rewrite S2a in Kn. discriminate.
Qed.

(** ** G: plan and current host of a request *)
Lemma last_text_snoc p l x : last_text p (l ++ [x]) = if p x then rtext x else last_text p l.
Proof.
  unfold last_text. rewrite filter_snoc, map_app. destruct (p x); cbn [map]; [apply last_snoc|rewrite app_nil_r; reflexivity].
Qed.

Lemma hosts_taken_snoc r l x : hosts_taken r (l ++ [x]) = hosts_taken r l ++ (if hostrec_of r x then [rtext x] else []).
Proof. unfold hosts_taken. rewrite filter_snoc, map_app. destruct (hostrec_of r x); reflexivity. Qed.

Definition fresh_req (x : val) : mreq :=
  {| m_client := robj x; m_cstream := ra x; m_plan := fields (rtext x); m_host := []; m_done := false; m_regs := 0; m_resend_ok := true |}.

Inductive reqs_change (s : mstate) (x : val) (s' : mstate) : Prop :=
| QC_same : ms_reqs s' = ms_reqs s -> rkind x <> 5 -> (rkind x = 6 -> zlookup (rreq x) (ms_reqs s) = None) -> reqs_change s x s'
| QC_start : rkind x = 5 -> zlookup (rreq x) (ms_reqs s) = None -> ms_reqs s' = zupdate (rreq x) (fresh_req x) (ms_reqs s) -> reqs_change s x s'
| QC_upd q q1 : zlookup (rreq x) (ms_reqs s) = Some q -> ms_reqs s' = zupdate (rreq x) q1 (ms_reqs s) -> rkind x <> 5 ->
    ((rkind x = 6 /\ m_plan q = [] /\ rtext x = [] /\ m_plan q1 = [] /\ m_host q1 = []) \/
     (rkind x = 6 /\ m_plan q = rtext x :: m_plan q1 /\ m_host q1 = rtext x) \/
     (rkind x <> 6 /\ m_plan q1 = m_plan q /\ m_host q1 = m_host q)) -> reqs_change s x s'.

Lemma dec_regs_change s0 s x : ms_reqs s0 = ms_reqs s -> rkind x <> 5 -> rkind x <> 6 ->
  reqs_change s x (if rreq x =? 0 then s0 else dec_regs s0 (rreq x)).
Proof.
  intros E K5 K6. destruct (rreq x =? 0); [apply QC_same; [exact E|exact K5|intro; lia]|].
  unfold dec_regs. rewrite E. destruct (zlookup (rreq x) (ms_reqs s)) as [q|] eqn:Q.
  - eapply QC_upd; [exact Q|cbn [ms_reqs]; reflexivity|exact K5|]. right. right. auto.
  - apply QC_same; [exact E|exact K5|intro; lia].
Qed.

Lemma step_reqs s x s' : astep s x s' -> reqs_change s x s'.
Proof.
  intro H. inversion H; subst; cbv zeta.
  - apply QC_same; [reflexivity|lia|intro; lia].
  - apply QC_same; [reflexivity|lia|intro; lia].
  - apply QC_same; [reflexivity|lia|intro; lia].
  - eapply QC_upd; [eassumption|reflexivity|lia|]. right. right. repeat split; [lia].
  - apply QC_same; [reflexivity|lia|intro; lia].
  - apply dec_regs_change; [reflexivity|lia|lia].
  - apply QC_same; [reflexivity|lia|intro; lia].
  - apply QC_same; [reflexivity|lia|intro; lia].
  - apply QC_same; [reflexivity|lia|intro; lia].
  - apply dec_regs_change; [reflexivity|lia|lia].
  - apply QC_start; [assumption|assumption|reflexivity].
  - apply QC_same; [reflexivity|lia|intro; assumption].
  - eapply QC_upd; [eassumption|reflexivity|lia|]. left. auto.
  - eapply QC_upd; [eassumption|reflexivity|lia|]. right. left. cbn [m_plan m_host mq]. subst. auto.
  - eapply QC_upd; [eassumption|reflexivity|lia|]. right. right. repeat split; [lia].
  - eapply QC_upd; [eassumption|reflexivity|lia|]. right. right. repeat split; [lia].
  - apply QC_same; [reflexivity|lia|intro; lia].
Qed.

Definition plan_inv (recs : list val) (r : Z) (q : mreq) : Prop :=
  exists taken n, hosts_taken r (life r recs) = taken ++ repeat [] n /\ plan_of r recs = taken ++ m_plan q /\
                  (n <> 0%nat -> m_plan q = []) /\ m_host q = last (hosts_taken r (life r recs)) [].

Lemma plan_of_snoc r l x : plan_of r (l ++ [x]) = if start_of r x then fields (rtext x) else plan_of r l.
Proof. unfold plan_of. rewrite last_text_snoc. destruct (start_of r x); reflexivity. Qed.

Lemma plan_inv_skip recs r q q' x : plan_inv recs r q -> started recs r = true -> start_of r x = false -> hostrec_of r x = false ->
  m_plan q' = m_plan q -> m_host q' = m_host q -> plan_inv (recs ++ [x]) r q'.
Proof.
  intros (taken & n & H1 & H2 & H3 & H4) St S Hr Ep Eh. exists taken, n.
  rewrite life_snoc, St, hosts_taken_snoc, Hr, app_nil_r, plan_of_snoc, S, Ep, Eh. auto.
Qed.

Lemma inv_plan recs s : accepted recs s -> forall r q, zlookup r (ms_reqs s) = Some q -> plan_inv recs r q.
Proof.
  revert recs s. apply (accepted_ind (fun recs s => forall r q, zlookup r (ms_reqs s) = Some q -> plan_inv recs r q)); [intros r q H; discriminate|].
  intros recs s x s' Ha IH M r q' L. pose proof (inv_started _ _ Ha r) as St. unfold started_s in St. apply mstep_astep in M.
  destruct (step_reqs _ _ _ M) as [E K5 K6|K5 N E|q q1 Q E K5 Cases]; rewrite E in L.
  - rewrite L in St. apply (plan_inv_skip _ _ q'); auto; kp.
    + destruct (rkind x =? 5) eqn:K; [apply Z.eqb_eq in K; contradiction|reflexivity].
    + destruct (rkind x =? 6) eqn:K; [|reflexivity]. apply Z.eqb_eq in K. cbn [andb]. apply Z.eqb_neq. intro Er. rewrite Er, L in K6. specialize (K6 K). discriminate.
  - rewrite zlookup_zupdate in L. destruct (r =? rreq x) eqn:Er.
    + apply Z.eqb_eq in Er. subst r. injection L as L. subst q'. rewrite N in St. exists [], 0%nat.
      rewrite life_snoc, <- St, plan_of_snoc. unfold start_of. rewrite K5, !Z.eqb_refl. cbn. repeat split; try reflexivity. intro X; contradiction.
    + rewrite L in St. apply (plan_inv_skip _ _ q'); auto; kp; rewrite ?(Z.eqb_sym (rreq x) r), ?Er, ?andb_false_r; reflexivity.
  - rewrite zlookup_zupdate in L. destruct (r =? rreq x) eqn:Er.
    + apply Z.eqb_eq in Er. subst r. injection L as L. subst q'. rewrite Q in St. destruct (IH _ _ Q) as (taken & n & H1 & H2 & H3 & H4).
      assert (S5 : start_of (rreq x) x = false) by (kp; destruct (rkind x =? 5) eqn:K; [apply Z.eqb_eq in K; contradiction|reflexivity]).
      destruct Cases as [(K6 & P0 & T0 & P1 & Hh)|[(K6 & P0 & Hh)|(K6 & P1 & Hh)]].
      * exists taken, (S n). rewrite life_snoc, <- St, hosts_taken_snoc, plan_of_snoc, S5. unfold hostrec_of. rewrite K6, !Z.eqb_refl. cbn [andb].
        rewrite T0, H1. repeat split.
        -- rewrite <- app_assoc, repeat_snoc. reflexivity.
        -- rewrite H2, P0, P1. reflexivity.
        -- intros _. exact P1.
        -- rewrite Hh, last_snoc. reflexivity.
      * assert (n = 0%nat). { destruct n; [reflexivity|]. rewrite H3 in P0 by discriminate. discriminate. } subst n.
        exists (taken ++ [rtext x]), 0%nat. rewrite life_snoc, <- St, hosts_taken_snoc, plan_of_snoc, S5. unfold hostrec_of. rewrite K6, !Z.eqb_refl. cbn [andb].
        rewrite H1. cbn [repeat]. rewrite !app_nil_r. repeat split.
        -- rewrite H2, P0, <- app_assoc. reflexivity.
        -- intro X; contradiction.
        -- rewrite Hh, last_snoc. reflexivity.
      * apply (plan_inv_skip _ _ q); auto. kp. destruct (rkind x =? 6) eqn:K; [apply Z.eqb_eq in K; contradiction|reflexivity].
    + rewrite L in St. apply (plan_inv_skip _ _ q'); auto; kp; rewrite ?(Z.eqb_sym (rreq x) r), ?Er, ?andb_false_r; reflexivity.
Qed.

(** T2: the host key the monitor holds for a table is the text of its latest table record *)
Lemma inv_table_host recs s : accepted recs s -> forall t hk b, zlookup t (ms_tables s) = Some (hk, b) -> hk = last_text (tbl_rec t) recs.
Proof.
  revert recs s. apply (accepted_ind (fun recs s => forall t hk b, zlookup t (ms_tables s) = Some (hk, b) -> hk = last_text (tbl_rec t) recs)); [intros t hk b H; discriminate|].
  intros recs s x s' Ha IH M t hk b L. apply mstep_astep in M. rewrite last_text_snoc.
  destruct (step_tables _ _ _ M) as [(K & E)|[(K & hk0 & b0 & L0 & E)|(K & _ & E)]]; rewrite E in L; kp.
  - rewrite zlookup_zupdate in L. rewrite (Z.eqb_sym (rtable x) t). destruct (t =? rtable x); [injection L as L _; auto|eapply IH; exact L].
  - rewrite zlookup_zupdate in L. destruct (t =? rtable x) eqn:Et; [|eapply IH; exact L]. apply Z.eqb_eq in Et. subst t.
    injection L as L _. subst hk0. eapply IH. exact L0.
  - destruct (rkind x =? 0) eqn:K0; [apply Z.eqb_eq in K0; contradiction|]. eapply IH. exact L.
Qed.

Lemma filter_none p (l : list val) : none_of p l -> filter p l = [].
Proof.
  induction l as [|a l IH]; [reflexivity|]. intro H. inversion H as [|? ? Ha Hl]; subst. cbn [filter]. rewrite Ha. apply IH. exact Hl.
Qed.

(** ** M6 (C05): hosts are taken in plan order *)
Theorem accepted_hosts_in_plan_order recs s : accepted recs s ->
  forall r l0 st l1, recs = l0 ++ st :: l1 -> start_of r st = true ->
  exists taken n, hosts_taken r l1 = taken ++ repeat [] n /\ prefix_of taken (fields (rtext st)) /\
                  (n <> 0%nat -> taken = fields (rtext st)).
Proof.
  intros Ha r l0 st l1 E S. destruct (unique_start _ _ _ _ _ _ Ha E S) as (N0 & N1 & L & St).
  rewrite <- (inv_started _ _ Ha) in St. unfold started_s in St. destruct (zlookup r (ms_reqs s)) as [q|] eqn:Q; [|discriminate].
  destruct (inv_plan _ _ Ha _ _ Q) as (taken & n & H1 & H2 & H3 & _). rewrite L in H1.
  assert (P : plan_of r recs = fields (rtext st)).
  { unfold plan_of, last_text. rewrite E, filter_app. cbn [filter]. rewrite S, (filter_none _ _ N0), (filter_none _ _ N1). reflexivity. }
  rewrite P in H2. exists taken, n. split; [exact H1|]. split; [exists (m_plan q); exact H2|].
  intro Nn. rewrite (H3 Nn), app_nil_r in H2. auto.
Qed.

Lemma filter_nonempty_repeat n : filter nonempty (repeat ([] : bytes) n) = [].
Proof. induction n as [|n IH]; [reflexivity|exact IH]. Qed.

Lemma filter_nonempty_all l : Forall (fun k : bytes => k <> []) l -> filter nonempty l = l.
Proof.
  induction l as [|a l IH]; [reflexivity|]. intro H. inversion H as [|? ? Ha Hl]; subst. cbn [filter].
  destruct a; [contradiction|]. cbn [nonempty]. rewrite (IH Hl). reflexivity.
Qed.

(** the brief's formulation, valid when no host key of the plan is empty *)
Corollary accepted_nonempty_hosts_prefix_of_plan recs s : accepted recs s ->
  forall r l0 st l1, recs = l0 ++ st :: l1 -> start_of r st = true -> Forall (fun k : bytes => k <> []) (fields (rtext st)) ->
  prefix_of (filter nonempty (hosts_taken r l1)) (fields (rtext st)) /\
  ((exists h, In h l1 /\ hostrec_of r h = true /\ rtext h = []) -> filter nonempty (hosts_taken r l1) = fields (rtext st)).
Proof.
  intros Ha r l0 st l1 E S NE. destruct (accepted_hosts_in_plan_order _ _ Ha r l0 st l1 E S) as (taken & n & H1 & (rest & H2) & H3).
  assert (NT : Forall (fun k : bytes => k <> []) taken). { rewrite H2 in NE. apply Forall_app in NE. tauto. }
  rewrite H1, filter_app, filter_nonempty_repeat, app_nil_r. pose proof (filter_nonempty_all _ NT) as XX.
  unfold bytes in XX |- *. rewrite XX. split; [exists rest; exact H2|].
  intros (h & Hin & Hh & Ht). apply H3. destruct n; [|discriminate]. exfalso.
  assert (Hi : In [] (hosts_taken r l1)).
  { unfold hosts_taken. apply in_map_iff. exists h. split; [exact Ht|]. apply filter_In. auto. }
  rewrite H1 in Hi. cbn [repeat] in Hi. rewrite app_nil_r in Hi. rewrite Forall_forall in NT. apply (NT [] Hi). reflexivity.
Qed.

Theorem accepted_push_on_current_host recs s : accepted recs s ->
  forall r l1 p l2, recs = l1 ++ p :: l2 -> push_of r p = true -> r <> 0 -> known l1 (rtable p) = true -> started l1 r = true ->
  last_text (tbl_rec (rtable p)) l1 = last (hosts_taken r (life r l1)) [].
Proof.
  intros Ha r l1 p l2 E P N Kn St. subst recs. destruct (accepted_split _ _ _ _ Ha) as (s1 & s2 & H1 & M & _ & _). apply mstep_astep in M.
  rewrite <- (inv_known _ _ H1) in Kn. rewrite <- (inv_started _ _ H1) in St.
  destruct (push_step_facts _ _ _ _ M P N Kn St) as (_ & _ & _ & hk & q & T & Q & Eh).
  rewrite <- (inv_table_host _ _ H1 _ _ _ T). destruct (inv_plan _ _ H1 _ _ Q) as (_ & _ & _ & _ & _ & Hh). rewrite <- Hh. exact Eh.
Qed.

(** ** M7 (C05/C04): decisions *)
Theorem accepted_decisions_follow_policy recs s : accepted recs s ->
  forall l1 d l2, recs = l1 ++ d :: l2 -> rkind d = 7 -> started l1 (rreq d) = true ->
  ra d = Z.of_N (handle_error (rc d =? 2) (err_of_fields (rtext d)) (rb d)) /\
  (rc d <> 2 -> ra d <> Z.of_N dec_ReturnError -> safe_to_resend (OError (err_of_fields (rtext d))) = true).
Proof.
  intros Ha l1 d l2 E K St. subst recs. destruct (accepted_split _ _ _ _ Ha) as (s1 & s2 & H1 & M & _ & _). apply mstep_astep in M.
  rewrite <- (inv_started _ _ H1) in St. unfold started_s in St.
  inversion M; subst; try lia.
  - revert St. use_lookups. discriminate.
  - split; [assumption|]. intros C. apply Z.eqb_neq in C. auto.
Qed.

(** ** M9: sanity of the runner *)
Theorem mstep_total s x : (exists s', mstep s x = Accept s') \/ (exists why, mstep s x = Reject why).
Proof. destruct (mstep s x); eauto. Qed.

Lemma mrun_reject recs : forall s i j why sf, mrun s recs i = (Some (j, why), sf) ->
  exists l1 x l2, recs = l1 ++ x :: l2 /\ j = (i + length l1)%nat /\ arun s l1 = Some sf /\ mstep sf x = Reject why.
Proof.
  induction recs as [|y recs IH]; intros s i j why sf H; cbn [mrun] in H; [discriminate|].
  destruct (mstep s y) as [s1|w] eqn:M.
  - destruct (IH _ _ _ _ _ H) as (l1 & x & l2 & E & J & A & R). exists (y :: l1), x, l2. subst recs. cbn [app length arun]. rewrite M.
    repeat split; try assumption. lia.
  - injection H as H1 H2 H3. subst. exists [], y, recs. cbn. repeat split; auto; lia.
Qed.

Theorem rejecting_is_monotone recs i why s : mrun init_mstate recs 0 = (Some (i, why), s) ->
  (i < length recs)%nat /\ accepted (firstn i recs) s /\ exists x, nth_error recs i = Some x /\ mstep s x = Reject why.
Proof.
  intro H. destruct (mrun_reject _ _ _ _ _ _ H) as (l1 & x & l2 & E & J & A & R). cbn in J. subst i recs.
  split; [rewrite app_length; cbn; lia|]. split.
  - rewrite firstn_app, firstn_all, Nat.sub_diag. cbn [firstn]. rewrite app_nil_r. apply accepted_arun. exact A.
  - exists x. split; [|exact R]. rewrite nth_error_app2, Nat.sub_diag; [reflexivity|lia].
Qed.

Theorem rejected_prefix_stays_rejected l1 l2 e s : mrun init_mstate l1 0 = (Some e, s) -> mrun init_mstate (l1 ++ l2) 0 = (Some e, s).
Proof.
  generalize init_mstate as s0. generalize 0%nat as i. induction l1 as [|x l1 IH]; intros i s0 H; cbn [mrun app] in *; [discriminate|].
  destruct (mstep s0 x); [apply IH; exact H|exact H].
Qed.

Theorem accepted_prefixes_accepted l1 l2 s : accepted (l1 ++ l2) s -> exists s1, accepted l1 s1.
Proof. intro H. destruct (accepted_prefix _ _ _ H) as (s1 & H1 & _). eauto. Qed.

(** ** M5 (C01): close notifications *)
Definition pending_origin (recs : list val) (k : Z * Z) (r rk : Z) : Prop :=
  exists l1 p l2 c l3, recs = l1 ++ p :: l2 ++ c :: l3 /\ push_on k p = true /\ known l1 (fst k) = true /\ rreq p = r /\ rrk p = rk /\
                       none_of (touches k) l2 /\ closing_of (fst k) c = true.

Lemma pending_origin_snoc recs k r rk x : pending_origin recs k r rk -> pending_origin (recs ++ [x]) k r rk.
Proof.
  intros (l1 & p & l2 & c & l3 & E & H). exists l1, p, l2, c, (l3 ++ [x]). split; [|exact H].
  subst recs. rewrite <- !app_assoc. cbn [app]. rewrite <- app_assoc. reflexivity.
Qed.

Lemma inv_pending_origin recs s : accepted recs s -> forall k r rk, In (k, (r, rk)) (ms_tonotify s) -> pending_origin recs k r rk.
Proof.
  revert recs s. apply (accepted_ind (fun recs s => forall k r rk, In (k, (r, rk)) (ms_tonotify s) -> pending_origin recs k r rk)); [intros k r rk []|].
  intros recs s x s' Ha IH M k r rk Hin. pose proof (inv_slot_origin _ _ Ha) as SO. apply mstep_astep in M.
  destruct (step_regs _ _ _ M) as [hk K T P E E'|rk0 K P E E'|K T E E'|rk0 K P E E'|E E' S1 S2 S3 S4]; rewrite E' in Hin.
  - apply pending_origin_snoc. apply IH. exact Hin.
  - apply pending_origin_snoc. apply IH. exact Hin.
  - apply in_app_iff in Hin. destruct Hin as [Hin|Hin]; [|apply pending_origin_snoc; apply IH; exact Hin].
    apply filter_In in Hin. destruct Hin as [Hin F]. unfold on_table in F. cbn [fst] in F. apply Z.eqb_eq in F.
    destruct (SO _ _ _ Hin) as (l1 & p & l2 & E0 & Pp & Kn & R & Rk & No). exists l1, p, l2, x, [].
    subst recs. rewrite <- app_assoc. cbn [app]. repeat split; try assumption. unfold closing_of. rewrite K, F, !Z.eqb_refl. reflexivity.
  - apply pending_origin_snoc. apply IH. eapply In_premove. exact Hin.
  - apply pending_origin_snoc. apply IH. exact Hin.
Qed.

Theorem accepted_notifications recs s : accepted recs s ->
  forall k l1 x l2, recs = l1 ++ x :: l2 -> notify_on k x = true -> known l1 (fst k) = true ->
  exists la p lb c lc, l1 = la ++ p :: lb ++ c :: lc /\ push_on k p = true /\ known la (fst k) = true /\ rreq p = rreq x /\
                       none_of (touches k) lb /\ closing_of (fst k) c = true.
Proof.
  intros Ha k l1 x l2 E Nx Kn. subst recs. destruct (accepted_split _ _ _ _ Ha) as (s1 & s2 & H1 & M & _ & _). apply mstep_astep in M.
  assert (K3 : rkind x = 3). { unfold notify_on in Nx. apply andb_true_iff in Nx. destruct Nx as [Nx _]. apply andb_true_iff in Nx. destruct Nx as [Nx _]. apply Z.eqb_eq. exact Nx. }
  pose proof (proj1 (rkey_notify_on k x K3) Nx) as Ek. subst k. cbn [rkey fst] in Kn. rewrite <- (inv_known _ _ H1) in Kn.
  destruct (step_regs _ _ _ M) as [hk K T P E1 E'|rk0 K P E1 E'|K T E1 E'|rk0 K P E1 E'|E1 E' S1 S2 S3 S4]; try lia.
  - apply plookup_In in P. destruct (inv_pending_origin _ _ H1 _ _ _ P) as (la & p & lb & c & lc & El & Pp & Kl & Rp & _ & No & Cc).
    exists la, p, lb, c, lc. repeat split; assumption.
  - destruct (S3 K3) as [S3a _]. rewrite S3a in Kn. discriminate.
Qed.

(** at most once: notifications of a slot are bounded by the closings that found it occupied *)
Lemma occupied_from_snoc k l : forall pre cur x,
  occupied_from pre k cur (l ++ [x]) =
  if known (pre ++ l) (fst k) then (if push_on k x then true else if frees k x then false else occupied_from pre k cur l)
  else occupied_from pre k cur l.
Proof.
  induction l as [|a l IH]; intros pre cur x; cbn [app occupied_from].
  - rewrite app_nil_r. reflexivity.
  - rewrite IH, <- app_assoc. reflexivity.
Qed.

Lemma occupied_snoc k l x :
  occupied k (l ++ [x]) = if known l (fst k) then (if push_on k x then true else if frees k x then false else occupied k l) else occupied k l.
Proof. unfold occupied. rewrite occupied_from_snoc. reflexivity. Qed.

Lemma captures_from_snoc k l : forall pre x,
  captures_from pre k (l ++ [x]) = (captures_from pre k l + if closing_of (fst k) x && occupied k (pre ++ l) then 1 else 0)%nat.
Proof.
  induction l as [|a l IH]; intros pre x; cbn [app captures_from].
  - rewrite app_nil_r. lia.
  - rewrite IH, <- app_assoc. cbn [app]. lia.
Qed.

Lemma captures_snoc k l x : captures k (l ++ [x]) = (captures k l + if closing_of (fst k) x && occupied k l then 1 else 0)%nat.
Proof. unfold captures. rewrite captures_from_snoc. reflexivity. Qed.

Definition count_key (k : Z * Z) (l : list ((Z * Z) * (Z * Z))) : nat := length (filter (fun e => pair_eqb (fst e) k) l).

Lemma count_key_cons k e l : count_key k (e :: l) = ((if pair_eqb (fst e) k then 1 else 0) + count_key k l)%nat.
Proof. unfold count_key. cbn [filter]. destruct (pair_eqb (fst e) k); reflexivity. Qed.

Lemma count_key_app k a b : count_key k (a ++ b) = (count_key k a + count_key k b)%nat.
Proof. unfold count_key. rewrite filter_app, app_length. reflexivity. Qed.

Lemma pair_eqb_sym a b : pair_eqb a b = pair_eqb b a.
Proof. unfold pair_eqb. rewrite (Z.eqb_sym (fst a)), (Z.eqb_sym (snd a)). reflexivity. Qed.

Lemma count_key_notin k l : ~ In k (map fst l) -> count_key k l = 0%nat.
Proof.
  induction l as [|e l IH]; [reflexivity|]. cbn [map In]. intro H. rewrite count_key_cons, IH by tauto.
  destruct (pair_eqb (fst e) k) eqn:E; [apply pair_eqb_eq in E; exfalso; apply H; left; exact E|reflexivity].
Qed.

Lemma count_key_nodup k l : NoDup (map fst l) -> count_key k l = if isSome (plookup k l) then 1%nat else 0%nat.
Proof.
  induction l as [|[k0 v0] l IH]; [reflexivity|]. cbn [map fst]. intro ND. inversion ND as [|? ? Hn ND']; subst.
  rewrite count_key_cons. cbn [plookup fst]. rewrite (pair_eqb_sym k0 k). destruct (pair_eqb k k0) eqn:E.
  - apply pair_eqb_eq in E. subst k0. rewrite (count_key_notin _ _ Hn). reflexivity.
  - rewrite (IH ND'). reflexivity.
Qed.

Lemma count_key_filter_table k t l : count_key k (filter (on_table t) l) = if fst k =? t then count_key k l else 0%nat.
Proof.
  induction l as [|e l IH]; cbn [filter]; [destruct (fst k =? t); reflexivity|].
  unfold on_table at 1. destruct (fst (fst e) =? t) eqn:F; rewrite ?count_key_cons, IH.
  - destruct (pair_eqb (fst e) k) eqn:E; [apply pair_eqb_eq in E; rewrite <- E, F; reflexivity|destruct (fst k =? t); reflexivity].
  - destruct (pair_eqb (fst e) k) eqn:E; [apply pair_eqb_eq in E; rewrite <- E, F; reflexivity|destruct (fst k =? t); reflexivity].
Qed.

Lemma count_key_premove k k' v l : plookup k' l = Some v ->
  count_key k l = (count_key k (premove k' l) + if pair_eqb k k' then 1 else 0)%nat.
Proof.
  induction l as [|[k0 v0] l IH]; cbn [plookup premove]; [discriminate|].
  destruct (pair_eqb k' k0) eqn:E.
  - apply pair_eqb_eq in E. subst k0. intros _. rewrite count_key_cons. cbn [fst]. rewrite (pair_eqb_sym k' k). lia.
  - intro H. rewrite !count_key_cons, (IH H). lia.
Qed.

Lemma inv_occupied recs s : accepted recs s -> forall k, isSome (plookup k (ms_regs s)) = occupied k recs.
Proof.
  revert recs s. apply (accepted_ind (fun recs s => forall k, isSome (plookup k (ms_regs s)) = occupied k recs)); [reflexivity|].
  intros recs s x s' Ha IH M k. pose proof (inv_regs_nodup _ _ Ha) as ND. pose proof (inv_entries_known _ _ Ha) as EK.
  pose proof (inv_known _ _ Ha) as Kn. apply mstep_astep in M. rewrite occupied_snoc, <- IH, <- Kn.
  assert (UK : known_s s (fst k) = false -> plookup k (ms_regs s) = None).
  { intro U. destruct (plookup k (ms_regs s)) as [v|] eqn:P; [|reflexivity]. apply plookup_In in P.
    rewrite (EK k v) in U by (apply in_app_iff; left; exact P). discriminate. }
  destruct (step_regs _ _ _ M) as [hk K T P E E'|rk0 K P E E'|K T E E'|rk0 K P E E'|E E' S1 S2 S3 S4]; rewrite E.
  - cbn [plookup]. destruct (pair_eqb k (rkey x)) eqn:Ek.
    + apply pair_eqb_eq in Ek. subst k. cbn [rkey fst]. unfold known_s. rewrite T.
      assert (Hp : push_on (rkey x) x = true) by (apply rkey_push_on; auto). rewrite Hp. reflexivity.
    + assert (Hp : push_on k x = false). { apply not_true_false. intro Hp. apply (rkey_push_on k x K) in Hp. subst k. rewrite pair_eqb_refl in Ek. discriminate. }
      rewrite Hp. kp. destruct (known_s s (fst k)); reflexivity.
  - assert (KT : known_s s (rtable x) = true) by (apply (EK (rkey x) (rreq x, rk0)); apply in_app_iff; left; apply plookup_In; exact P).
    destruct (pair_eqb k (rkey x)) eqn:Ek.
    + apply pair_eqb_eq in Ek. subst k. cbn [rkey fst]. rewrite KT. assert (Hp : pop_on (rkey x) x = true) by (apply rkey_pop_on; auto).
      unfold frees. rewrite Hp. assert (Hq : push_on (rkey x) x = false) by (unfold push_on; rewrite K; reflexivity). rewrite Hq. cbn [orb].
      assert (X : plookup (rkey x) (premove (rkey x) (ms_regs s)) = None) by (apply plookup_none_keys; apply premove_nodup_notin; exact ND).
      rewrite X. reflexivity.
    + apply pair_eqb_neq in Ek. rewrite plookup_premove_other by exact Ek.
      assert (Hp : pop_on k x = false). { apply not_true_false. intro Hp. apply (rkey_pop_on k x K) in Hp. subst k. apply Ek. reflexivity. }
      unfold frees. rewrite Hp. kp. destruct (known_s s (fst k)); reflexivity.
  - unfold on_table. rewrite (plookup_filter (fun z => negb (z =? rtable x)) k (ms_regs s)). kp.
    rewrite (Z.eqb_sym (rtable x) (fst k)). destruct (fst k =? rtable x) eqn:Et; cbn [negb].
    + apply Z.eqb_eq in Et. rewrite Et, T. reflexivity.
    + destruct (known_s s (fst k)); reflexivity.
  - kp. destruct (known_s s (fst k)); reflexivity.
  - destruct (known_s s (fst k)) eqn:KT; [|reflexivity].
    assert (X : forall (Q : Prop), (Q -> known_s s (rtable x) = false) -> Q -> (rtable x =? fst k) = false).
    { intros Q HQ q. apply Z.eqb_neq. intro Eq. rewrite Eq in HQ. rewrite (HQ q) in KT. discriminate. }
    preds. destruct (rkind x =? 1) eqn:K1; [apply Z.eqb_eq in K1; rewrite ?(X _ S1 K1)|]; cbn [andb orb];
    (destruct (rkind x =? 2) eqn:K2; [apply Z.eqb_eq in K2; rewrite ?(X _ (fun q => proj1 (S2 q)) K2)|]); cbn [andb orb];
    (destruct (rkind x =? 4) eqn:K4; [apply Z.eqb_eq in K4; rewrite ?(X _ S4 K4)|]); reflexivity.
Qed.

Lemma inv_captures recs s : accepted recs s -> forall k, (kcount (notify_on k) recs + count_key k (ms_tonotify s))%nat = captures k recs.
Proof.
  revert recs s. apply (accepted_ind (fun recs s => forall k, (kcount (notify_on k) recs + count_key k (ms_tonotify s))%nat = captures k recs)); [reflexivity|].
  intros recs s x s' Ha IH M k. pose proof (inv_regs_nodup _ _ Ha) as ND. pose proof (inv_entries_known _ _ Ha) as EK.
  pose proof (inv_known _ _ Ha) as Kn. pose proof (inv_occupied _ _ Ha k) as Oc. apply mstep_astep in M.
  rewrite kcount_snoc, captures_snoc, <- IH, <- Kn, <- Oc.
  destruct (step_regs _ _ _ M) as [hk K T P E E'|rk0 K P E E'|K T E E'|rk0 K P E E'|E E' S1 S2 S3 S4]; rewrite E'.
  - kp. lia.
  - kp. lia.
  - rewrite count_key_app, count_key_filter_table, (count_key_nodup _ _ ND). kp. rewrite (Z.eqb_sym (rtable x) (fst k)).
    destruct (fst k =? rtable x); cbn [andb]; lia.
  - assert (KT : known_s s (rtable x) = true) by (apply (EK (rkey x) (rreq x, rk0)); apply in_app_iff; right; apply plookup_In; exact P).
    rewrite KT, andb_true_r. rewrite (count_key_premove k _ _ _ P).
    assert (Hc : closing_of (fst k) x = false) by (unfold closing_of; rewrite K; reflexivity). rewrite Hc. cbn [andb].
    destruct (pair_eqb k (rkey x)) eqn:Ek.
    + apply pair_eqb_eq in Ek. assert (Hn : notify_on k x = true) by (apply rkey_notify_on; auto). rewrite Hn. lia.
    + assert (Hn : notify_on k x = false). { apply not_true_false. intro Hn. apply (rkey_notify_on k x K) in Hn. subst k. rewrite pair_eqb_refl in Ek. discriminate. }
      rewrite Hn. lia.
  - assert (UK : known_s s (fst k) = false -> plookup k (ms_regs s) = None).
    { intro U. destruct (plookup k (ms_regs s)) as [v|] eqn:P; [|reflexivity]. apply plookup_In in P.
      rewrite (EK k v) in U by (apply in_app_iff; left; exact P). discriminate. }
    preds. destruct (rkind x =? 3) eqn:K3; [apply Z.eqb_eq in K3; destruct (S3 K3) as [S3a _]; rewrite S3a, andb_false_r|]; cbn [andb];
    (destruct (rkind x =? 4) eqn:K4; [apply Z.eqb_eq in K4|cbn [andb]; lia]).
    all: destruct (rtable x =? fst k) eqn:Et; cbn [andb]; try lia.
    all: apply Z.eqb_eq in Et; rewrite <- Et in UK; rewrite (UK (S4 K4)); cbn [isSome]; lia.
Qed.

Theorem accepted_notified_at_most_once recs s : accepted recs s -> forall k, (kcount (notify_on k) recs <= captures k recs)%nat.
Proof. intros Ha k. rewrite <- (inv_captures _ _ Ha k). lia. Qed.

(** a closed table holds no live registrations *)
Lemma inv_closed_empty recs s : accepted recs s ->
  forall t hk k v, zlookup t (ms_tables s) = Some (hk, true) -> In (k, v) (ms_regs s) -> fst k <> t.
Proof.
  revert recs s. apply (accepted_ind (fun recs s => forall t hk k v, zlookup t (ms_tables s) = Some (hk, true) -> In (k, v) (ms_regs s) -> fst k <> t)); [intros t hk k v H; discriminate|].
  intros recs s x s' Ha IH M t hk k v L Hin. apply mstep_astep in M.
  destruct (step_regs _ _ _ M) as [hk0 K T P E E'|rk0 K P E E'|K T E E'|rk0 K P E E'|E E' S1 S2 S3 S4]; rewrite E in Hin.
  - destruct (step_tables _ _ _ M) as [(K0 & E1)|[(K4 & _)|(_ & _ & E1)]]; try lia. rewrite E1 in L.
    destruct Hin as [Hin|Hin]; [|eapply IH; eauto]. inversion Hin; subst. cbn [rkey fst]. intro Et. rewrite Et, L in T. discriminate.
  - destruct (step_tables _ _ _ M) as [(K0 & E1)|[(K4 & _)|(_ & _ & E1)]]; try lia. rewrite E1 in L. eapply IH; eauto. eapply In_premove; eauto.
  - apply filter_In in Hin. destruct Hin as [Hin F]. unfold on_table in F. cbn [fst] in F. apply negb_true_iff, Z.eqb_neq in F.
    destruct (step_tables _ _ _ M) as [(K0 & E1)|[(K4 & hk1 & b1 & L1 & E1)|(_ & K4 & E1)]]; try lia.
    + rewrite E1, zlookup_zupdate in L. destruct (t =? rtable x) eqn:Et; [apply Z.eqb_eq in Et; subst t; exact F|eapply IH; eauto].
    + unfold known_s in T. rewrite (K4 K) in T. discriminate.
  - destruct (step_tables _ _ _ M) as [(K0 & E1)|[(K4 & _)|(_ & _ & E1)]]; try lia. rewrite E1 in L. eapply IH; eauto.
  - destruct (step_tables _ _ _ M) as [(K0 & E1)|[(K4 & hk1 & b1 & L1 & E1)|(_ & K4 & E1)]].
    + rewrite E1, zlookup_zupdate in L. destruct (t =? rtable x); [discriminate|eapply IH; eauto].
    + specialize (S4 K4). unfold known_s in S4. rewrite L1 in S4. discriminate.
    + rewrite E1 in L. eapply IH; eauto.
Qed.

Lemma once_prefix recs x t : table_declared_once (recs ++ [x]) t -> table_declared_once recs t.
Proof. unfold table_declared_once. rewrite count_snoc. lia. Qed.

Lemma inv_captures_once recs s : accepted recs s -> forall k, table_declared_once recs (fst k) ->
  (captures k recs <= 1)%nat /\ ((1 <= captures k recs)%nat -> exists hk, zlookup (fst k) (ms_tables s) = Some (hk, true)).
Proof.
  revert recs s. apply (accepted_ind (fun recs s => forall k, table_declared_once recs (fst k) ->
    (captures k recs <= 1)%nat /\ ((1 <= captures k recs)%nat -> exists hk, zlookup (fst k) (ms_tables s) = Some (hk, true)))).
  { intros k _. cbn. split; [lia|intro; lia]. }
  intros recs s x s' Ha IH M k Once. destruct (IH k (once_prefix _ _ _ Once)) as [I1 I2]. clear IH.
  pose proof (inv_occupied _ _ Ha k) as Oc. pose proof (inv_closed_empty _ _ Ha) as CE. pose proof (inv_known _ _ Ha (fst k)) as Kn.
  pose proof (inv_entries_known _ _ Ha) as EK. apply mstep_astep in M. rewrite captures_snoc, <- Oc.
  destruct (closing_of (fst k) x && isSome (plookup k (ms_regs s))) eqn:Inc.
  - apply andb_true_iff in Inc. destruct Inc as [Cx Pk]. destruct (plookup k (ms_regs s)) as [v|] eqn:P; [|discriminate]. apply plookup_In in P.
    assert (C0 : captures k recs = 0%nat).
    { destruct (captures k recs) as [|c]; [reflexivity|]. destruct I2 as (hk & L); [lia|]. exfalso. apply (CE _ _ _ _ L P). reflexivity. }
    split; [lia|]. intros _. unfold closing_of in Cx. apply andb_true_iff in Cx. rewrite !Z.eqb_eq in Cx. destruct Cx as [K4 Tx].
    destruct (step_tables _ _ _ M) as [(K0 & E1)|[(_ & hk1 & b1 & L1 & E1)|(_ & K4' & E1)]]; try lia.
    + rewrite E1, Tx, zlookup_zupdate_same. eauto.
    + specialize (K4' K4). assert (X : known_s s (fst k) = true) by (apply (EK k v); apply in_app_iff; left; exact P).
      unfold known_s in X. rewrite <- Tx, K4' in X. discriminate.
  - split; [lia|]. intro C1. destruct I2 as (hk & L); [lia|].
    destruct (step_tables _ _ _ M) as [(K0 & E1)|[(_ & hk1 & b1 & L1 & E1)|(_ & _ & E1)]]; rewrite E1.
    + rewrite zlookup_zupdate. destruct (fst k =? rtable x) eqn:Et; [|eauto]. exfalso. apply Z.eqb_eq in Et.
      unfold table_declared_once in Once. rewrite count_snoc in Once. unfold tbl_rec at 2 in Once. rewrite K0, <- Et, !Z.eqb_refl in Once. cbn [andb] in Once.
      assert (C : (0 < count (tbl_rec (fst k)) recs)%nat).
      { apply count_pos_in. unfold known_s in Kn. rewrite L in Kn. symmetry in Kn. unfold known in Kn. apply existsb_exists in Kn. exact Kn. }
      lia.
    + rewrite zlookup_zupdate. destruct (fst k =? rtable x); eauto.
    + eauto.
Qed.

Corollary accepted_notified_once_per_slot recs s : accepted recs s -> forall k, table_declared_once recs (fst k) ->
  (kcount (notify_on k) recs <= 1)%nat.
Proof.
  intros Ha k Once. pose proof (accepted_notified_at_most_once _ _ Ha k). destruct (inv_captures_once _ _ Ha k Once). lia.
Qed.

(** [occupied], declaratively: some push on the slot, on a table already known, was not followed by a pop on the slot
    or a closing of its table *)
Lemma occupied_spec k l : occupied k l = true <->
  exists l1 p l2, l = l1 ++ p :: l2 /\ push_on k p = true /\ known l1 (fst k) = true /\ none_of (frees k) l2.
Proof.
  split.
  - induction l as [|x l IH] using rev_ind; [discriminate|]. rewrite occupied_snoc.
    assert (Ext : frees k x = false -> occupied k l = true -> exists l1 p l2, l ++ [x] = l1 ++ p :: l2 /\ push_on k p = true /\ known l1 (fst k) = true /\ none_of (frees k) l2).
    { intros F O. destruct (IH O) as (l1 & p & l2 & E & P & Kn & No). exists l1, p, (l2 ++ [x]). subst l. rewrite <- app_assoc. cbn [app].
      repeat split; try assumption. apply none_of_app. split; [exact No|constructor; [exact F|constructor]]. }
    destruct (known l (fst k)) eqn:Kl.
    + destruct (push_on k x) eqn:P; [intros _; exists l, x, []; repeat split; auto; constructor|].
      destruct (frees k x) eqn:F; [discriminate|]. apply Ext. reflexivity.
    + intro O. exfalso. destruct (IH O) as (l1 & p & l2 & E & P & Kn & No). subst l. rewrite (known_app _ _ _ Kn) in Kl. discriminate.
  - intros (l1 & p & l2 & E & P & Kn & No). subst l. induction l2 as [|y l2 IH] using rev_ind.
    + rewrite occupied_snoc, Kn, P. reflexivity.
    + apply none_of_app in No. destruct No as [No Ny]. inversion Ny as [|? ? Fy _]; subst.
      replace (l1 ++ p :: l2 ++ [y]) with ((l1 ++ p :: l2) ++ [y]) by (rewrite <- app_assoc; reflexivity).
      rewrite occupied_snoc, (known_app _ _ _ Kn), Fy, (IH No). destruct (push_on k y); reflexivity.
Qed.

(** ** rules of the monitor that can never fire (they double-check what other rules already force) *)
Lemma nonidem_retry_is_safe m b : handle_error false m b <> dec_ReturnError -> safe_to_resend (OError m) = true.
Proof.
  unfold handle_error, safe_to_resend. intro H.
  destruct (e_code m =? ErrorCodeReadTimeout) eqn:E1; [rewrite !orb_true_r; reflexivity|].
  destruct (e_code m =? ErrorCodeWriteTimeout) eqn:E2; [contradiction|].
  destruct (e_code m =? ErrorCodeUnavailable) eqn:E3; [reflexivity|].
  destruct (e_code m =? ErrorCodeIsBootstrapping) eqn:E4; [reflexivity|].
  destruct ((e_code m =? ErrorCodeServerError) || (e_code m =? ErrorCodeOverloaded) || (e_code m =? ErrorCodeTruncateError)
            || (e_code m =? ErrorCodeReadFailure) || (e_code m =? ErrorCodeWriteFailure)); contradiction.
Qed.

Theorem unsafe_retry_guard_never_true idem m b a : Z.of_N (handle_error idem m b) = a ->
  negb idem && negb (a =? Z.of_N dec_ReturnError) && negb (safe_to_resend (OError m)) = false.
Proof.
  intro H. destruct idem; [reflexivity|]. cbn [negb andb]. destruct (a =? Z.of_N dec_ReturnError) eqn:E; [reflexivity|]. cbn [negb andb].
  apply Z.eqb_neq in E. rewrite (nonidem_retry_is_safe m b); [reflexivity|]. intro X. apply E. rewrite <- H, X. reflexivity.
Qed.

(** an answered request stands registered nowhere (the second quiescence rule cannot fire for a request id <> 0) *)
Lemma inv_done_unregistered recs s : accepted recs s -> forall r, r <> 0 -> done_of s r = true -> regs_of s r = 0%nat.
Proof.
  revert recs s. apply (accepted_ind (fun recs s => forall r, r <> 0 -> done_of s r = true -> regs_of s r = 0%nat)); [intros r _ H; discriminate|].
  intros recs s x s' Ha IH M r N D. apply mstep_astep in M. rewrite (done_of_step _ _ _ r M) in D. rewrite (regs_of_step _ _ _ r M N).
  destruct (done_of s r) eqn:D0.
  - rewrite (IH r N D0). destruct (push_of r x && known_s s (rtable x) && started_s s r) eqn:P.
    + apply andb_true_iff in P. destruct P as [P St]. apply andb_true_iff in P. destruct P as [P Kn].
      destruct (push_step_facts _ _ _ _ M P N Kn St) as (_ & D1 & _). congruence.
    + match goal with |- (if ?c then _ else _) = _ => destruct c end; reflexivity.
  - cbn [orb] in D. apply andb_true_iff in D. destruct D as [R St]. destruct (reply_step_facts _ _ _ _ M R St) as [_ Z0].
    unfold reply_of in R. apply andb_true_iff in R. destruct R as [K8 _]. apply Z.eqb_eq in K8. kp. exact Z0.
Qed.

(** ** the brief's wording, for a complete recording (plain counts) *)
Lemma kind_push_of r x : push_of r x = true -> rkind x = 1 \/ rkind x = 2 \/ rkind x = 3 \/ rkind x = 4.
Proof. unfold push_of. intro H. apply andb_true_iff in H. destruct H as [H _]. apply Z.eqb_eq in H. auto. Qed.
Lemma kind_pop_of r x : pop_of r x = true -> rkind x = 1 \/ rkind x = 2 \/ rkind x = 3 \/ rkind x = 4.
Proof. unfold pop_of. intro H. apply andb_true_iff in H. destruct H as [H _]. apply Z.eqb_eq in H. auto. Qed.
Lemma kind_notify_of r x : notify_of r x = true -> rkind x = 1 \/ rkind x = 2 \/ rkind x = 3 \/ rkind x = 4.
Proof. unfold notify_of. intro H. apply andb_true_iff in H. destruct H as [H _]. apply Z.eqb_eq in H. auto. Qed.

Corollary complete_single_registration recs s : accepted recs s -> recording_complete recs -> forall r, r <> 0 ->
  forall pre post, recs = pre ++ post ->
  exists n, (n <= 1)%nat /\ count (push_of r) pre = (count (pop_of r) pre + count (notify_of r) pre + n)%nat.
Proof.
  intros Ha C r N pre post E. destruct (accepted_single_registration _ _ Ha r N (complete_born _ _ N C) pre post E) as (n & Hn & Hc).
  subst recs. pose proof (complete_app _ _ C) as Cp.
  rewrite (complete_kcount _ _ (kind_push_of r) Cp), (complete_kcount _ _ (kind_pop_of r) Cp), (complete_kcount _ _ (kind_notify_of r) Cp) in Hc. eauto.
Qed.

Corollary complete_reply_when_unregistered recs s : accepted recs s -> recording_complete recs -> forall r, r <> 0 ->
  forall l1 x l2, recs = l1 ++ x :: l2 -> reply_of r x = true ->
  count (push_of r) l1 = (count (pop_of r) l1 + count (notify_of r) l1)%nat /\ none_of (push_of r) l2.
Proof.
  intros Ha C r N l1 x l2 E R.
  assert (St : started l1 r = true).
  { destruct (C l1 x l2 E) as [_ C2]. unfold reply_of in R. apply andb_true_iff in R. destruct R as [K Rq]. apply Z.eqb_eq in K, Rq. subst r.
    apply C2; [right; right; right; lia|exact N]. }
  pose proof (accepted_reply_when_unregistered _ _ Ha r N (complete_born _ _ N C) l1 x l2 E R St) as H.
  assert (Cp : recording_complete l1) by (subst recs; exact (complete_app _ _ C)).
  rewrite (complete_kcount _ _ (kind_push_of r) Cp), (complete_kcount _ _ (kind_pop_of r) Cp), (complete_kcount _ _ (kind_notify_of r) Cp) in H.
  split; [exact H|]. apply Forall_forall. intros p Hp. apply not_true_false. intro Pp.
  apply in_split in Hp. destruct Hp as (a & b & ->).
  assert (E' : recs = (l1 ++ x :: a) ++ p :: b) by (rewrite E, <- app_assoc; reflexivity).
  destruct (C _ _ _ E') as [C1 C2].
  assert (Kp : rkind p = 1) by (unfold push_of in Pp; apply andb_true_iff in Pp; destruct Pp as [K _]; apply Z.eqb_eq; exact K).
  assert (Rp : rreq p = r) by (unfold push_of in Pp; apply andb_true_iff in Pp; destruct Pp as [_ K]; apply Z.eqb_eq; exact K).
  assert (Kn : known (l1 ++ x :: a) (rtable p) = true) by (apply C1; auto).
  assert (Sp : started (l1 ++ x :: a) r = true) by (rewrite <- Rp; apply C2; [auto|rewrite Rp; exact N]).
  pose proof (accepted_no_push_after_reply _ _ Ha r N _ p b E' Pp Kn Sp) as Z0.
  (* the reply [x] lies in the life of [r] before [p] *)
  destruct (accepted_prefix _ _ _ (eq_ind _ (fun l => accepted l s) Ha _ E')) as (sp & Hap & _).
  assert (St1 : exists l0 st l1', l1 = l0 ++ st :: l1' /\ start_of r st = true).
  { unfold started in St. apply existsb_exists in St. destruct St as (st & Hin & Hs). apply in_split in Hin. destruct Hin as (l0 & l1' & ->). eauto. }
  destruct St1 as (l0 & st & l1' & -> & Hs).
  assert (E2 : (l0 ++ st :: l1') ++ x :: a = l0 ++ st :: (l1' ++ x :: a)) by (rewrite <- app_assoc; reflexivity).
  destruct (unique_start _ _ r l0 st (l1' ++ x :: a) Hap E2 Hs) as (_ & _ & L & _). rewrite L in Z0.
  rewrite count_app, count_cons, R in Z0. lia.
Qed.

(** ** closedness of the headline theorems *)
Print Assumptions accepted_at_most_one_reply.
Print Assumptions accepted_quiescent_all_answered.
Print Assumptions accepted_single_registration.
Print Assumptions accepted_reply_when_unregistered.
Print Assumptions accepted_no_push_after_reply.
Print Assumptions complete_single_registration.
Print Assumptions complete_reply_when_unregistered.
Print Assumptions accepted_stream_exclusive.
Print Assumptions accepted_no_push_after_closing.
Print Assumptions accepted_closed_table_stays_closed.
Print Assumptions accepted_pop_matches_push.
Print Assumptions accepted_notifications.
Print Assumptions accepted_notified_at_most_once.
Print Assumptions accepted_notified_once_per_slot.
Print Assumptions occupied_spec.
Print Assumptions accepted_hosts_in_plan_order.
Print Assumptions accepted_nonempty_hosts_prefix_of_plan.
Print Assumptions accepted_push_on_current_host.
Print Assumptions accepted_decisions_follow_policy.
Print Assumptions mstep_total.
Print Assumptions rejecting_is_monotone.
Print Assumptions rejected_prefix_stays_rejected.
Print Assumptions unsafe_retry_guard_never_true.
Print Assumptions inv_done_unregistered.
