(** * AstStmtSim: INSERT, UPDATE, DELETE, BATCH and the top-level dispatch *)
From Coq Require Import List NArith Bool Lia Arith.
From CqlProxy Require Import Lib.Val Lib.Util Lib.Regex Gen.LexRules Gen.Tables Model.Lexer Model.Parser Model.Ast
  Proofs.AstBase Proofs.AstTermSim Proofs.AstClauseSim.
Import ListNotations.

Lemma adv_ne (l : list tok) p : l <> [] -> adv l p = S p.
Proof. destruct l; [congruence|reflexivity]. Qed.

(** parseQualifiedIdentifier, in terms of the look-ahead position *)
Lemma parse_qualified_adv ts p m q rest :
  skipn p ts = tokens_of_qname q ++ rest -> (hd_code rest =? tkDot)%N = false ->
  exists p0, skipn p0 ts = rest /\
    parse_qualified (mk ts (S p) m) = (ks_ident (fst q), ident_of_lexed (snd q), hd_code rest, false, mk ts (adv rest p0) m).
Proof.
  intros H Hd. destruct q as [[k|] n]; cbn [tokens_of_qname app fst snd ks_ident] in *; unfold parse_qualified.
  - step. pose proof (skipn_S _ _ _ _ H) as H1. step. pose proof (skipn_S _ _ _ _ H1) as H2. step. step.
    pose proof (skipn_S _ _ _ _ H2) as H4. rewrite (next_adv ts (S (S (S p))) m rest H4).
    exists (S (S (S p))). auto.
  - step. pose proof (skipn_S _ _ _ _ H) as H1. rewrite (next_adv ts (S p) m rest H1). rewrite Hd.
    exists (S p). auto.
Qed.

Lemma qname_hd q x : hd_code (tokens_of_qname q ++ x) = tkIdentifier /\ tokens_of_qname q ++ x <> [].
Proof. destruct q as [[k|] n]; split; try reflexivity; discriminate. Qed.

(** ** skipping tokens that neither end the statement nor are IF *)
Definition scannable (a : tok) : bool := negb (is_dml_terminator (t_code a)) && negb (t_code a =? tkIf)%N.

Lemma scan_skip ts : forall mid n p m R,
  forallb scannable mid = true -> skipn p ts = mid ++ R -> length mid <= n ->
  exists p', skipn p' ts = R /\
    scan_for_if n (mk ts (adv (mid ++ R) p) m) (hd_code (mid ++ R)) =
    scan_for_if (n - length mid) (mk ts (adv R p') m) (hd_code R).
Proof.
  induction mid as [|a mid IH]; intros n p m R Hs H Hn.
  - cbn [app length] in *. rewrite Nat.sub_0_r. exists p. auto.
  - cbn [app length forallb adv hd_code] in *. apply andb_true_iff in Hs. destruct Hs as [Ha Hs].
    unfold scannable in Ha. apply andb_true_iff in Ha. destruct Ha as [Ha1 Ha2].
    apply negb_true_iff in Ha1. apply negb_true_iff in Ha2.
    destruct n as [|n]; [lia|]. cbn [scan_for_if]. rewrite Ha1, Ha2.
    pose proof (skipn_S _ _ _ _ H) as H1. rewrite (next_adv ts (S p) m _ H1).
    destruct (IH n (S p) m R Hs H1 ltac:(lia)) as (p' & H2 & E). exists p'. split; [exact H2|].
    rewrite E. reflexivity.
Qed.

Lemma using_scannable u : forallb scannable (tokens_of_using u) = true.
Proof. destruct u as [[[[|[|?]]|[|[|?]]] [[[|[|?]]|[|[|?]]]|]]|]; reflexivity. Qed.

Lemma jval_scannable j : forallb scannable (tokens_of_jval j) = true.
Proof. destruct j as [|[|?]]; reflexivity. Qed.

Lemma scan_tail_sim ts n ifc u p m rest :
  skipn p ts = tokens_of_if ifc ++ tokens_of_using u ++ rest ->
  length (tokens_of_if ifc ++ tokens_of_using u ++ rest) <= n ->
  is_dml_terminator (hd_code rest) = true ->
  ssim ts (scan_for_if n (mk ts (adv (tokens_of_if ifc ++ tokens_of_using u ++ rest) p) m)
             (hd_code (tokens_of_if ifc ++ tokens_of_using u ++ rest))) (no_if ifc) rest.
Proof.
  intros H Hn Ht. destruct ifc as [tl|]; cbn [tokens_of_if app no_if ssim hd_code t_code tk adv] in *.
  - destruct n; reflexivity.
  - destruct (scan_skip ts (tokens_of_using u) n p m rest (using_scannable u) H ltac:(len)) as (p' & H1 & E).
    rewrite E. exists p', m. split; [exact H1|].
    destruct (n - length (tokens_of_using u)); cbn [scan_for_if]; rewrite Ht; reflexivity.
Qed.

(** ** INSERT *)
Lemma insert_sim ts n N q cols vals ifc u semi p m rest :
  wf_top_terms vals = true ->
  skipn p ts = tokens_of_dml_body (DInsert q cols vals ifc u semi) ++ rest ->
  length (tokens_of_dml_body (DInsert q cols vals ifc u semi) ++ rest) <= n ->
  length (tokens_of_dml_body (DInsert q cols vals ifc u semi) ++ rest) <= N ->
  is_dml_terminator (hd_code rest) = true ->
  ssim ts (insert_stmt n (parse_term FUEL N) (mk ts (S p) m)) (cls_terms vals && no_if ifc) rest.
Proof.
  intros W H Hn HN Ht. apply wf_top_terms_inv in W. destruct W as [W D].
  cbn [tokens_of_dml_body] in *. norm. unfold insert_stmt.
  pose proof (skipn_S _ _ _ _ H) as H1. step. pose proof (skipn_S _ _ _ _ H1) as H2.
  destruct (qname_hd q (tk tkLparen :: tokens_of_idents cols ++ tk tkRparen :: tki kwVALUES :: tk tkLparen ::
             tokens_of_terms vals ++ tk tkRparen :: tokens_of_if ifc ++ tokens_of_using u ++ rest)) as [Q1 Q2].
  rewrite (next_ne ts (S (S p)) m _ H2 Q2), Q1. simp.
  destruct (parse_qualified_adv ts (S (S p)) m q _ H2 eq_refl) as (p0 & H3 & E). rewrite E.
  cbn [hd_code t_code tk adv]. unfold is_kw at 1. simp.
  pose proof (skipn_S _ _ _ _ H3) as H4.
  rewrite (next_ne ts (S p0) m _ H4 (app_cons_ne _ _ _)).
  destruct (idents_sim ts cols n (S p0) m _ H4 ltac:(pose proof (f_equal (@length tok) H4); len)) as (p1 & H5 & E1).
  rewrite E1. simp. step. step_kw. step. pose proof (skipn_S _ _ _ _ H5) as H6. pose proof (skipn_S _ _ _ _ H6) as H7.
  rewrite (next_ne ts (S (S p1)) m _ H7 (app_cons_ne _ _ _)).
  assert (B1 : length (tokens_of_terms vals ++ tk tkRparen :: tokens_of_if ifc ++ tokens_of_using u ++ rest) <= N)
    by (pose proof (f_equal (@length tok) H7); len).
  assert (B2 : length (tokens_of_terms vals ++ tk tkRparen :: tokens_of_if ifc ++ tokens_of_using u ++ rest) <= n)
    by (pose proof (f_equal (@length tok) H7); len).
  pose proof (loop_terms_sim ts N (parse_term FUEL N) tkRparen eq_refl eq_refl eq_refl vals
                (parse_terms_sim vals FUEL N ts W D) W n (S (S p1)) m _ H7 B1 B2) as L.
  unfold lsim in L. destruct (cls_terms vals); cbn [andb].
  - destruct L as (p2 & m2 & H8 & E2). rewrite E2. simp.
    rewrite (next_adv ts p2 m2 _ H8). apply scan_tail_sim; [exact H8|len|exact Ht].
  - destruct L as (x & EL & F). rewrite EL. destruct x as [[[i ty] e] s]. cbn in F. subst. reflexivity.
Qed.

Lemma insert_json_sim ts n pt q j ifc u semi p m rest :
  skipn p ts = tokens_of_dml_body (DInsertJson q j ifc u semi) ++ rest ->
  length (tokens_of_dml_body (DInsertJson q j ifc u semi) ++ rest) <= n ->
  is_dml_terminator (hd_code rest) = true ->
  ssim ts (insert_stmt n pt (mk ts (S p) m)) (no_if ifc) rest.
Proof.
  intros H Hn Ht. cbn [tokens_of_dml_body] in *. norm. unfold insert_stmt.
  pose proof (skipn_S _ _ _ _ H) as H1. step. pose proof (skipn_S _ _ _ _ H1) as H2.
  destruct (qname_hd q (tki kwJSON :: tokens_of_jval j ++ tokens_of_if ifc ++ tokens_of_using u ++ rest)) as [Q1 Q2].
  rewrite (next_ne ts (S (S p)) m _ H2 Q2), Q1. simp.
  destruct (parse_qualified_adv ts (S (S p)) m q _ H2 eq_refl) as (p0 & H3 & E). rewrite E.
  cbn [hd_code t_code tki adv]. step_kw.
  pose proof (skipn_S _ _ _ _ H3) as H4. rewrite (next_adv ts (S p0) m _ H4).
  destruct (scan_skip ts (tokens_of_jval j) n (S p0) m _ (jval_scannable j) H4
              ltac:(pose proof (f_equal (@length tok) H4); len)) as (p1 & H5 & E1).
  rewrite E1. apply scan_tail_sim; [exact H5| |exact Ht].
  pose proof (f_equal (@length tok) H5). len.
Qed.

(** ** what can follow a table name / a USING clause *)
Lemma wtail_stop w ifc rest : is_dml_terminator (hd_code rest) = true ->
  ops_stop (hd_code (tokens_of_where w ++ tokens_of_if ifc ++ rest)) = true.
Proof.
  intro H. destruct w; [|reflexivity]. destruct ifc; [reflexivity|].
  cbn [tokens_of_where tokens_of_if app]. unfold ops_stop. rewrite H. apply orb_true_r.
Qed.

Lemma using_hd_neq u x d : (d =? tkUsing)%N = false -> (hd_code x =? d)%N = false ->
  (hd_code (tokens_of_using u ++ x) =? d)%N = false.
Proof. intros D1 D2. destruct u as [[a [b|]]|]; cbn [tokens_of_using app hd_code t_code tk]; try exact D2; rewrite N.eqb_sym; exact D1. Qed.

(** ** UPDATE *)
Lemma update_sim ts n N q u ops w ifc semi p m rest :
  forallb wf_update_op ops = true -> forallb wf_top_relation w = true ->
  skipn p ts = tokens_of_dml_body (DUpdate q u ops w ifc semi) ++ rest ->
  length (tokens_of_dml_body (DUpdate q u ops w ifc semi) ++ rest) <= n ->
  length (tokens_of_dml_body (DUpdate q u ops w ifc semi) ++ rest) <= N ->
  is_dml_terminator (hd_code rest) = true ->
  ssim ts (update_stmt n FUEL (parse_term FUEL N) (mk ts (S p) m))
       (forallb cls_update_op ops && forallb cls_relation w && no_if ifc) rest.
Proof.
  intros Wo Ww H Hn HN Ht. cbn [tokens_of_dml_body] in *. norm. unfold update_stmt.
  pose proof (skipn_S _ _ _ _ H) as H1.
  destruct (qname_hd q (tokens_of_using u ++ tki kwSET :: tokens_of_update_ops ops ++ tokens_of_where w ++ tokens_of_if ifc ++ rest)) as [Q1 Q2].
  rewrite (next_ne ts (S p) m _ H1 Q2), Q1. simp.
  destruct (parse_qualified_adv ts (S p) m q _ H1
              (using_hd_neq u (tki kwSET :: tokens_of_update_ops ops ++ tokens_of_where w ++ tokens_of_if ifc ++ rest) tkDot eq_refl eq_refl))
      as (p0 & H2 & E).
  rewrite E.
  destruct (using_sim ts u p0 m _ H2 eq_refl eq_refl) as (p1 & H3 & E1). rewrite E1.
  cbn [hd_code t_code tki adv]. simp. step_kw.
  pose proof (skipn_S _ _ _ _ H3) as H4. rewrite (next_adv ts (S p1) m _ H4).
  assert (B : length (tokens_of_update_ops ops ++ tokens_of_where w ++ tokens_of_if ifc ++ rest) <= Nat.min n N).
  { pose proof (f_equal (@length tok) H4). pose proof (f_equal (@length tok) H1). len. }
  pose proof (update_ops_loop_sim ts N ops n (S p1) m _ Wo H4 ltac:(lia) ltac:(lia) (wtail_stop w ifc rest Ht)) as L.
  unfold osim in L. destruct (forallb cls_update_op ops); cbn [andb].
  - destruct L as (p2 & m2 & H5 & E2). rewrite E2.
    apply where_and_if_sim; [exact Ww|exact H5| |exact Ht].
    pose proof (f_equal (@length tok) H5). len.
  - destruct L as (x & EL & F). rewrite EL. destruct x as [[i e] s]. cbn in F. subst. reflexivity.
Qed.

(** ** DELETE *)
Lemma delete_sim ts n N ops q u w ifc semi p m rest :
  forallb wf_delete_op ops = true -> forallb wf_top_relation w = true ->
  skipn p ts = tokens_of_dml_body (DDelete ops q u w ifc semi) ++ rest ->
  length (tokens_of_dml_body (DDelete ops q u w ifc semi) ++ rest) <= n ->
  length (tokens_of_dml_body (DDelete ops q u w ifc semi) ++ rest) <= N ->
  is_dml_terminator (hd_code rest) = true ->
  ssim ts (delete_stmt n FUEL (parse_term FUEL N) (mk ts (S p) m))
       (forallb cls_delete_op ops && forallb cls_relation w && no_if ifc) rest.
Proof.
  intros Wo Ww H Hn HN Ht. cbn [tokens_of_dml_body] in *. norm. unfold delete_stmt.
  pose proof (skipn_S _ _ _ _ H) as H1.
  rewrite (next_ne ts (S p) m _ H1 (app_cons_ne _ _ _)).
  pose proof (delete_ops_loop_sim ts N ops n (S p) m _ Wo H1 ltac:(len) ltac:(len)) as L.
  unfold dsim in L. destruct (forallb cls_delete_op ops); cbn [andb].
  - destruct L as (p1 & m1 & H2 & E1). rewrite E1. simp.
    destruct (qname_hd q (tokens_of_using u ++ tokens_of_where w ++ tokens_of_if ifc ++ rest)) as [Q1 Q2].
    rewrite (next_ne ts p1 m1 _ H2 Q2), Q1. simp.
    pose proof (wtail_stop w ifc rest Ht) as Hs.
    destruct (parse_qualified_adv ts p1 m1 q _ H2
                (using_hd_neq u _ tkDot eq_refl (ops_neq _ tkDot Hs eq_refl))) as (p0 & H3 & E).
    rewrite E.
    destruct (using_sim ts u p0 m1 _ H3 (ops_neq _ tkUsing Hs eq_refl) (ops_neq _ tkAnd Hs eq_refl)) as (p2 & H4 & E2).
    rewrite E2.
    apply where_and_if_sim; [exact Ww|exact H4| |exact Ht].
    pose proof (f_equal (@length tok) H4). pose proof (f_equal (@length tok) H2). len.
  - destruct L as (x & EL & F). rewrite EL. destruct x as [[i e] s]. cbn in F. subst. reflexivity.
Qed.

(** ** any DML statement *)
Definition run_dml (n N : nat) (d : dml) (s : lstate) : SRes :=
  match d with
  | DInsert _ _ _ _ _ _ | DInsertJson _ _ _ _ _ => insert_stmt n (parse_term FUEL N) s
  | DUpdate _ _ _ _ _ _ => update_stmt n FUEL (parse_term FUEL N) s
  | DDelete _ _ _ _ _ _ => delete_stmt n FUEL (parse_term FUEL N) s
  end.

Definition dml_head (d : dml) : N :=
  match d with
  | DInsert _ _ _ _ _ _ | DInsertJson _ _ _ _ _ => tkInsert
  | DUpdate _ _ _ _ _ _ => tkUpdate
  | DDelete _ _ _ _ _ _ => tkDelete
  end.

Lemma dml_body_hd d x : exists l, tokens_of_dml_body d ++ x = tk (dml_head d) :: l.
Proof. destruct d; cbn; eauto. Qed.

Lemma dml_sim ts n N d p m rest :
  wf_dml d = true ->
  skipn p ts = tokens_of_dml_body d ++ rest ->
  length (tokens_of_dml_body d ++ rest) <= n -> length (tokens_of_dml_body d ++ rest) <= N ->
  is_dml_terminator (hd_code rest) = true ->
  ssim ts (run_dml n N d (mk ts (S p) m)) (cls_dml d) rest.
Proof.
  intros W H Hn HN Ht. destruct d as [q cols vals ifc u semi|q j ifc u semi|q u ops w ifc semi|ops q u w ifc semi];
    cbn [run_dml cls_dml wf_dml] in *.
  - eapply insert_sim; eassumption.
  - eapply insert_json_sim; eassumption.
  - apply andb_true_iff in W. destruct W as [Wo Ww]. eapply update_sim; eassumption.
  - apply andb_true_iff in W. destruct W as [Wo Ww]. eapply delete_sim; eassumption.
Qed.

(** ** BATCH *)
Definition child_start (c : N) : bool := ((c =? tkApply) || (c =? tkInsert) || (c =? tkUpdate) || (c =? tkDelete))%N.

Lemma child_neq c d : child_start c = true -> child_start d = false -> (c =? d)%N = false.
Proof. intros Hc Hd. destruct (N.eqb_spec c d) as [E|]; [subst; congruence|reflexivity]. Qed.

Lemma child_terminator c : child_start c = true -> is_dml_terminator c = true.
Proof.
  unfold child_start. intro H. repeat (apply orb_true_iff in H; destruct H as [H|H]);
    apply N.eqb_eq in H; subst; reflexivity.
Qed.

Lemma dmls_hd ch x : child_start (hd_code (tokens_of_dmls ch ++ tk tkApply :: x)) = true /\
                     tokens_of_dmls ch ++ tk tkApply :: x <> [].
Proof.
  destruct ch as [|d ch]; [split; [reflexivity|discriminate]|].
  cbn [tokens_of_dmls]. unfold tokens_of_dml. rewrite <- !app_assoc.
  destruct (dml_body_hd d (tokens_of_semi (dml_semi d) ++ tokens_of_dmls ch ++ tk tkApply :: x)) as (l & E).
  rewrite E. split; [destruct d; reflexivity|discriminate].
Qed.

Definition bsim (ts : list tok) (r : (bool * N) + (N * lstate)) (c : bool) (rest : list tok) : Prop :=
  if c then exists p' m', skipn p' ts = rest /\ r = inr (tkApply, mk ts p' m')
  else exists e, r = inl (false, e).

Lemma batch_dispatch n N d s :
  (if (dml_head d =? tkInsert)%N then Some (insert_stmt n (parse_term FUEL N) s)
   else if (dml_head d =? tkUpdate)%N then Some (update_stmt n FUEL (parse_term FUEL N) s)
   else if (dml_head d =? tkDelete)%N then Some (delete_stmt n FUEL (parse_term FUEL N) s)
   else None) = Some (run_dml n N d s).
Proof. destruct d; reflexivity. Qed.

Lemma batch_children_sim ts N : forall ch n p m rest,
  forallb wf_dml ch = true ->
  skipn p ts = tokens_of_dmls ch ++ tk tkApply :: rest ->
  length (tokens_of_dmls ch ++ tk tkApply :: rest) <= N ->
  length (tokens_of_dmls ch ++ tk tkApply :: rest) <= n ->
  bsim ts (batch_children n FUEL (parse_term FUEL N) (mk ts (S p) m)
             (hd_code (tokens_of_dmls ch ++ tk tkApply :: rest))) (forallb cls_dml ch) rest.
Proof.
  induction ch as [|d ch IH]; intros n p m rest W H HN Hn.
  - cbn [tokens_of_dmls app forallb hd_code t_code tk] in *.
    assert (E : batch_children n FUEL (parse_term FUEL N) (mk ts (S p) m) tkApply = inr (tkApply, mk ts (S p) m)).
    { destruct n; reflexivity. }
    rewrite E. cbn [bsim]. exists (S p), m. split; [apply skipn_S with (tk tkApply), H|reflexivity].
  - cbn [tokens_of_dmls forallb] in *. unfold tokens_of_dml in *. norm.
    apply andb_true_iff in W. destruct W as [Wd Wch].
    destruct (dml_body_hd d (tokens_of_semi (dml_semi d) ++ tokens_of_dmls ch ++ tk tkApply :: rest)) as (l & E).
    pose proof Hn as Hn'. rewrite E in Hn'. rewrite E at 1. cbn [hd_code t_code tk].
    destruct n as [|n]; [exfalso; len|]. cbn [batch_children].
    assert (Hh : ((dml_head d =? tkApply) || (dml_head d =? tkEOF))%N = false) by (destruct d; reflexivity).
    rewrite Hh. rewrite batch_dispatch.
    destruct (dmls_hd ch rest) as [Hcs Hne].
    assert (Ht : is_dml_terminator (hd_code (tokens_of_semi (dml_semi d) ++ tokens_of_dmls ch ++ tk tkApply :: rest)) = true).
    { destruct (dml_semi d); [reflexivity|]. cbn [tokens_of_semi app]. apply child_terminator, Hcs. }
    pose proof (dml_sim ts (S n) N d p m _ Wd H Hn HN Ht) as R. unfold ssim in R.
    destruct (cls_dml d); cbn [andb].
    + destruct R as (p1 & m1 & H1 & E1). rewrite E1.
      assert (Hb : 1 <= length (tokens_of_dml_body d)) by (destruct d; cbn; lia).
      destruct (dml_semi d); cbn [tokens_of_semi app hd_code t_code tk adv] in *; simp.
      * pose proof (skipn_S _ _ _ _ H1) as H2. rewrite (next_ne ts (S p1) m1 _ H2 Hne).
        apply IH; [exact Wch|exact H2|len|len].
      * rewrite (child_neq _ tkEOS Hcs eq_refl). rewrite (adv_ne _ p1 Hne). simp.
        apply IH; [exact Wch|exact H1|len|len].
    + destruct (run_dml _ _ _ _) as [[[i t1] e] s]. cbn in R. subst. simp.
      destruct (if (t1 =? tkEOS)%N then next s else (t1, s)) as [t2 s2]. cbn [bsim]. eexists. reflexivity.
Qed.

Definition vsim (r : bool * N) (c : bool) : Prop := if c then r = (true, 0%N) else fst r = false.

Lemma batch_sim ts n N k u ch semi p m rest :
  forallb wf_dml ch = true ->
  skipn p ts = tokens_of_stmt (SBatch k u ch semi) ++ rest ->
  length (tokens_of_stmt (SBatch k u ch semi) ++ rest) <= n ->
  length (tokens_of_stmt (SBatch k u ch semi) ++ rest) <= N ->
  vsim (batch_stmt n FUEL (parse_term FUEL N) (mk ts (S p) m)) (cls_stmt (SBatch k u ch semi)).
Proof.
  intros W H Hn HN. cbn [tokens_of_stmt cls_stmt] in *. norm. unfold batch_stmt.
  pose proof (skipn_S _ _ _ _ H) as H1.
  assert (Hgo : forall q, skipn q ts = tk tkBatch :: tokens_of_using u ++ tokens_of_dmls ch ++ tk tkApply :: tk tkBatch :: tokens_of_semi semi ++ rest ->
            p < q ->
            vsim (let '(t2, s3) := next (mk ts (S q) m) in
                  let '(t3, err, s4) := parse_using_clause s3 t2 in
                  if err then (false, 1%N)
                  else match batch_children n FUEL (parse_term FUEL N) s4 t3 with
                       | inl r => r
                       | inr (t4, s5) =>
                           if negb (t4 =? tkApply)%N then (false, 1%N)
                           else let '(t5, _) := next s5 in if negb (t5 =? tkBatch)%N then (false, 1%N) else (true, 0%N)
                       end) (forallb cls_dml ch)).
  { intros q Hq Hlt. pose proof (skipn_S _ _ _ _ Hq) as Hq1. rewrite (next_adv ts (S q) m _ Hq1).
    destruct (dmls_hd ch (tk tkBatch :: tokens_of_semi semi ++ rest)) as [Hcs Hne].
    destruct (using_sim ts u (S q) m _ Hq1 (child_neq _ tkUsing Hcs eq_refl) (child_neq _ tkAnd Hcs eq_refl))
      as (p1 & H2 & E1).
    rewrite E1. rewrite (adv_ne _ p1 Hne).
    assert (B : length (tokens_of_dmls ch ++ tk tkApply :: tk tkBatch :: tokens_of_semi semi ++ rest) <= Nat.min n N).
    { pose proof (f_equal (@length tok) H2). pose proof (f_equal (@length tok) Hq).
      assert (length (skipn q ts) <= length (skipn p ts)).
      { rewrite !skipn_length. lia. }
      rewrite H in *. len. }
    pose proof (batch_children_sim ts N ch n p1 m _ W H2 ltac:(lia) ltac:(lia)) as L. unfold bsim in L.
    unfold vsim. destruct (forallb cls_dml ch).
    - destruct L as (p2 & m2 & H3 & E2). rewrite E2. simp. step. reflexivity.
    - destruct L as (e & EL). rewrite EL. reflexivity. }
  destruct k; cbn [tokens_of_batch_kind app] in *.
  - step. repeat step_kw. apply Hgo; [exact H1|lia].
  - step. repeat step_kw. pose proof (skipn_S _ _ _ _ H1) as H2. step. apply Hgo; [exact H2|lia].
  - step. repeat step_kw. reflexivity.
Qed.
