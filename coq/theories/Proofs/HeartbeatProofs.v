(** * Proofs about Model/Heartbeat.v: the idle-timeout loop of a backend connection
    (proxycore/clientconn.go [Heartbeats]).

    Notation used in the comments: I = interval c, D = idle c, C = ctimeout c.
    Standing hypotheses are named explicitly in every statement that uses them:
      0 <= I (or 0 < I), 0 < D (or 0 <= D), 0 <= C, [beats_nonneg] (delays >= 0). *)
From Coq Require Import List ZArith Bool Lia.
From CqlProxy Require Import Lib.Val Lib.Util Model.Heartbeat.
Import ListNotations.
Local Open Scope Z_scope.

(** ** the loop, one iteration at a time *)

(** the select takes the idle-timer branch *)
Definition closes (c : hcfg) (t due : Z) : bool :=
  (due <? t + interval c) || ((due =? t + interval c) && tie_idle c).

(** the state after a heartbeat that was sent *)
Definition hb_next (c : hcfg) (t due : Z) (b : beat) : Z * Z :=
  let back := t + interval c + took c b in
  if is_supported c b && (back <? due) then (back, back + idle c) else (back, due).

Lemma hb_loop_nil : forall c t due,
  hb_loop c t due [] = if closes c t due then Some (Z.max t due) else None.
Proof. reflexivity. Qed.

Lemma hb_loop_cons : forall c t due b r,
  hb_loop c t due (b :: r) =
  if closes c t due then Some (Z.max t due)
  else hb_loop c (fst (hb_next c t due b)) (snd (hb_next c t due b)) r.
Proof.
  intros c t due b r. cbn [hb_loop]. cbv zeta. unfold closes, hb_next. cbv zeta.
  destruct ((due <? t + interval c) || ((due =? t + interval c) && tie_idle c)); [reflexivity|].
  destruct (is_supported c b && (t + interval c + took c b <? due)); reflexivity.
Qed.

Lemma last_armed_nil : forall c t due, last_armed c t due [] = due - idle c.
Proof. reflexivity. Qed.

Lemma last_armed_cons : forall c t due b r,
  last_armed c t due (b :: r) =
  if closes c t due then due - idle c
  else last_armed c (fst (hb_next c t due b)) (snd (hb_next c t due b)) r.
Proof.
  intros c t due b r. cbn [last_armed]. cbv zeta. unfold closes, hb_next. cbv zeta.
  destruct ((due <? t + interval c) || ((due =? t + interval c) && tie_idle c)); [reflexivity|].
  destruct (is_supported c b && (t + interval c + took c b <? due)); reflexivity.
Qed.

Lemma closes_true_iff : forall c t due,
  closes c t due = true <-> due < t + interval c \/ (due = t + interval c /\ tie_idle c = true).
Proof.
  intros c t due. unfold closes.
  destruct (Z.ltb_spec due (t + interval c)) as [Hlt|Hge];
  destruct (Z.eqb_spec due (t + interval c)) as [He|Hne];
  destruct (tie_idle c); cbn; split; intros H; try lia; try discriminate; auto;
  try (destruct H as [H|[H1 H2]]; try lia; try discriminate).
Qed.

Lemma closes_false_iff : forall c t due,
  closes c t due = false <-> t + interval c < due \/ (due = t + interval c /\ tie_idle c = false).
Proof.
  intros c t due. unfold closes.
  destruct (Z.ltb_spec due (t + interval c)) as [Hlt|Hge];
  destruct (Z.eqb_spec due (t + interval c)) as [He|Hne];
  destruct (tie_idle c); cbn; split; intros H; try lia; try discriminate; auto;
  try (destruct H as [H|[H1 H2]]; try lia; try discriminate).
Qed.

Lemma closes_false_ge : forall c t due, closes c t due = false -> t + interval c <= due.
Proof. intros c t due H. apply closes_false_iff in H. lia. Qed.

Lemma hb_next_fst : forall c t due b, fst (hb_next c t due b) = t + interval c + took c b.
Proof.
  intros. unfold hb_next. cbv zeta.
  destruct (is_supported c b && (t + interval c + took c b <? due)); reflexivity.
Qed.

(** either re-armed (a SUPPORTED that came back strictly before the timer fired) or unchanged *)
Lemma hb_next_spec : forall c t due b,
  let back := t + interval c + took c b in
  (hb_next c t due b = (back, back + idle c) /\ is_supported c b = true /\ back < due) \/
  (hb_next c t due b = (back, due) /\ (is_supported c b = false \/ due <= back)).
Proof.
  intros c t due b back. unfold hb_next. cbv zeta. fold back.
  destruct (is_supported c b) eqn:Hs; cbn [andb].
  - destruct (Z.ltb_spec back due) as [Hlt|Hge].
    + left. repeat split; auto.
    + right. split; auto.
  - right. split; auto.
Qed.

Lemma hb_next_unsupported : forall c t due b,
  is_supported c b = false -> hb_next c t due b = (t + interval c + took c b, due).
Proof. intros c t due b Hs. unfold hb_next. cbv zeta. rewrite Hs. reflexivity. Qed.

(** ** delays *)
Definition delay_nonneg (b : beat) : Prop :=
  match b with Supported d | Other d => 0 <= d | Silent => True end.
Definition beats_nonneg (beats : list beat) : Prop := forall b, In b beats -> delay_nonneg b.

Lemma beats_nonneg_cons : forall b r, beats_nonneg (b :: r) -> delay_nonneg b /\ beats_nonneg r.
Proof. intros b r H. split; [apply H; left; reflexivity | intros x Hx; apply H; right; exact Hx]. Qed.

Lemma beats_nonneg_app : forall l1 l2, beats_nonneg l1 -> beats_nonneg l2 -> beats_nonneg (l1 ++ l2).
Proof. intros l1 l2 H1 H2 b Hb. apply in_app_or in Hb. destruct Hb; auto. Qed.

Lemma took_nonneg : forall c b, 0 <= ctimeout c -> delay_nonneg b -> 0 <= took c b.
Proof.
  intros c b Hc Hb. destruct b as [d|d|]; cbn [took delay_nonneg] in *; try lia;
  destruct (d <? ctimeout c); lia.
Qed.

Lemma took_le_ctimeout : forall c b, took c b <= ctimeout c.
Proof.
  intros c b. destruct b as [d|d|]; cbn [took]; try lia;
  destruct (Z.ltb_spec d (ctimeout c)); lia.
Qed.

Definition c0 (tie : bool) : hcfg := {| interval := 100; idle := 600; ctimeout := 200; tie_idle := tie |}.

(** ** HB2 (first half): the iteration that closed *)

(** the (t', due') of the iteration in which the idle-timer branch was taken *)
Fixpoint hb_close_state (c : hcfg) (t due : Z) (beats : list beat) : option (Z * Z) :=
  match beats with
  | [] => if closes c t due then Some (t, due) else None
  | b :: r => if closes c t due then Some (t, due)
              else hb_close_state c (fst (hb_next c t due b)) (snd (hb_next c t due b)) r
  end.

Lemma hb_loop_close_state : forall c beats t due,
  hb_loop c t due beats =
  option_map (fun p => Z.max (fst p) (snd p)) (hb_close_state c t due beats).
Proof.
  intros c beats. induction beats as [|b r IH]; intros t due.
  - rewrite hb_loop_nil. cbn [hb_close_state]. destruct (closes c t due); reflexivity.
  - rewrite hb_loop_cons. cbn [hb_close_state]. destruct (closes c t due); [reflexivity|]. apply IH.
Qed.

Lemma close_state_closes : forall c beats t due t' due',
  hb_close_state c t due beats = Some (t', due') -> closes c t' due' = true.
Proof.
  intros c beats. induction beats as [|b r IH]; intros t due t' due' H; cbn [hb_close_state] in H.
  - destruct (closes c t due) eqn:Hc; [|discriminate]. inversion H; subst. exact Hc.
  - destruct (closes c t due) eqn:Hc.
    + inversion H; subst. exact Hc.
    + eapply IH; eauto.
Qed.

Lemma close_state_last_armed : forall c beats t due t' due',
  hb_close_state c t due beats = Some (t', due') -> last_armed c t due beats = due' - idle c.
Proof.
  intros c beats. induction beats as [|b r IH]; intros t due t' due' H; cbn [hb_close_state] in H.
  - rewrite last_armed_nil. destruct (closes c t due); [|discriminate]. inversion H; subst. reflexivity.
  - rewrite last_armed_cons. destruct (closes c t due) eqn:Hc.
    + inversion H; subst. reflexivity.
    + eapply IH; eauto.
Qed.

(** HB2, stated precisely: the loop closes at [Z.max t' due'] where (t', due') is the iteration whose select took the
    idle-timer branch, i.e. at the later of "the select was entered" and "the timer fired"; that timer was armed at
    [last_armed]. *)
Theorem never_early : forall c beats t due x,
  hb_loop c t due beats = Some x ->
  exists t' due',
    hb_close_state c t due beats = Some (t', due') /\ x = Z.max t' due' /\
    closes c t' due' = true /\ last_armed c t due beats = due' - idle c.
Proof.
  intros c beats t due x H. rewrite hb_loop_close_state in H.
  destruct (hb_close_state c t due beats) as [[t' due']|] eqn:Hs; [|discriminate].
  cbn in H. inversion H; subst. exists t', due'. repeat split.
  - eapply close_state_closes; eauto.
  - eapply close_state_last_armed; eauto.
Qed.

Example never_early_ex :
  hb_close_state (c0 true) 0 600 [Supported 10; Silent; Other 50; Silent] = Some (860, 710) /\
  hb_loop (c0 true) 0 600 [Supported 10; Silent; Other 50; Silent] = Some 860 /\
  last_armed (c0 true) 0 600 [Supported 10; Silent; Other 50; Silent] = 110.
Proof. vm_compute. repeat split; reflexivity. Qed.

(** the time never runs backwards, and the timer is never due before what it was or a full idle timeout after the
    next tick *)
Lemma close_state_mono : forall c beats t due t' due',
  0 <= interval c -> 0 <= ctimeout c -> beats_nonneg beats ->
  hb_close_state c t due beats = Some (t', due') ->
  t <= t' /\ Z.min due (t + interval c + idle c) <= due'.
Proof.
  intros c beats. induction beats as [|b r IH]; intros t due t' due' HI HC Hnn H; cbn [hb_close_state] in H.
  - destruct (closes c t due); [|discriminate]. inversion H; subst. lia.
  - destruct (closes c t due) eqn:Hc.
    + inversion H; subst. lia.
    + apply beats_nonneg_cons in Hnn. destruct Hnn as [Hb Hr].
      pose proof (took_nonneg c b HC Hb) as Htk.
      apply IH in H; auto. rewrite hb_next_fst in H.
      destruct (hb_next_spec c t due b) as [[He _]|[He _]]; rewrite He in H; cbn [fst snd] in H; lia.
Qed.

Theorem never_early_general : forall c beats t due x,
  0 <= interval c -> 0 <= ctimeout c -> beats_nonneg beats ->
  hb_loop c t due beats = Some x ->
  t <= x /\ Z.min due (t + interval c + idle c) <= x.
Proof.
  intros c beats t due x HI HC Hnn H. apply never_early in H.
  destruct H as (t' & due' & Hs & Hx & _ & _).
  apply close_state_mono in Hs; auto. lia.
Qed.

(** corollary: never before one idle timeout has passed *)
Theorem never_before_idle : forall c beats x,
  0 <= interval c -> 0 <= ctimeout c -> beats_nonneg beats ->
  hb_run c beats = Some x -> idle c <= x.
Proof.
  intros c beats x HI HC Hnn H. unfold hb_run in H.
  apply never_early_general in H; auto. lia.
Qed.

Example never_before_idle_ex :
  hb_run (c0 false) [Other 0; Other 0; Other 0; Other 0; Other 0; Other 0] = Some 600 /\
  beats_nonneg [Other 0; Other 0; Other 0; Other 0; Other 0; Other 0].
Proof.
  split; [vm_compute; reflexivity|].
  intros b Hb. repeat (destruct Hb as [<-|Hb]; [cbn; lia|]). destruct Hb.
Qed.

(** the hypothesis "delays >= 0" is needed: a response "from the past" lets the model close early *)
Example never_before_idle_negative_delay_refuted :
  exists beats x, hb_run (c0 true) beats = Some x /\ x < idle (c0 true).
Proof. exists [Supported (-5000); Silent; Silent], (-4300). vm_compute. split; reflexivity. Qed.

(** HB2, second corollary: at least one idle timeout after the timer was last armed (no hypothesis at all) *)
Theorem closed_at_least_idle_after_last_arming_gen : forall c beats t due x,
  hb_loop c t due beats = Some x -> last_armed c t due beats + idle c <= x.
Proof.
  intros c beats t due x H. apply never_early in H.
  destruct H as (t' & due' & _ & Hx & _ & Hl). lia.
Qed.

Theorem closed_at_least_idle_after_last_arming : forall c beats x,
  hb_run c beats = Some x -> last_armed c 0 (idle c) beats + idle c <= x.
Proof. intros c beats x H. apply closed_at_least_idle_after_last_arming_gen. exact H. Qed.

Example closed_at_least_idle_after_last_arming_ex :
  let beats := [Supported 10; Supported 20; Silent; Silent; Silent] in
  hb_run (c0 true) beats = Some 830 /\ last_armed (c0 true) 0 600 beats = 230.
Proof. vm_compute. split; reflexivity. Qed.

(** ** HB3: closed at most one connect time-out after the timer fires *)

Lemma close_state_upper : forall c beats t due t' due',
  0 <= idle c + ctimeout c -> t <= due + ctimeout c ->
  hb_close_state c t due beats = Some (t', due') -> t' <= due' + ctimeout c.
Proof.
  intros c beats. induction beats as [|b r IH]; intros t due t' due' HD Ht H; cbn [hb_close_state] in H.
  - destruct (closes c t due); [|discriminate]. inversion H; subst. lia.
  - destruct (closes c t due) eqn:Hc.
    + inversion H; subst. lia.
    + apply closes_false_ge in Hc. pose proof (took_le_ctimeout c b) as Htk.
      apply IH in H; auto. rewrite hb_next_fst.
      destruct (hb_next_spec c t due b) as [[He _]|[He _]]; rewrite He; cbn [fst snd]; lia.
Qed.

Theorem closed_within_a_connect_timeout_gen : forall c beats t due x,
  0 <= idle c + ctimeout c -> 0 <= ctimeout c -> t <= due + ctimeout c ->
  hb_loop c t due beats = Some x ->
  x <= last_armed c t due beats + idle c + ctimeout c.
Proof.
  intros c beats t due x HD HC Ht H. apply never_early in H.
  destruct H as (t' & due' & Hs & Hx & _ & Hl).
  apply close_state_upper in Hs; auto. lia.
Qed.

(** exactly the bound of the brief: no [+ interval c] is needed; uses 0 < D and 0 <= C only *)
Theorem closed_within_a_connect_timeout : forall c beats x,
  0 < idle c -> 0 <= ctimeout c ->
  hb_run c beats = Some x ->
  x <= last_armed c 0 (idle c) beats + idle c + ctimeout c.
Proof.
  intros c beats x HD HC H. apply closed_within_a_connect_timeout_gen; auto; lia.
Qed.

(** tight when ties go to the tick: the sixth tick is at 600 = due, the request is sent and never answered *)
Example closed_within_a_connect_timeout_tight :
  let beats := [Other 0; Other 0; Other 0; Other 0; Other 0; Silent] in
  hb_run (c0 false) beats = Some 800 /\
  last_armed (c0 false) 0 600 beats + idle (c0 false) + ctimeout (c0 false) = 800.
Proof. vm_compute. split; reflexivity. Qed.

(** when ties go to the idle timer the bound is strict (the last tick is strictly before the timer) *)
Lemma close_state_upper_strict : forall c beats t due t' due',
  tie_idle c = true -> 0 < idle c + ctimeout c -> t < due + ctimeout c ->
  hb_close_state c t due beats = Some (t', due') -> t' < due' + ctimeout c.
Proof.
  intros c beats. induction beats as [|b r IH]; intros t due t' due' Htie HD Ht H; cbn [hb_close_state] in H.
  - destruct (closes c t due); [|discriminate]. inversion H; subst. lia.
  - destruct (closes c t due) eqn:Hc.
    + inversion H; subst. lia.
    + apply closes_false_iff in Hc. destruct Hc as [Hc|[_ Hc]]; [|congruence].
      pose proof (took_le_ctimeout c b) as Htk.
      apply IH in H; auto. rewrite hb_next_fst.
      destruct (hb_next_spec c t due b) as [[He _]|[He _]]; rewrite He; cbn [fst snd]; lia.
Qed.

Theorem closed_within_a_connect_timeout_strict : forall c beats x,
  tie_idle c = true -> 0 < idle c -> 0 < ctimeout c ->
  hb_run c beats = Some x ->
  x < last_armed c 0 (idle c) beats + idle c + ctimeout c.
Proof.
  intros c beats x Htie HD HC H. unfold hb_run in H. apply never_early in H.
  destruct H as (t' & due' & Hs & Hx & _ & Hl).
  apply close_state_upper_strict in Hs; auto; lia.
Qed.

Example closed_within_a_connect_timeout_strict_tight :
  let beats := [Other 99; Other 0; Other 0; Other 0; Silent] in
  hb_run (c0 true) beats = Some 799 /\ last_armed (c0 true) 0 600 beats = 0.
Proof. vm_compute. split; reflexivity. Qed.

(** ** HB6: once closed, closed (later beats are never looked at) *)
Theorem closed_stays_closed : forall c l1 l2 t due x,
  hb_loop c t due l1 = Some x -> hb_loop c t due (l1 ++ l2) = Some x.
Proof.
  intros c l1. induction l1 as [|b r IH]; intros l2 t due x H.
  - rewrite hb_loop_nil in H. cbn [app]. destruct (closes c t due) eqn:Hc; [|discriminate].
    destruct l2 as [|b2 r2]; [rewrite hb_loop_nil | rewrite hb_loop_cons]; rewrite Hc; exact H.
  - cbn [app]. rewrite hb_loop_cons in *. destruct (closes c t due); [exact H|]. apply IH. exact H.
Qed.

Example closed_stays_closed_ex :
  hb_run (c0 true) [Silent; Silent; Silent] = Some 600 /\
  hb_run (c0 true) ([Silent; Silent; Silent] ++ [Supported 0; Supported 0]) = Some 600.
Proof. vm_compute. split; reflexivity. Qed.

(** the same for [last_armed] *)
Lemma closed_last_armed_app : forall c l1 l2 t due x,
  hb_loop c t due l1 = Some x -> last_armed c t due (l1 ++ l2) = last_armed c t due l1.
Proof.
  intros c l1. induction l1 as [|b r IH]; intros l2 t due x H.
  - rewrite hb_loop_nil in H. cbn [app]. destruct (closes c t due) eqn:Hc; [|discriminate].
    rewrite last_armed_nil. destruct l2 as [|b2 r2]; [reflexivity|]. rewrite last_armed_cons, Hc. reflexivity.
  - cbn [app]. rewrite hb_loop_cons in H. rewrite !last_armed_cons.
    destruct (closes c t due); [reflexivity|]. eapply IH. exact H.
Qed.

(** ** append: the state after a prefix that did not close *)
Fixpoint hb_steps (c : hcfg) (t due : Z) (beats : list beat) : option (Z * Z) :=
  match beats with
  | [] => Some (t, due)
  | b :: r => if closes c t due then None
              else hb_steps c (fst (hb_next c t due b)) (snd (hb_next c t due b)) r
  end.

Lemma hb_loop_app : forall c l1 l2 t due,
  hb_loop c t due (l1 ++ l2) =
  match hb_steps c t due l1 with
  | Some (t', due') => hb_loop c t' due' l2
  | None => hb_loop c t due l1
  end.
Proof.
  intros c l1. induction l1 as [|b r IH]; intros l2 t due.
  - reflexivity.
  - cbn [app hb_steps]. rewrite !hb_loop_cons. destruct (closes c t due); [reflexivity|]. apply IH.
Qed.

Lemma last_armed_app : forall c l1 l2 t due,
  last_armed c t due (l1 ++ l2) =
  match hb_steps c t due l1 with
  | Some (t', due') => last_armed c t' due' l2
  | None => last_armed c t due l1
  end.
Proof.
  intros c l1. induction l1 as [|b r IH]; intros l2 t due.
  - reflexivity.
  - cbn [app hb_steps]. rewrite !last_armed_cons. destruct (closes c t due); [reflexivity|]. apply IH.
Qed.

(** ** HB1: a connection that answers in time is never closed *)
Definition healthy (c : hcfg) (b : beat) : Prop :=
  exists d, b = Supported d /\ 0 <= d < ctimeout c /\ interval c + d < idle c.

(** the time the last answer of a healthy prefix came back *)
Fixpoint healthy_end (c : hcfg) (t : Z) (beats : list beat) : Z :=
  match beats with
  | [] => t
  | b :: r => healthy_end c (t + interval c + took c b) r
  end.

Lemma healthy_next : forall c t b,
  healthy c b ->
  hb_next c t (t + idle c) b = (t + interval c + took c b, t + interval c + took c b + idle c).
Proof.
  intros c t b (d & -> & Hd & Hid). unfold hb_next. cbv zeta. cbn [took is_supported].
  destruct (Z.ltb_spec d (ctimeout c)) as [_|Hge]; [|lia]. cbn [andb].
  destruct (Z.ltb_spec (t + interval c + d) (t + idle c)) as [_|Hge]; [reflexivity|lia].
Qed.

Lemma healthy_steps : forall c l t,
  interval c < idle c -> (forall b, In b l -> healthy c b) ->
  hb_steps c t (t + idle c) l = Some (healthy_end c t l, healthy_end c t l + idle c).
Proof.
  intros c l. induction l as [|b r IH]; intros t Hii Hh.
  - reflexivity.
  - cbn [hb_steps healthy_end].
    assert (Hc : closes c t (t + idle c) = false) by (apply closes_false_iff; lia).
    rewrite Hc. rewrite healthy_next by (apply Hh; left; reflexivity). cbn [fst snd].
    apply IH; auto. intros x Hx. apply Hh. right. exact Hx.
Qed.

(** the state after a healthy prefix: the timer has just been re-armed by its last answer *)
Theorem healthy_prefix : forall c l1 l2 t,
  interval c < idle c -> (forall b, In b l1 -> healthy c b) ->
  hb_loop c t (t + idle c) (l1 ++ l2) = hb_loop c (healthy_end c t l1) (healthy_end c t l1 + idle c) l2 /\
  last_armed c t (t + idle c) (l1 ++ l2) = last_armed c (healthy_end c t l1) (healthy_end c t l1 + idle c) l2.
Proof.
  intros c l1 l2 t Hii Hh. rewrite hb_loop_app, last_armed_app, healthy_steps by auto. split; reflexivity.
Qed.

Theorem healthy_never_closed_gen : forall c beats t,
  (forall b, In b beats -> healthy c b) -> interval c < idle c ->
  hb_loop c t (t + idle c) beats = None.
Proof.
  intros c beats t Hh Hii.
  rewrite <- (app_nil_r beats). destruct (healthy_prefix c beats [] t Hii Hh) as [-> _].
  rewrite hb_loop_nil.
  assert (Hc : closes c (healthy_end c t beats) (healthy_end c t beats + idle c) = false)
    by (apply closes_false_iff; lia).
  rewrite Hc. reflexivity.
Qed.

(** HB1 exactly as stated (no standing hypothesis used; both values of [tie_idle]; every length) *)
Theorem healthy_never_closed : forall c beats,
  (forall b, In b beats -> exists d, b = Supported d /\ 0 <= d < ctimeout c /\ interval c + d < idle c) ->
  interval c < idle c -> hb_run c beats = None.
Proof. intros c beats Hh Hii. unfold hb_run. apply (healthy_never_closed_gen c beats 0); auto. Qed.

Example healthy_never_closed_ex : forall tie,
  let beats := [Supported 0; Supported 199; Supported 50; Supported 199; Supported 199; Supported 3] in
  (forall b, In b beats -> healthy (c0 tie) b) /\ hb_run (c0 tie) beats = None.
Proof.
  intros tie beats. split.
  - intros b Hb. unfold beats in Hb.
    repeat (destruct Hb as [<-|Hb]; [eexists; split; [reflexivity|cbn; lia]|]). destruct Hb.
  - destruct tie; vm_compute; reflexivity.
Qed.

(** [interval c + d < idle c] is exact: at [interval c + d = idle c] the answer comes back at the very instant the
    timer fires, [Stop()] reports "already fired", the timer is not re-armed and the next select closes the
    connection -- whatever [tie_idle] is.  (interval 100, idle 250, connect time-out 200: an answer after 150.) *)
Example healthy_never_closed_boundary_refuted : forall tie,
  exists c beats,
    tie_idle c = tie /\
    (forall b, In b beats -> exists d, b = Supported d /\ 0 <= d < ctimeout c /\ interval c + d <= idle c) /\
    interval c < idle c /\ hb_run c beats = Some (idle c).
Proof.
  intros tie.
  exists {| interval := 100; idle := 250; ctimeout := 200; tie_idle := tie |}, [Supported 150; Supported 0; Supported 0].
  split; [reflexivity|]. split; [|split].
  - intros b Hb. repeat (destruct Hb as [<-|Hb]; [eexists; split; [reflexivity|cbn; lia]|]). destruct Hb.
  - cbn. lia.
  - destruct tie; vm_compute; reflexivity.
Qed.

(** in general: one SUPPORTED arriving exactly [idle c] after the timer was armed closes the connection at that very
    instant's next select, whatever follows *)
Theorem answer_at_the_deadline_closes : forall c d r,
  0 < interval c -> 0 <= d < ctimeout c -> interval c + d = idle c ->
  hb_run c (Supported d :: r) = Some (idle c).
Proof.
  intros c d r HI Hd He. unfold hb_run. rewrite hb_loop_cons.
  destruct (closes c 0 (idle c)) eqn:Hc; [f_equal; lia|].
  assert (Hn : hb_next c 0 (idle c) (Supported d) = (idle c, idle c)).
  { unfold hb_next. cbv zeta. cbn [took is_supported].
    destruct (Z.ltb_spec d (ctimeout c)) as [_|Hge]; [|lia]. cbn [andb].
    destruct (Z.ltb_spec (0 + interval c + d) (idle c)) as [Hlt|_]; [lia|]. f_equal. lia. }
  rewrite Hn. cbn [fst snd].
  assert (Hc2 : closes c (idle c) (idle c) = true) by (apply closes_true_iff; lia).
  destruct r as [|b r]; [rewrite hb_loop_nil | rewrite hb_loop_cons]; rewrite Hc2; f_equal; lia.
Qed.

(** ** HB4: silence closes *)

Lemma length_cons_Z : forall (b : beat) r, Z.of_nat (length (b :: r)) = Z.of_nat (length r) + 1.
Proof. intros. cbn [length]. lia. Qed.

(** the sharp count: the model also closes when the beats run out with the timer due before the next tick, so
    [length beats + 1] periods are what is needed.  No [t <= due], no sign condition on I.  Uses 0 <= C, delays >= 0. *)
Theorem silence_closes_sharp : forall c beats t due,
  0 <= ctimeout c -> beats_nonneg beats ->
  (forall b, In b beats -> is_supported c b = false) ->
  (Z.of_nat (length beats) + 1) * interval c > due - t ->
  exists x, hb_loop c t due beats = Some x /\ due <= x /\ last_armed c t due beats = due - idle c.
Proof.
  intros c beats. induction beats as [|b r IH]; intros t due HC Hnn Hs Hlen.
  - cbn [length] in Hlen. rewrite hb_loop_nil, last_armed_nil.
    assert (Hc : closes c t due = true) by (apply closes_true_iff; lia). rewrite Hc.
    exists (Z.max t due). repeat split; lia.
  - rewrite hb_loop_cons, last_armed_cons. destruct (closes c t due) eqn:Hc.
    + exists (Z.max t due). repeat split; lia.
    + apply closes_false_ge in Hc. apply beats_nonneg_cons in Hnn. destruct Hnn as [Hb Hr].
      pose proof (took_nonneg c b HC Hb) as Htk.
      rewrite hb_next_unsupported by (apply Hs; left; reflexivity). cbn [fst snd].
      apply IH; auto.
      * intros x Hx. apply Hs. right. exact Hx.
      * rewrite length_cons_Z in Hlen. lia.
Qed.

(** as in the brief, but no [t <= due] is needed.  Uses 0 <= I, 0 <= C, delays >= 0. *)
Theorem silence_closes : forall c beats t due,
  0 <= interval c -> 0 <= ctimeout c -> beats_nonneg beats ->
  (forall b, In b beats -> is_supported c b = false) ->
  Z.of_nat (length beats) * interval c > due - t ->
  exists x, hb_loop c t due beats = Some x /\ due <= x /\ last_armed c t due beats = due - idle c.
Proof.
  intros c beats t due HI HC Hnn Hs Hlen. apply silence_closes_sharp; auto. lia.
Qed.

(** the form of the brief *)
Corollary silence_closes_brief : forall c beats t due,
  0 < interval c -> 0 <= ctimeout c -> beats_nonneg beats -> t <= due ->
  (forall b, In b beats -> is_supported c b = false) ->
  Z.of_nat (length beats) * interval c > due - t ->
  exists x, hb_loop c t due beats = Some x.
Proof.
  intros c beats t due HI HC Hnn _ Hs Hlen.
  destruct (silence_closes c beats t due) as (x & Hx & _); auto; try lia. exists x. exact Hx.
Qed.

(** ... and when: between the moment the timer fires and one connect time-out later *)
Theorem silence_closes_when : forall c beats t due,
  0 <= interval c -> 0 <= ctimeout c -> 0 <= idle c + ctimeout c -> beats_nonneg beats ->
  t <= due + ctimeout c ->
  (forall b, In b beats -> is_supported c b = false) ->
  Z.of_nat (length beats) * interval c > due - t ->
  exists x, hb_loop c t due beats = Some x /\ due <= x <= due + ctimeout c.
Proof.
  intros c beats t due HI HC HD Hnn Ht Hs Hlen.
  destruct (silence_closes c beats t due) as (x & Hx & Hlo & Hl); auto.
  exists x. split; [exact Hx|]. split; [exact Hlo|].
  apply closed_within_a_connect_timeout_gen in Hx; auto. lia.
Qed.

Theorem silence_closes_run : forall c beats,
  0 <= interval c -> 0 < idle c -> 0 <= ctimeout c -> beats_nonneg beats ->
  (forall b, In b beats -> is_supported c b = false) ->
  Z.of_nat (length beats) * interval c > idle c ->
  exists x, hb_run c beats = Some x /\ idle c <= x <= idle c + ctimeout c.
Proof.
  intros c beats HI HD HC Hnn Hs Hlen. unfold hb_run.
  apply silence_closes_when; auto; lia.
Qed.

Example silence_closes_ex :
  let beats := [Other 30; Supported 200; Silent; Supported 5000] in
  beats_nonneg beats /\ (forall b, In b beats -> is_supported (c0 true) b = false) /\
  Z.of_nat (length beats) * interval (c0 true) > 650 - 300 /\
  hb_loop (c0 true) 300 650 beats = Some 730.
Proof.
  intros beats. unfold beats. repeat split.
  - intros b Hb. repeat (destruct Hb as [<-|Hb]; [cbn; lia|]). destruct Hb.
  - intros b Hb. repeat (destruct Hb as [<-|Hb]; [reflexivity|]). destruct Hb.
Qed.

(** "delays >= 0" is needed: answers from the past keep the clock from advancing *)
Example silence_closes_negative_delay_refuted :
  exists beats,
    (forall b, In b beats -> is_supported (c0 true) b = false) /\
    Z.of_nat (length beats) * interval (c0 true) > idle (c0 true) /\
    hb_run (c0 true) beats = None.
Proof.
  exists [Other (-100); Other (-100); Other (-100); Other (-100); Other (-100); Other (-100); Other (-100)].
  split; [|split; vm_compute; reflexivity].
  intros b Hb. repeat (destruct Hb as [<-|Hb]; [reflexivity|]). destruct Hb.
Qed.

(** the sharp count is exact: with [(length beats + 1) * interval c = due - t] and ties going to the tick the
    connection is still open when the beats run out *)
Example silence_closes_sharp_count_refuted :
  exists beats,
    beats_nonneg beats /\ (forall b, In b beats -> is_supported (c0 false) b = false) /\
    (Z.of_nat (length beats) + 1) * interval (c0 false) = idle (c0 false) /\
    hb_run (c0 false) beats = None.
Proof.
  exists [Other 0; Other 0; Other 0; Other 0; Other 0].
  split; [|split; [|split; vm_compute; reflexivity]].
  - intros b Hb. repeat (destruct Hb as [<-|Hb]; [cbn; lia|]). destruct Hb.
  - intros b Hb. repeat (destruct Hb as [<-|Hb]; [reflexivity|]). destruct Hb.
Qed.

(** a healthy prefix followed by silence: closed between one idle timeout and one idle timeout plus one connect
    time-out after the LAST ANSWERED heartbeat came back ([healthy_end c 0 l1]) *)
Theorem healthy_then_silence_closes : forall c l1 l2,
  0 <= interval c -> interval c < idle c -> 0 <= ctimeout c ->
  (forall b, In b l1 -> healthy c b) ->
  beats_nonneg l2 -> (forall b, In b l2 -> is_supported c b = false) ->
  Z.of_nat (length l2) * interval c > idle c ->
  exists x, hb_run c (l1 ++ l2) = Some x /\
            last_armed c 0 (idle c) (l1 ++ l2) = healthy_end c 0 l1 /\
            healthy_end c 0 l1 + idle c <= x <= healthy_end c 0 l1 + idle c + ctimeout c.
Proof.
  intros c l1 l2 HI Hii HC Hh Hnn Hs Hlen. unfold hb_run.
  destruct (healthy_prefix c l1 l2 0 Hii Hh) as [He Hl]. cbn [Z.add] in He, Hl.
  rewrite He, Hl.
  set (T := healthy_end c 0 l1) in *.
  destruct (silence_closes c l2 T (T + idle c)) as (x & Hx & Hlo & Hla); auto; try lia.
  exists x. split; [exact Hx|]. split; [lia|]. split; [exact Hlo|].
  apply closed_within_a_connect_timeout_gen in Hx; auto; lia.
Qed.

Example healthy_then_silence_closes_ex :
  let l1 := [Supported 10; Supported 20] in
  let l2 := [Silent; Other 1; Silent; Silent; Other 5; Silent; Silent] in
  Z.of_nat (length l2) * interval (c0 true) > idle (c0 true) /\
  healthy_end (c0 true) 0 l1 = 230 /\ last_armed (c0 true) 0 600 (l1 ++ l2) = 230 /\
  hb_run (c0 true) (l1 ++ l2) = Some 931.
Proof. vm_compute. repeat split; reflexivity. Qed.

(** ** HB5: error frames do not count as heartbeats, however fast they come *)
Theorem errors_do_not_count : forall c beats,
  0 <= interval c -> 0 < idle c -> 0 <= ctimeout c ->
  (forall b, In b beats -> exists d, b = Other d /\ 0 <= d) ->
  Z.of_nat (length beats) * interval c > idle c ->
  exists x, hb_run c beats = Some x /\ idle c <= x <= idle c + ctimeout c.
Proof.
  intros c beats HI HD HC Hb Hlen. apply silence_closes_run; auto.
  - intros b Hin. destruct (Hb b Hin) as (d & -> & Hd). exact Hd.
  - intros b Hin. destruct (Hb b Hin) as (d & -> & Hd). reflexivity.
Qed.

Example errors_do_not_count_ex :
  let beats := [Other 0; Other 0; Other 0; Other 0; Other 0; Other 150; Other 0] in
  (forall b, In b beats -> exists d, b = Other d /\ 0 <= d) /\
  Z.of_nat (length beats) * interval (c0 false) > idle (c0 false) /\
  hb_run (c0 false) beats = Some 750 /\ hb_run (c0 true) beats = Some 600.
Proof.
  intros beats. unfold beats. split; [|repeat split; vm_compute; reflexivity].
  intros b Hb. repeat (destruct Hb as [<-|Hb]; [eexists; split; [reflexivity|lia]|]). destruct Hb.
Qed.

(** ** HB7: an idle timeout that is not above the heartbeat interval closes every connection *)
Theorem idle_not_above_interval_closes_healthy : forall c beats,
  0 <= idle c ->
  (idle c < interval c \/ (idle c = interval c /\ tie_idle c = true)) ->
  hb_run c beats = Some (idle c).
Proof.
  intros c beats HD Hcfg. unfold hb_run.
  assert (Hc : closes c 0 (idle c) = true).
  { apply closes_true_iff. destruct Hcfg as [H|[H1 H2]]; [left; lia | right; split; [lia | exact H2]]. }
  destruct beats as [|b r]; [rewrite hb_loop_nil | rewrite hb_loop_cons]; rewrite Hc; f_equal; lia.
Qed.

Example idle_not_above_interval_closes_healthy_ex :
  hb_run {| interval := 600; idle := 100; ctimeout := 200; tie_idle := false |}
         [Supported 0; Supported 0; Supported 0] = Some 100 /\
  hb_run {| interval := 100; idle := 100; ctimeout := 200; tie_idle := true |}
         [Supported 0; Supported 0; Supported 0] = Some 100.
Proof. vm_compute. split; reflexivity. Qed.

(** when a tick coincides with the deadline and the tick wins, the heartbeat is sent, its answer cannot come back
    strictly before the timer fired, and the connection is closed as soon as the request returns *)
Theorem tick_wins_tie_closes_on_return : forall c t due b r,
  0 < interval c -> 0 <= ctimeout c -> delay_nonneg b ->
  due = t + interval c -> tie_idle c = false ->
  hb_loop c t due (b :: r) = Some (due + took c b) /\ last_armed c t due (b :: r) = due - idle c.
Proof.
  intros c t due b r HI HC Hb He Htie. rewrite hb_loop_cons, last_armed_cons.
  assert (Hc : closes c t due = false) by (apply closes_false_iff; right; split; [lia | exact Htie]).
  rewrite Hc.
  pose proof (took_nonneg c b HC Hb) as Htk.
  assert (Hn : hb_next c t due b = (due + took c b, due)).
  { destruct (hb_next_spec c t due b) as [[_ [_ Hlt]]|[Hn _]]; [lia|]. rewrite Hn. f_equal. lia. }
  rewrite Hn. cbn [fst snd].
  assert (Hc2 : closes c (due + took c b) due = true) by (apply closes_true_iff; lia).
  destruct r as [|b2 r2]; [rewrite hb_loop_nil, last_armed_nil | rewrite hb_loop_cons, last_armed_cons];
    rewrite Hc2; split; try reflexivity; f_equal; lia.
Qed.

(** at [idle c = interval c] with the tie going to the tick the connection is closed as well, as soon as the first
    heartbeat returns *)
Theorem idle_equal_interval_closes_too : forall c b r,
  0 < interval c -> 0 <= ctimeout c -> delay_nonneg b ->
  idle c = interval c -> tie_idle c = false ->
  hb_run c (b :: r) = Some (idle c + took c b).
Proof.
  intros c b r HI HC Hb He Htie. unfold hb_run.
  apply (tick_wins_tie_closes_on_return c 0 (idle c) b r); auto.
Qed.

Example idle_equal_interval_closes_too_ex :
  hb_run {| interval := 100; idle := 100; ctimeout := 200; tie_idle := false |}
         [Supported 7; Supported 0; Supported 0] = Some 107.
Proof. vm_compute. reflexivity. Qed.

(** ** HB8: the tie only matters when a tick coincides with the deadline *)
Definition set_tie (tie : bool) (c : hcfg) : hcfg :=
  {| interval := interval c; idle := idle c; ctimeout := ctimeout c; tie_idle := tie |}.

(** does some select of the run of [c] see the tick and the idle timer due at the same instant? *)
Fixpoint tie_hit (c : hcfg) (t due : Z) (beats : list beat) : bool :=
  match beats with
  | [] => due =? t + interval c
  | b :: r => (due =? t + interval c) ||
              (if closes c t due then false
               else tie_hit c (fst (hb_next c t due b)) (snd (hb_next c t due b)) r)
  end.

Lemma hb_next_set_tie : forall tie c t due b, hb_next (set_tie tie c) t due b = hb_next c t due b.
Proof. reflexivity. Qed.

Lemma closes_set_tie : forall tie c t due,
  (due =? t + interval c) = false -> closes (set_tie tie c) t due = closes c t due.
Proof.
  intros tie c t due H. unfold closes. cbn [set_tie interval tie_idle]. rewrite H. reflexivity.
Qed.

Theorem tie_choice_only_matters_at_equality : forall c beats t due tie,
  tie_hit c t due beats = false ->
  hb_loop (set_tie tie c) t due beats = hb_loop c t due beats /\
  last_armed (set_tie tie c) t due beats = last_armed c t due beats.
Proof.
  intros c beats. induction beats as [|b r IH]; intros t due tie H; cbn [tie_hit] in H.
  - rewrite !hb_loop_nil, !last_armed_nil, closes_set_tie by exact H. split; reflexivity.
  - apply orb_false_iff in H. destruct H as [He H].
    rewrite !hb_loop_cons, !last_armed_cons, closes_set_tie, hb_next_set_tie by exact He.
    destruct (closes c t due); [split; reflexivity|]. apply IH. exact H.
Qed.

Lemma set_tie_set_tie : forall a b c, set_tie a (set_tie b c) = set_tie a c.
Proof. reflexivity. Qed.

(** the weaker form: the two results differ only if some tick coincides with the deadline (in both runs) *)
Corollary tie_results_differ_only_at_equality : forall c beats t due,
  hb_loop (set_tie true c) t due beats <> hb_loop (set_tie false c) t due beats ->
  tie_hit (set_tie true c) t due beats = true /\ tie_hit (set_tie false c) t due beats = true.
Proof.
  intros c beats t due Hne. split.
  - destruct (tie_hit (set_tie true c) t due beats) eqn:Hh; [reflexivity|]. exfalso. apply Hne.
    destruct (tie_choice_only_matters_at_equality _ _ _ _ false Hh) as [He _].
    rewrite set_tie_set_tie in He. symmetry. exact He.
  - destruct (tie_hit (set_tie false c) t due beats) eqn:Hh; [reflexivity|]. exfalso. apply Hne.
    destruct (tie_choice_only_matters_at_equality _ _ _ _ true Hh) as [He _].
    rewrite set_tie_set_tie in He. exact He.
Qed.

Example tie_choice_ex :
  let beats := [Other 0; Other 0; Other 0; Other 0; Other 0; Silent] in
  tie_hit (c0 false) 0 600 beats = true /\
  hb_run (set_tie true (c0 false)) beats = Some 600 /\ hb_run (set_tie false (c0 false)) beats = Some 800.
Proof. vm_compute. repeat split; reflexivity. Qed.

Example tie_choice_ex_no_hit :
  let beats := [Other 1; Supported 3; Other 0; Silent; Silent; Silent; Silent] in
  tie_hit (c0 false) 0 600 beats = false /\
  hb_run (set_tie true (c0 false)) beats = Some 904 /\ hb_run (set_tie false (c0 false)) beats = Some 904.
Proof. vm_compute. repeat split; reflexivity. Qed.

(** letting the idle timer win ties never closes later, and closes whenever the other choice does *)
Theorem tie_to_idle_closes_no_later : forall c beats t due x,
  0 <= interval c -> 0 <= idle c -> 0 <= ctimeout c -> beats_nonneg beats ->
  hb_loop (set_tie false c) t due beats = Some x ->
  exists y, hb_loop (set_tie true c) t due beats = Some y /\ y <= x.
Proof.
  intros c beats. induction beats as [|b r IH]; intros t due x HI HD HC Hnn H.
  - pose proof (never_early_general (set_tie false c) [] t due x HI HC Hnn H) as [Ht Hm].
    cbn [set_tie interval idle] in Hm.
    rewrite hb_loop_nil in *. destruct (closes (set_tie false c) t due) eqn:Hc; [|discriminate].
    apply closes_true_iff in Hc. cbn [set_tie interval tie_idle] in Hc.
    assert (Hc2 : closes (set_tie true c) t due = true).
    { apply closes_true_iff; cbn [set_tie interval tie_idle].
      destruct Hc as [Hc|[_ Hc]]; [left; exact Hc | discriminate]. }
    rewrite Hc2. exists (Z.max t due). split; [reflexivity|]. inversion H; subst. lia.
  - pose proof (never_early_general (set_tie false c) (b :: r) t due x HI HC Hnn H) as [Ht Hm].
    cbn [set_tie interval idle] in Hm.
    rewrite hb_loop_cons in *. destruct (closes (set_tie true c) t due) eqn:Hc2.
    + exists (Z.max t due). split; [reflexivity|].
      apply closes_true_iff in Hc2. cbn [set_tie interval tie_idle] in Hc2. lia.
    + assert (Hc : closes (set_tie false c) t due = false).
      { apply closes_false_iff in Hc2. apply closes_false_iff. cbn [set_tie interval tie_idle] in *.
        destruct Hc2 as [Hc2|[_ Hc2]]; [left; exact Hc2 | discriminate]. }
      rewrite Hc in H. rewrite hb_next_set_tie in *.
      apply beats_nonneg_cons in Hnn. destruct Hnn as [_ Hr].
      apply IH; auto.
Qed.

Example tie_to_idle_closes_no_later_ex :
  let beats := [Other 0; Other 0; Other 0; Other 0; Other 0; Supported 150; Supported 0; Supported 0] in
  hb_run (set_tie false (c0 true)) beats = Some 750 /\ hb_run (set_tie true (c0 true)) beats = Some 600.
Proof. vm_compute. split; reflexivity. Qed.

(** ** assumptions *)
Print Assumptions healthy_never_closed.
Print Assumptions healthy_never_closed_boundary_refuted.
Print Assumptions answer_at_the_deadline_closes.
Print Assumptions never_early.
Print Assumptions never_early_general.
Print Assumptions never_before_idle.
Print Assumptions closed_at_least_idle_after_last_arming.
Print Assumptions closed_within_a_connect_timeout.
Print Assumptions closed_within_a_connect_timeout_strict.
Print Assumptions silence_closes_sharp.
Print Assumptions silence_closes.
Print Assumptions silence_closes_when.
Print Assumptions silence_closes_run.
Print Assumptions healthy_prefix.
Print Assumptions healthy_then_silence_closes.
Print Assumptions errors_do_not_count.
Print Assumptions closed_stays_closed.
Print Assumptions idle_not_above_interval_closes_healthy.
Print Assumptions tick_wins_tie_closes_on_return.
Print Assumptions idle_equal_interval_closes_too.
Print Assumptions tie_choice_only_matters_at_equality.
Print Assumptions tie_results_differ_only_at_equality.
Print Assumptions tie_to_idle_closes_no_later.
