(** Proofs about Model/Retry.v (properties C04, C05). *)
From Coq Require Import List ZArith NArith Bool Lia.
From CqlProxy Require Import Lib.Val Lib.Util Gen.Tables Model.Retry.
Import ListNotations.
Local Open Scope Z_scope.

(** ** The generated policy equals the documented one *)

Ltac code_cases c :=
  destruct (Z.eqb_spec c 4608); [subst c|];
  [|destruct (Z.eqb_spec c 4352); [subst c|];
    [|destruct (Z.eqb_spec c 4096); [subst c|];
      [|destruct (Z.eqb_spec c 4098); [subst c|];
        [|destruct (Z.eqb_spec c 0); [subst c|];
          [|destruct (Z.eqb_spec c 4097); [subst c|];
            [|destruct (Z.eqb_spec c 4099); [subst c|];
              [|destruct (Z.eqb_spec c 4864); [subst c|];
                [|destruct (Z.eqb_spec c 5376); [subst c|]]]]]]]]].

Lemma eqb_ne : forall a b : Z, a <> b -> (a =? b) = false.
Proof. intros a b H. apply Z.eqb_neq. exact H. Qed.

Lemma policy_eq_doc :
  forall idem m retry, 0 <= retry ->
    handle_error idem m retry = doc_code (doc_policy idem m retry).
Proof.
  intros idem [c rcv blk dp wt al rq nf cs] retry Hr.
  unfold handle_error, doc_policy, on_read_timeout, on_write_timeout, on_unavailable, on_error_response,
    dec_ReturnError, dec_RetryNext, dec_RetrySame,
    ErrorCodeReadTimeout, ErrorCodeWriteTimeout, ErrorCodeUnavailable, ErrorCodeIsBootstrapping,
    ErrorCodeServerError, ErrorCodeOverloaded, ErrorCodeTruncateError, ErrorCodeReadFailure, ErrorCodeWriteFailure,
    batch_log, bytes_eqb.
  cbn [e_code e_received e_blockFor e_dataPresent e_writeType].
  code_cases c; cbn [Z.eqb Pos.eqb orb andb negb];
    repeat match goal with H : ?c <> _ |- _ => rewrite (eqb_ne c _ H); clear H end;
    cbn [orb andb negb];
    try (destruct idem; cbn [andb]);
    try (destruct (retry =? 0)); cbn [andb];
    try (destruct (blk <=? rcv)); cbn [andb];
    try (destruct dp); cbn [andb negb];
    try (destruct (list_eqb N.eqb wt _)); reflexivity.
Qed.

Lemma same_needs_retry0 :
  forall idem m retry, handle_error idem m retry = dec_RetrySame -> retry = 0.
Proof.
  intros idem [c rcv blk dp wt al rq nf cs] retry.
  unfold handle_error, on_read_timeout, on_write_timeout, on_unavailable, on_error_response,
    dec_ReturnError, dec_RetryNext, dec_RetrySame,
    ErrorCodeReadTimeout, ErrorCodeWriteTimeout, ErrorCodeUnavailable, ErrorCodeIsBootstrapping,
    ErrorCodeServerError, ErrorCodeOverloaded, ErrorCodeTruncateError, ErrorCodeReadFailure, ErrorCodeWriteFailure.
  cbn [e_code e_received e_blockFor e_dataPresent e_writeType].
  destruct (Z.eqb_spec retry 0) as [E|E]; [intros _; exact E|].
  cbn [andb].
  repeat match goal with |- context [if ?b then _ else _] => destruct b end; intro H; discriminate H.
Qed.

(** a non-idempotent request is retried only after unavailable / bootstrapping / read timeout *)
Lemma nonidem_retry_is_safe :
  forall m retry, handle_error false m retry <> dec_ReturnError -> safe_to_resend (OError m) = true.
Proof.
  intros [c rcv blk dp wt al rq nf cs] retry.
  unfold handle_error, safe_to_resend, dec_ReturnError.
  cbn [e_code].
  destruct (c =? ErrorCodeReadTimeout) eqn:E1; [intros _; rewrite !orb_true_r; reflexivity|].
  destruct (c =? ErrorCodeWriteTimeout) eqn:E2; [intro H; exfalso; apply H; reflexivity|].
  destruct (c =? ErrorCodeUnavailable) eqn:E3; [intros _; reflexivity|].
  destruct (c =? ErrorCodeIsBootstrapping) eqn:E4; [intros _; rewrite orb_true_r; reflexivity|].
  destruct (_ || _); intro H; exfalso; apply H; reflexivity.
Qed.

(** ** Structure of a run *)

Definition inv (st : rstate) : Prop := 0 <= retry st.

Lemma inv_advance st : inv st -> inv (advance st).
Proof. unfold inv, advance. destruct (plan st); simpl; auto. Qed.
Lemma inv_bump st a b : inv st -> inv (bump st a b).
Proof. unfold inv, bump. destruct b; simpl; lia. Qed.

Definition b2n (b : bool) : nat := if b then 1 else 0.

(** decompose one iteration: every way [exec (S f)] can continue *)
Inductive iter_case (idem : bool) (e : env) (next : bool) (st1 : rstate) (f : nat) : list tried * option reply -> Prop :=
| IcNoHost : host st1 = None ->
    iter_case idem e next st1 f ([], Some RpNoHosts)
| IcSendFail h : host st1 = Some h ->
    can_send e (tries st1) h = false ->
    forall t r, exec f idem e true (bump st1 false false) = (t, r) ->
    iter_case idem e next st1 f (SendFailed next h :: t, r)
| IcFinal h o rp : host st1 = Some h ->
    can_send e (tries st1) h = true ->
    o = answer e (sent st1) h ->
    (rp = match o with
          | OResult => RpResult h (sent st1)
          | OError _ => RpError h (sent st1)
          | _ => RpConnLost
          end) ->
    (match o with
     | OResult => True
     | OError m => handle_error idem m (retry st1) <> dec_RetryNext /\
                   handle_error idem m (retry st1) <> dec_RetrySame
     | OUnprepared PrepLost | OLost => idem = false
     | _ => False
     end) ->
    iter_case idem e next st1 f ([Sent next h (sent st1) o], Some rp)
| IcCont h o next' inc : host st1 = Some h ->
    can_send e (tries st1) h = true ->
    o = answer e (sent st1) h ->
    (match o with
     | OError m => (handle_error idem m (retry st1) = dec_RetryNext /\ next' = true /\ inc = true) \/
                   (handle_error idem m (retry st1) = dec_RetrySame /\ next' = false /\ inc = true)
     | OUnprepared PrepOk => next' = false /\ inc = false
     | OUnprepared PrepErr | OUnprepared PrepSendFail => next' = true /\ inc = false
     | OUnprepared PrepLost | OLost => idem = true /\ next' = true /\ inc = false
     | _ => False
     end) ->
    forall t r, exec f idem e next' (bump st1 true inc) = (t, r) ->
    iter_case idem e next st1 f (Sent next h (sent st1) o :: t, r).

Lemma exec_cases : forall f idem e next st,
  iter_case idem e next (if next then advance st else st) f (exec (S f) idem e next st).
Proof.
  intros f idem e next st. unfold exec. cbn [exec_gen]. change (exec_gen handle_error) with exec.
  set (st1 := if next then advance st else st).
  destruct (host st1) as [h|] eqn:Hh; [|apply IcNoHost; exact Hh].
  destruct (can_send e (tries st1) h) eqn:Hc.
  2:{ destruct (exec f idem e true (bump st1 false false)) as [t r] eqn:E. eapply IcSendFail; eauto. }
  destruct (answer e (sent st1) h) as [|m|p|] eqn:Ho.
  - eapply IcFinal; eauto; rewrite Ho; auto.
  - destruct (N.eqb (handle_error idem m (retry st1)) dec_RetryNext) eqn:E1.
    + apply N.eqb_eq in E1.
      destruct (exec f idem e true (bump st1 true true)) as [t r] eqn:E.
      rewrite <- Ho. eapply IcCont; eauto. rewrite Ho. left; auto.
    + destruct (N.eqb (handle_error idem m (retry st1)) dec_RetrySame) eqn:E2.
      * apply N.eqb_eq in E2.
        destruct (exec f idem e false (bump st1 true true)) as [t r] eqn:E.
        rewrite <- Ho. eapply IcCont; eauto. rewrite Ho. right; auto.
      * apply N.eqb_neq in E1. apply N.eqb_neq in E2.
        rewrite <- Ho. eapply IcFinal; eauto; rewrite Ho; auto.
  - destruct p.
    + destruct (exec f idem e false (bump st1 true false)) as [t r] eqn:E.
      rewrite <- Ho. eapply IcCont; eauto. rewrite Ho. auto.
    + destruct (exec f idem e true (bump st1 true false)) as [t r] eqn:E.
      rewrite <- Ho. eapply IcCont; eauto. rewrite Ho. auto.
    + destruct idem.
      * destruct (exec f true e true (bump st1 true false)) as [t r] eqn:E.
        rewrite <- Ho. eapply IcCont; eauto. rewrite Ho. auto.
      * rewrite <- Ho. eapply IcFinal; eauto; rewrite Ho; auto.
    + destruct (exec f idem e true (bump st1 true false)) as [t r] eqn:E.
      rewrite <- Ho. eapply IcCont; eauto. rewrite Ho. auto.
  - destruct idem.
    + destruct (exec f true e true (bump st1 true false)) as [t r] eqn:E.
      rewrite <- Ho. eapply IcCont; eauto. rewrite Ho. auto.
    + rewrite <- Ho. eapply IcFinal; eauto; rewrite Ho; auto.
Qed.

(** *** attempts are bounded by hosts + 1 (+ one per successful re-prepare) *)
Definition budget (next : bool) (st : rstate) : nat :=
  length (plan st) + b2n (negb next) + b2n (retry st =? 0).

Lemma plan_advance st : host (advance st) <> None -> length (plan st) = S (length (plan (advance st))).
Proof. unfold advance. destruct (plan st); simpl; [congruence|auto]. Qed.

Lemma count_sent_cons_sent a h j o t : count_sent (Sent a h j o :: t) = S (count_sent t).
Proof. reflexivity. Qed.
Lemma count_sent_cons_fail a h t : count_sent (SendFailed a h :: t) = count_sent t.
Proof. reflexivity. Qed.

Lemma attempts_bounded_gen :
  forall fuel idem e next st t r, inv st ->
    exec fuel idem e next st = (t, r) ->
    (count_sent t <= budget next st + reexecs t)%nat.
Proof.
  induction fuel as [|f IH]; intros idem e next st t r Hinv E.
  - simpl in E. inversion E; subst. apply Nat.le_0_l.
  - pose proof (exec_cases f idem e next st) as C. rewrite E in C.
    remember (if next then advance st else st) as st1 eqn:Hst1 in *.
    assert (Hinv1 : inv st1) by (rewrite Hst1; destruct next; auto using inv_advance).
    assert (Hplan : host st1 <> None -> (length (plan st1) + b2n next = length (plan st))%nat).
    { rewrite Hst1. destruct next; simpl; intro Hn; [rewrite (plan_advance st Hn)|]; lia. }
    assert (Hretry : retry st1 = retry st) by (rewrite Hst1; unfold advance; destruct next; [destruct (plan st)|]; reflexivity).
    clear Hst1.
    inversion C; subst; clear C.
    + apply Nat.le_0_l.
    + match goal with H : exec f _ _ _ _ = _ |- _ => apply IH in H; [|apply inv_bump; exact Hinv1] end.
      rewrite count_sent_cons_fail. unfold budget in *. cbn [bump plan retry negb b2n] in *.
      assert (host st1 <> None) by congruence. specialize (Hplan H). rewrite Hretry in *.
      unfold reexecs in *. cbn [filter]. destruct next; cbn [b2n negb] in *; lia.
    + unfold count_sent, budget. cbn.
      assert (host st1 <> None) by congruence. specialize (Hplan H).
      destruct next; cbn [b2n negb] in *; lia.
    + match goal with H : exec f _ _ _ _ = _ |- _ => apply IH in H; [|apply inv_bump; exact Hinv1] end.
      rewrite count_sent_cons_sent.
      assert (Hh' : host st1 <> None) by congruence. specialize (Hplan Hh').
      unfold budget in *. cbn [bump plan retry] in *. rewrite Hretry in *.
      unfold inv in Hinv.
      destruct (answer e (sent st1) h) as [|m|p|] eqn:Ho; try contradiction.
      * (* error, retried *)
        assert (Hre : reexecs (Sent next h (sent st1) (OError m) :: t0) = reexecs t0) by reflexivity.
        rewrite Hre.
        match goal with H : _ \/ _ |- _ => destruct H as [(Hd & -> & ->)|(Hd & -> & ->)] end.
        -- assert ((retry st + 1 =? 0) = false) by (apply Z.eqb_neq; lia).
           rewrite H in *. destruct next; cbn [b2n negb] in *; lia.
        -- apply same_needs_retry0 in Hd. rewrite Hd in *.
           cbn [Z.add Z.eqb Pos.eqb b2n negb] in *. destruct next; cbn [b2n negb] in *; lia.
      * destruct p; try contradiction.
        -- match goal with H : _ /\ _ |- _ => destruct H as (-> & ->) end.
           assert (Hre : reexecs (Sent next h (sent st1) (OUnprepared PrepOk) :: t0) = S (reexecs t0)) by reflexivity.
           rewrite Hre. destruct next; cbn [b2n negb] in *; lia.
        -- match goal with H : _ /\ _ |- _ => destruct H as (-> & ->) end.
           assert (Hre : reexecs (Sent next h (sent st1) (OUnprepared PrepErr) :: t0) = reexecs t0) by reflexivity.
           rewrite Hre. destruct next; cbn [b2n negb] in *; lia.
        -- match goal with H : _ /\ _ /\ _ |- _ => destruct H as (_ & -> & ->) end.
           assert (Hre : reexecs (Sent next h (sent st1) (OUnprepared PrepLost) :: t0) = reexecs t0) by reflexivity.
           rewrite Hre. destruct next; cbn [b2n negb] in *; lia.
        -- match goal with H : _ /\ _ |- _ => destruct H as (-> & ->) end.
           assert (Hre : reexecs (Sent next h (sent st1) (OUnprepared PrepSendFail) :: t0) = reexecs t0) by reflexivity.
           rewrite Hre. destruct next; cbn [b2n negb] in *; lia.
      * match goal with H : _ /\ _ /\ _ |- _ => destruct H as (_ & -> & ->) end.
        assert (Hre : reexecs (Sent next h (sent st1) OLost :: t0) = reexecs t0) by reflexivity.
        rewrite Hre. destruct next; cbn [b2n negb] in *; lia.
Qed.

Lemma attempts_bounded :
  forall fuel idem e p t r, run fuel idem e p = (t, r) ->
    (count_sent t <= length p + 1 + reexecs t)%nat.
Proof.
  intros fuel idem e p t r E. unfold run in E.
  apply attempts_bounded_gen in E; [|unfold inv, init_state; simpl; lia].
  unfold budget, init_state in E. cbn in E. lia.
Qed.

