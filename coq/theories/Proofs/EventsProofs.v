(** Proofs about Model/Events.v (C14). *)
From Coq Require Import List ZArith NArith Bool Lia.
From CqlProxy Require Import Lib.Val Lib.Util Model.Events.
Import ListNotations.
Local Open Scope N_scope.

Lemma inN_In x l : inN x l = true <-> In x l.
Proof.
  unfold inN. rewrite existsb_exists. split.
  - intros (y & Hy & He). apply N.eqb_eq in He. subst. exact Hy.
  - intro H. exists x. split; [exact H|apply N.eqb_refl].
Qed.

Lemma inN_app x a b : inN x (a ++ b) = inN x a || inN x b.
Proof. unfold inN. apply existsb_app. Qed.

Lemma inN_addN x y l : inN x (addN y l) = N.eqb x y || inN x l.
Proof.
  unfold addN. destruct (inN y l) eqn:Hy.
  - destruct (N.eqb_spec x y) as [->|]; [rewrite Hy; reflexivity|reflexivity].
  - rewrite inN_app. cbn. rewrite orb_false_r. apply orb_comm.
Qed.

Lemma inN_cons x z l : inN x (z :: l) = N.eqb x z || inN x l.
Proof. reflexivity. Qed.

Lemma inN_removeN x y l : inN x (removeN y l) = negb (N.eqb x y) && inN x l.
Proof.
  unfold removeN. induction l as [|z l IH]; [cbn; rewrite andb_false_r; reflexivity|].
  cbn [filter]. rewrite inN_cons.
  destruct (N.eqb y z) eqn:Hyz; cbn [negb].
  - apply N.eqb_eq in Hyz. subst z. rewrite IH. destruct (N.eqb x y); reflexivity.
  - rewrite inN_cons, IH.
    destruct (N.eqb_spec x z) as [->|]; cbn [orb]; [|reflexivity].
    rewrite N.eqb_sym, Hyz. reflexivity.
Qed.

Lemma NoDup_snoc (x : N) l : NoDup l -> ~ In x l -> NoDup (l ++ [x]).
Proof.
  induction l as [|y l IH]; intros Hnd Hx; cbn; [constructor; [intros []|constructor]|].
  inversion Hnd as [|? ? Hy Hnd']; subst. constructor.
  - rewrite in_app_iff. intros [H|[H|[]]]; [exact (Hy H)|subst; apply Hx; left; reflexivity].
  - apply IH; [exact Hnd'|]. intro H. apply Hx. right. exact H.
Qed.

Lemma NoDup_addN x l : NoDup l -> NoDup (addN x l).
Proof.
  intro H. unfold addN. destruct (inN x l) eqn:Hx; [exact H|].
  apply NoDup_snoc; [exact H|]. intro Hin. apply inN_In in Hin. congruence.
Qed.

Lemma NoDup_removeN x l : NoDup l -> NoDup (removeN x l).
Proof. intro H. unfold removeN. apply NoDup_filter. exact H. Qed.

(** the frames a schema event produces for one client: exactly one if it is registered *)
Lemma delivered_fanout c id l : NoDup l ->
  delivered c (map (fun d => (d, id)) l) = if inN c l then [id] else [].
Proof.
  unfold delivered. induction l as [|x l IH]; intro Hnd; [reflexivity|].
  inversion Hnd as [|? ? Hnot Hnd']; subst. cbn [map filter fst inN existsb].
  destruct (N.eqb_spec x c) as [->|Hxc].
  - rewrite N.eqb_refl. cbn [orb map snd]. fold (inN c l).
    specialize (IH Hnd'). destruct (inN c l) eqn:Hin; [apply inN_In in Hin; contradiction|].
    cbn in IH |- *. rewrite IH. reflexivity.
  - destruct (N.eqb_spec c x) as [->|_]; [congruence|]. cbn [orb]. apply IH. exact Hnd'.
Qed.

Lemma delivered_app c a b : delivered c (a ++ b) = delivered c a ++ delivered c b.
Proof. unfold delivered. rewrite filter_app, map_app. reflexivity. Qed.

Definition wf (s : state) : Prop := NoDup (registered s) /\ (forall c, inN c (registered s) = true -> inN c (connected s) = true).

Lemma step_wf s o : wf s -> wf (fst (step s o)).
Proof.
  intros [Hnd Hsub]. unfold wf. destruct o as [c|c sch|c|k id|]; cbn [step].
  - cbn [fst connected registered]. split; [exact Hnd|]. intros d Hd. rewrite inN_addN. rewrite (Hsub d Hd). apply orb_true_r.
  - destruct (inN c (connected s) && sch) eqn:Hc; cbn [fst connected registered]; [|split; assumption].
    split; [apply NoDup_addN; exact Hnd|]. intros d Hd. rewrite inN_addN in Hd.
    apply andb_prop in Hc. destruct Hc as [Hc _].
    destruct (N.eqb d c) eqn:E; [apply N.eqb_eq in E; subst d; exact Hc|]. cbn [orb] in Hd. apply Hsub. exact Hd.
  - cbn [fst connected registered]. split; [apply NoDup_removeN; exact Hnd|]. intros d Hd. rewrite inN_removeN in Hd |- *.
    apply andb_prop in Hd. destruct Hd as [H1 H2]. rewrite H1, (Hsub d H2). reflexivity.
  - destruct k; cbn [fst]; split; assumption.
  - cbn [fst]. split; assumption.
Qed.

(** refinement: the concrete fan-out gives every client exactly the frames of its own specification *)
Theorem delivered_is_expected h : forall s c, wf s ->
  delivered c (run s h) = expected c (inN c (connected s)) (inN c (registered s)) h.
Proof.
  induction h as [|o r IH]; intros s c Hwf; [reflexivity|].
  pose proof (step_wf s o Hwf) as Hwf'.
  cbn [run]. destruct (step s o) as [s' out] eqn:Hstep. cbn [fst] in Hwf'.
  rewrite delivered_app, (IH s' c Hwf').
  destruct Hwf as [Hnd Hsub].
  destruct o as [d|d sch|d|k id|]; cbn [step] in Hstep.
  - injection Hstep as <- <-. cbn [connected registered expected delivered filter map app].
    rewrite inN_addN. rewrite (N.eqb_sym c d). destruct (N.eqb d c); cbn [orb]; reflexivity.
  - cbn [expected]. destruct (inN d (connected s) && sch) eqn:Hc; injection Hstep as <- <-;
      cbn [connected registered delivered filter map app].
    + rewrite inN_addN. rewrite (N.eqb_sym c d). apply andb_prop in Hc. destruct Hc as [Hc ->].
      destruct (N.eqb d c) eqn:E; cbn [orb andb]; [|reflexivity].
      apply N.eqb_eq in E. subst d. rewrite Hc. reflexivity.
    + destruct (N.eqb d c) eqn:E; cbn [andb]; [|reflexivity].
      apply N.eqb_eq in E. subst d.
      destruct (inN c (connected s)); cbn [andb] in Hc |- *; [rewrite Hc|]; reflexivity.
  - injection Hstep as <- <-. cbn [connected registered expected delivered filter map app].
    rewrite !inN_removeN. rewrite (N.eqb_sym c d). destruct (N.eqb d c); cbn [negb andb]; reflexivity.
  - destruct k; injection Hstep as <- <-; cbn [expected]; [|reflexivity|reflexivity].
    rewrite (delivered_fanout c id _ Hnd). destruct (inN c (registered s)); reflexivity.
  - injection Hstep as <- <-. reflexivity.
Qed.

Lemma wf_init : wf init.
Proof. split; [constructor|]. cbn. discriminate. Qed.

Corollary delivered_from_start h c : delivered c (run init h) = expected c false false h.
Proof. exact (delivered_is_expected h init c wf_init). Qed.

(** the specification looks at nothing but the client's own operations and the backend *)
Lemma expected_concerns c h : forall conn reg, expected c conn reg h = expected c conn reg (filter (concerns c) h).
Proof.
  induction h as [|o r IH]; intros conn reg; [reflexivity|].
  destruct o as [d|d sch|d|k id|]; cbn [filter concerns expected].
  - destruct (N.eqb d c) eqn:E; cbn [expected]; [rewrite E|]; apply IH.
  - destruct (N.eqb d c) eqn:E; cbn [expected andb]; [rewrite E; cbn [andb]; destruct (conn && sch)|]; apply IH.
  - destruct (N.eqb d c) eqn:E; cbn [expected]; [rewrite E|]; apply IH.
  - destruct k; cbn [expected]; [destruct reg; [f_equal|]|..]; apply IH.
  - apply IH.
Qed.

Theorem other_clients_do_not_matter h1 h2 c :
  filter (concerns c) h1 = filter (concerns c) h2 ->
  delivered c (run init h1) = delivered c (run init h2).
Proof.
  intro H. rewrite !delivered_from_start, (expected_concerns c h1), (expected_concerns c h2), H. reflexivity.
Qed.

(** a client that never registered for schema changes receives nothing *)
Lemma expected_unregistered c h : forall conn,
  (forall d, In (ORegister d true) h -> d <> c) -> expected c conn false h = [].
Proof.
  induction h as [|o r IH]; intros conn Hno; [reflexivity|].
  assert (Hr : forall d, In (ORegister d true) r -> d <> c) by (intros d Hd; apply Hno; right; exact Hd).
  destruct o as [d|d sch|d|k id|]; cbn [expected].
  - destruct (N.eqb d c); apply IH; exact Hr.
  - destruct (N.eqb_spec d c) as [->|]; cbn [andb]; [|apply IH; exact Hr].
    destruct sch; [exfalso; apply (Hno c); [left; reflexivity|reflexivity]|].
    rewrite andb_false_r. apply IH; exact Hr.
  - destruct (N.eqb d c); apply IH; exact Hr.
  - destruct k; apply IH; exact Hr.
  - apply IH; exact Hr.
Qed.

Theorem never_registered_receives_nothing h c :
  (forall d, In (ORegister d true) h -> d <> c) -> delivered c (run init h) = [].
Proof. intro H. rewrite delivered_from_start. apply expected_unregistered. exact H. Qed.

(** only schema events are ever forwarded, each at most once per client, in the backend's order:
    what a client receives is a subsequence of the schema events of the history *)
Fixpoint schema_ids (h : list op) : list N :=
  match h with
  | [] => []
  | OBackend KSchema id :: r => id :: schema_ids r
  | _ :: r => schema_ids r
  end.

Inductive sublist {A} : list A -> list A -> Prop :=
| sub_nil : sublist [] []
| sub_skip x a b : sublist a b -> sublist a (x :: b)
| sub_take x a b : sublist a b -> sublist (x :: a) (x :: b).

Lemma expected_sublist c h : forall conn reg, sublist (expected c conn reg h) (schema_ids h).
Proof.
  induction h as [|o r IH]; intros conn reg; [constructor|].
  destruct o as [d|d sch|d|k id|]; cbn [expected schema_ids].
  - destruct (N.eqb d c); apply IH.
  - destruct (N.eqb d c && conn && sch); apply IH.
  - destruct (N.eqb d c); apply IH.
  - destruct k; [destruct reg; constructor|..]; apply IH.
  - apply IH.
Qed.

Theorem only_schema_events_at_most_once h c : sublist (delivered c (run init h)) (schema_ids h).
Proof. rewrite delivered_from_start. apply expected_sublist. Qed.

(** a client registered throughout a stretch of the history receives every schema event of it *)
Lemma expected_registered_stretch c h : forall conn,
  (forall o, In o h -> o <> ODisconnect c) -> expected c conn true h = schema_ids h.
Proof.
  induction h as [|o r IH]; intros conn Hno; [reflexivity|].
  assert (Hr : forall o', In o' r -> o' <> ODisconnect c) by (intros o' Ho'; apply Hno; right; exact Ho').
  destruct o as [d|d sch|d|k id|]; cbn [expected schema_ids].
  - destruct (N.eqb d c); apply IH; exact Hr.
  - destruct (N.eqb d c && conn && sch); apply IH; exact Hr.
  - destruct (N.eqb_spec d c) as [->|]; [exfalso; apply (Hno (ODisconnect c)); [left; reflexivity|reflexivity]|].
    apply IH; exact Hr.
  - destruct k; [f_equal|..]; apply IH; exact Hr.
  - apply IH; exact Hr.
Qed.

Theorem registered_client_receives_every_schema_event h1 h2 c :
  (forall o, In o h2 -> o <> ODisconnect c) ->
  delivered c (run init (h1 ++ [OConnect c; ORegister c true] ++ h2))
  = delivered c (run init h1) ++ schema_ids h2.
Proof.
  intro Hno. rewrite !delivered_from_start.
  assert (Happ : forall h conn reg, expected c conn reg (h ++ [OConnect c; ORegister c true] ++ h2)
                                  = expected c conn reg h ++ schema_ids h2).
  { induction h as [|o r IH]; intros conn reg.
    - cbn [app expected]. rewrite N.eqb_refl. cbn [andb]. apply expected_registered_stretch. exact Hno.
    - destruct o as [d|d sch|d|k id|]; cbn [app expected].
      + destruct (N.eqb d c); apply IH.
      + destruct (N.eqb d c && conn && sch); apply IH.
      + destruct (N.eqb d c); apply IH.
      + destruct k; [destruct reg; [cbn [app]; f_equal|]|..]; apply IH.
      + apply IH. }
  apply Happ.
Qed.
