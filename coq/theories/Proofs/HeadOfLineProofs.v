(** Proofs about Model/HeadOfLine.v *)
From Coq Require Import List Arith NArith Bool Lia.
From CqlProxy Require Import Model.HeadOfLine.
Import ListNotations.
Local Open Scope nat_scope.

Lemma qlen_qset_same c n qs : qlen c (qset c n qs) = n.
Proof. unfold qlen, qset. cbn [find fst]. rewrite N.eqb_refl. reflexivity. Qed.

Lemma qlen_qset_other c d n qs : c <> d -> qlen d (qset c n qs) = qlen d qs.
Proof.
  intros Hne. unfold qlen, qset. cbn [find fst].
  destruct (N.eqb_spec c d) as [->|_]; [contradiction|].
  induction qs as [|[k v] r IH]; [reflexivity|]. cbn [filter fst].
  destruct (N.eqb_spec k c) as [->|Hk]; cbn [negb].
  - cbn [find fst]. destruct (N.eqb_spec c d) as [->|_]; [contradiction|]. exact IH.
  - cbn [find fst]. destruct (N.eqb k d); [reflexivity|exact IH].
Qed.

(** a queue only shrinks by its own client's reads *)
Lemma step_qlen_not_drained cap s st c :
  (match st with HDrain d => d <> c | HRead => True end) -> qlen c (queues s) <= qlen c (queues (step cap s st)).
Proof.
  intros Hst. unfold step. destruct (enabled cap s st) eqn:He; cbn [negb]; [|lia].
  destruct st as [|d].
  - destruct (backend s) as [|b r] eqn:Hb; [lia|]. cbn [queues].
    destruct (N.eq_dec b c) as [->|Hne]; [rewrite qlen_qset_same; lia|rewrite (qlen_qset_other b c) by exact Hne; lia].
  - cbn [queues]. rewrite (qlen_qset_other d c) by exact Hst. lia.
Qed.

(** the wedge: the oldest answer is for a client whose queue is full and who does not read -> the reader is blocked for good *)
Definition wedged (cap : nat) (c : N) (s : hstate) : Prop :=
  (exists r, backend s = c :: r) /\ cap <= qlen c (queues s).

Lemma wedged_step cap c s st :
  wedged cap c s -> (match st with HDrain d => d <> c | HRead => True end) ->
  wedged cap c (step cap s st) /\ backend (step cap s st) = backend s.
Proof.
  intros [[r Hb] Hq] Hst. destruct st as [|d].
  - assert (He : enabled cap s HRead = false).
    { unfold enabled. rewrite Hb. apply Nat.ltb_ge. exact Hq. }
    unfold step. rewrite He. cbn [negb]. split; [split; [exists r; exact Hb|exact Hq]|reflexivity].
  - split; [split|].
    + exists r. unfold step. destruct (enabled cap s (HDrain d)); cbn [negb backend]; exact Hb.
    + pose proof (step_qlen_not_drained cap s (HDrain d) c Hst). lia.
    + unfold step. destruct (enabled cap s (HDrain d)); reflexivity.
Qed.

Theorem wedged_forever cap c s sts :
  wedged cap c s -> never_drains c sts = true -> wedged cap c (run cap s sts) /\ backend (run cap s sts) = backend s.
Proof.
  revert s. induction sts as [|st r IH]; intros s Hw Hn; [split; [exact Hw|reflexivity]|].
  cbn [never_drains forallb] in Hn. apply andb_prop in Hn. destruct Hn as [Hst Hr].
  assert (Hst' : match st with HDrain d => d <> c | HRead => True end).
  { destruct st as [|d]; [exact I|]. intros ->. rewrite N.eqb_refl in Hst. discriminate. }
  destruct (wedged_step cap c s st Hw Hst') as [Hw' Hb'].
  cbn [run fold_left]. destruct (IH (step cap s st) Hw' Hr) as [H1 H2]. split; [exact H1|].
  unfold run in H2. rewrite H2. exact Hb'.
Qed.

(** what reaches a client is only what the reader has handed over: while the reader is wedged, every answer still on the
    backend socket stays there, whoever it is for *)
Theorem starved_while_a_client_does_not_read cap c s sts d :
  wedged cap c s -> never_drains c sts = true -> In d (backend s) -> In d (backend (run cap s sts)).
Proof. intros Hw Hn Hin. destruct (wedged_forever cap c s sts Hw Hn) as [_ Hb]. rewrite Hb. exact Hin. Qed.

(** the concrete history: capacity 2; two answers for the client that does not read, a third for it, then one for a
    well-behaved client.  Whatever else happens (the well-behaved client reading as much as it likes), its answer is never
    handed over. *)
Definition hol_prefix : list hstep := [HRead; HRead].
Example hol_is_wedged : wedged 2 1%N (run 2 (start [1; 1; 1; 2]%N) hol_prefix).
Proof. split; [exists [2]%N; vm_compute; reflexivity|vm_compute; lia]. Qed.

Theorem a_client_that_does_not_read_starves_the_others_refuted :
  forall sts, never_drains 1%N sts = true ->
    In 2%N (backend (run 2 (run 2 (start [1; 1; 1; 2]%N) hol_prefix) sts)) /\ count 2%N (got (run 2 (run 2 (start [1; 1; 1; 2]%N) hol_prefix) sts)) = O.
Proof.
  intros sts Hn. split.
  - apply (starved_while_a_client_does_not_read 2 1%N _ sts 2%N hol_is_wedged Hn). vm_compute. auto.
  - (* nothing was ever queued for client 2, so nothing can have been written to it *)
    assert (Hinv : forall s l, qlen 2%N (queues s) = O -> count 2%N (got s) = O -> wedged 2 1%N s -> never_drains 1%N l = true ->
                               count 2%N (got (run 2 s l)) = O).
    { intros s l. revert s. induction l as [|st r IH]; intros s Hq Hg Hw Hl; [exact Hg|].
      cbn [never_drains forallb] in Hl. apply andb_prop in Hl. destruct Hl as [Hst Hr].
      assert (Hst' : match st with HDrain d => d <> 1%N | HRead => True end).
      { destruct st as [|d]; [exact I|]. intros ->. discriminate. }
      destruct (wedged_step 2 1%N s st Hw Hst') as [Hw' _].
      cbn [run fold_left]. apply IH; [| |exact Hw'|exact Hr].
      - destruct st as [|d].
        + destruct Hw as [[r0 Hb] Hq1]. unfold step.
          assert (He : enabled 2 s HRead = false) by (unfold enabled; rewrite Hb; apply Nat.ltb_ge; exact Hq1).
          rewrite He. exact Hq.
        + unfold step. destruct (enabled 2 s (HDrain d)) eqn:He; cbn [negb]; [|exact Hq]. cbn [queues].
          destruct (N.eq_dec d 2%N) as [->|Hne].
          * unfold enabled in He. rewrite Hq in He. discriminate.
          * rewrite (qlen_qset_other d 2%N) by exact Hne. exact Hq.
      - destruct st as [|d].
        + unfold step. destruct (enabled 2 s HRead); cbn [negb]; [|exact Hg]. destruct (backend s); exact Hg.
        + unfold step. destruct (enabled 2 s (HDrain d)) eqn:He; cbn [negb]; [|exact Hg]. cbn [got].
          unfold count in *. rewrite filter_app, app_length. cbn [filter].
          destruct (N.eqb_spec 2%N d) as [<-|_]; [|cbn [length]; lia].
          unfold enabled in He. rewrite Hq in He. discriminate. }
    apply Hinv; [vm_compute; reflexivity|vm_compute; reflexivity|exact hol_is_wedged|exact Hn].
Qed.

(** the other side: when every client reads, everything is delivered -- a simple fair schedule (read one, drain it) *)
Fixpoint fair (answers : list N) : list hstep :=
  match answers with [] => [] | c :: r => HRead :: HDrain c :: fair r end.

Lemma fair_two_steps cap c r qs g : 0 < cap -> (forall d, qlen d qs = O) ->
  step cap (step cap {| backend := c :: r; queues := qs; got := g |} HRead) (HDrain c)
  = {| backend := r; queues := qset c 0 (qset c 1 qs); got := g ++ [c] |}.
Proof.
  intros Hcap Hq.
  assert (E1 : step cap {| backend := c :: r; queues := qs; got := g |} HRead
               = {| backend := r; queues := qset c 1 qs; got := g |}).
  { unfold step, enabled. cbn [backend queues got]. rewrite Hq.
    destruct (Nat.ltb_spec 0 cap) as [_|H]; [|lia]. cbn [negb]. reflexivity. }
  rewrite E1. unfold step, enabled. cbn [backend queues got]. rewrite qlen_qset_same. cbn [Nat.ltb Nat.leb negb pred]. reflexivity.
Qed.

Lemma fair_delivers_gen cap answers : 0 < cap -> forall qs g, (forall c, qlen c qs = O) ->
  let s := run cap {| backend := answers; queues := qs; got := g |} (fair answers) in
  got s = g ++ answers /\ backend s = [] /\ forall c, qlen c (queues s) = O.
Proof.
  intros Hcap. induction answers as [|c r IH]; intros qs g Hq.
  - cbn. rewrite app_nil_r. auto.
  - cbn zeta. change (run cap {| backend := c :: r; queues := qs; got := g |} (fair (c :: r)))
      with (run cap (step cap (step cap {| backend := c :: r; queues := qs; got := g |} HRead) (HDrain c)) (fair r)).
    rewrite (fair_two_steps cap c r qs g Hcap Hq).
    assert (Hq' : forall d, qlen d (qset c 0 (qset c 1 qs)) = O).
    { intro d. destruct (N.eq_dec c d) as [->|Hne]; [apply qlen_qset_same|].
      rewrite (qlen_qset_other c d) by exact Hne. rewrite (qlen_qset_other c d) by exact Hne. apply Hq. }
    destruct (IH (qset c 0 (qset c 1 qs)) (g ++ [c]) Hq') as [H1 [H2 H3]].
    split; [rewrite H1, <- app_assoc; reflexivity|split; assumption].
Qed.

Theorem everything_is_delivered_when_every_client_reads cap answers : 0 < cap ->
  got (run cap (start answers) (fair answers)) = answers /\ backend (run cap (start answers) (fair answers)) = [].
Proof.
  intros Hcap. destruct (fair_delivers_gen cap answers Hcap [] [] (fun _ => eq_refl)) as [H1 [H2 _]].
  split; [exact H1|exact H2].
Qed.
