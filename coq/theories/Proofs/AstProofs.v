(** * AstProofs: soundness of the idempotency classifier against the grammar of Model/Ast.v.

    - [classifier_exact]: on the tokens of a well-formed statement the classifier's verdict is
      exactly [cls_stmt], and a positive verdict comes without error;
    - [cls_sound]: [cls_stmt] implies the documented ground truth [doc_idem_stmt];
    - [classifier_sound], [classifier_accepts_plain]: the two headline theorems. *)
From Coq Require Import List NArith Bool Lia Arith.
From CqlProxy Require Import Lib.Val Lib.Util Lib.Regex Gen.LexRules Gen.Tables Model.Lexer Model.Parser Model.Ast
  Proofs.AstBase Proofs.AstTermSim Proofs.AstClauseSim Proofs.AstStmtSim.
Import ListNotations.

(** ** the classifier computes [cls_stmt] *)
Theorem classifier_exact st : wf_stmt st -> vsim (is_idempotent_tokens (tokens_of_stmt st)) (cls_stmt st).
Proof.
  intro W. unfold wf_stmt in W. unfold is_idempotent_tokens.
  set (ts := tokens_of_stmt st). cbv zeta. change (N.to_nat max_nesting_depth) with FUEL.
  rewrite init_mk.
  assert (H : skipn 0 ts = tokens_of_stmt st ++ []) by (rewrite app_nil_r; reflexivity).
  assert (Hlen : length (tokens_of_stmt st ++ []) <= S (length ts)) by (rewrite app_nil_r; subst ts; lia).
  destruct st as [d|k u ch semi|tl]; cbn [wf_stmt_b cls_stmt] in *.
  - (* a single DML statement *)
    cbn [tokens_of_stmt] in H, Hlen. unfold tokens_of_dml in H, Hlen. rewrite <- app_assoc in H, Hlen.
    destruct (dml_body_hd d (tokens_of_semi (dml_semi d) ++ [])) as (l & E).
    pose proof H as H'. rewrite E in H'. step.
    assert (Ht : is_dml_terminator (hd_code (tokens_of_semi (dml_semi d) ++ [])) = true) by (destruct (dml_semi d); reflexivity).
    pose proof (dml_sim ts (S (length ts)) (S (length ts)) d 0 0 _ W H Hlen Hlen Ht) as R. unfold ssim in R.
    assert (Hfin : forall r : SRes,
              (if cls_dml d then exists p' m', skipn p' ts = tokens_of_semi (dml_semi d) ++ [] /\
                   r = (true, hd_code (tokens_of_semi (dml_semi d) ++ []), 0%N, mk ts (adv (tokens_of_semi (dml_semi d) ++ []) p') m')
               else fst (fst (fst r)) = false) ->
              vsim (let '(idem, t', e, _) := r in (idem && ((t' =? tkEOF) || (t' =? tkEOS))%N, e)) (cls_dml d)).
    { intros r Hr. unfold vsim. destruct (cls_dml d).
      - destruct Hr as (p' & m' & _ & Er). rewrite Er. destruct (dml_semi d); reflexivity.
      - destruct r as [[[i t'] e] s]. cbn in Hr. subst. reflexivity. }
    destruct d; cbn [dml_head run_dml] in *; simp; apply Hfin; exact R.
  - (* BATCH *)
    pose proof H as H'. cbn [tokens_of_stmt app] in H'. step.
    exact (batch_sim ts (S (length ts)) (S (length ts)) k u ch semi 0 0 [] W H Hlen Hlen).
  - (* SELECT *)
    cbn [tokens_of_stmt app] in H. step. reflexivity.
Qed.

(** ** [cls_stmt] implies the documented verdict *)
Lemma cls_term_sound :
  (forall t, cls_term t = true -> has_nonidem_call t = false) /\
  (forall es, cls_terms es = true -> has_call_terms es = false) /\
  (forall es, cls_entries es = true -> has_call_entries es = false) /\
  (forall es, cls_fields es = true -> has_call_fields es = false) /\
  (forall es, cls_fargs es = true -> has_call_fargs es = false).
Proof.
  apply term_mutind; cbn [cls_term cls_terms cls_entries cls_fields cls_fargs
                           has_nonidem_call has_call_terms has_call_entries has_call_fields has_call_fargs];
    try (intros; reflexivity); try (intros; auto; fail).
  - (* TFun *) intros ks name args IH H. apply andb_true_iff in H. destruct H as [Ha Hn].
    rewrite (IH Ha), orb_false_r. apply negb_true_iff in Hn.
    unfold names_nonidem_function. unfold is_non_idempotent_func in Hn.
    destruct (existsb (ident_equal (ident_of_lexed name)) non_idempotent_funcs); [|reflexivity].
    cbn [andb] in *. destruct ks as [k|]; cbn [ks_ident] in Hn.
    + apply orb_false_iff in Hn. apply Hn.
    + cbn in Hn. discriminate.
  - intros e IHe r IHr H. apply andb_true_iff in H. destruct H as [A B]. rewrite (IHe A), (IHr B). reflexivity.
  - intros k IHk v IHv r IHr H. apply andb_true_iff in H. destruct H as [AB C]. apply andb_true_iff in AB.
    destruct AB as [A B]. rewrite (IHk A), (IHv B), (IHr C). reflexivity.
  - intros f v IHv r IHr H. apply andb_true_iff in H. destruct H as [A B]. rewrite (IHv A), (IHr B). reflexivity.
  - intros e IHe r IHr H. apply andb_true_iff in H. destruct H as [A B]. rewrite (IHe A), (IHr B). reflexivity.
Qed.

Lemma cls_term_doc t : cls_term t = true -> doc_idem_term t = true.
Proof. intro H. unfold doc_idem_term. rewrite (proj1 cls_term_sound t H). reflexivity. Qed.
Lemma cls_terms_doc es : cls_terms es = true -> negb (has_call_terms es) = true.
Proof. intro H. rewrite (proj1 (proj2 cls_term_sound) es H). reflexivity. Qed.

Lemma cls_relation_doc r : cls_relation r = true -> doc_idem_relation r = true.
Proof.
  induction r; cbn [cls_relation doc_idem_relation]; intro H;
    try reflexivity; try (apply cls_term_doc, H); try (apply cls_terms_doc, H); try (apply IHr, H).
  apply andb_true_iff in H. destruct H as [A B]. rewrite (cls_term_doc _ A), (cls_term_doc _ B). reflexivity.
Qed.

(** the classifier's term types against the syntax *)
Lemma update_type_curly t : idem_update_op_type (type_of t) = true -> is_curly_or_tuple_literal t = true.
Proof. destruct t; cbn; intro H; try reflexivity; discriminate. Qed.
Lemma delete_type_index t : idem_delete_element_type (type_of t) = true -> is_list_index_like t = false.
Proof. destruct t; cbn; intro H; try reflexivity; discriminate. Qed.

Lemma cls_update_op_doc o : cls_update_op o = true -> doc_idem_update_op o = true.
Proof.
  destruct o; cbn [cls_update_op doc_idem_update_op]; intro H;
    try (apply cls_term_doc, H);
    apply andb_true_iff in H; destruct H as [A B];
    try (rewrite (cls_term_doc _ A), (update_type_curly _ B); reflexivity).
  rewrite (cls_term_doc _ A), (cls_term_doc _ B). reflexivity.
Qed.

Lemma cls_delete_op_doc o : cls_delete_op o = true -> doc_idem_delete_op o = true.
Proof.
  destruct o; cbn [cls_delete_op doc_idem_delete_op]; intro H; try reflexivity.
  apply andb_true_iff in H. destruct H as [A B]. rewrite (cls_term_doc _ A), (delete_type_index _ B). reflexivity.
Qed.

Lemma forallb_impl {A} (f g : A -> bool) l : (forall x, f x = true -> g x = true) -> forallb f l = true -> forallb g l = true.
Proof.
  intro Hfg. induction l as [|a l IH]; cbn; [reflexivity|]. intro H. apply andb_true_iff in H. destruct H as [Ha Hl].
  rewrite (Hfg a Ha), (IH Hl). reflexivity.
Qed.

Lemma cls_dml_doc d : cls_dml d = true -> doc_idem_dml d = true.
Proof.
  destruct d; cbn [cls_dml doc_idem_dml]; intro H.
  - apply andb_true_iff in H. destruct H as [A B]. rewrite (cls_terms_doc _ A), B. reflexivity.
  - exact H.
  - apply andb_true_iff in H. destruct H as [AB C]. apply andb_true_iff in AB. destruct AB as [A B].
    rewrite (forallb_impl _ _ _ cls_update_op_doc A), (forallb_impl _ _ _ cls_relation_doc B), C. reflexivity.
  - apply andb_true_iff in H. destruct H as [AB C]. apply andb_true_iff in AB. destruct AB as [A B].
    rewrite (forallb_impl _ _ _ cls_delete_op_doc A), (forallb_impl _ _ _ cls_relation_doc B), C. reflexivity.
Qed.

Theorem cls_sound st : cls_stmt st = true -> doc_idem_stmt st = true.
Proof.
  destruct st as [d|k u ch semi|tl]; cbn [cls_stmt doc_idem_stmt]; intro H.
  - apply cls_dml_doc, H.
  - destruct k; try discriminate; apply (forallb_impl _ _ _ cls_dml_doc H).
  - reflexivity.
Qed.

(** ** the plain class is accepted *)
Lemma plain_term_cls :
  (forall t, plain_term t = true -> cls_term t = true) /\
  (forall es, plain_terms es = true -> cls_terms es = true) /\
  (forall es, plain_entries es = true -> cls_entries es = true) /\
  (forall es, plain_fields es = true -> cls_fields es = true) /\
  (forall es : fargs, True).
Proof.
  apply term_mutind; cbn [plain_term plain_terms plain_entries plain_fields cls_term cls_terms cls_entries cls_fields];
    try (intros; reflexivity); try (intros; auto; fail); try (intros; discriminate).
  - intros e IHe r IHr H. apply andb_true_iff in H. destruct H as [A B]. rewrite (IHe A), (IHr B). reflexivity.
  - intros k IHk v IHv r IHr H. apply andb_true_iff in H. destruct H as [AB C]. apply andb_true_iff in AB.
    destruct AB as [A B]. rewrite (IHk A), (IHv B), (IHr C). reflexivity.
  - intros f v IHv r IHr H. apply andb_true_iff in H. destruct H as [A B]. rewrite (IHv A), (IHr B). reflexivity.
Qed.

Lemma plain_relation_cls r : plain_relation r = true -> cls_relation r = true.
Proof.
  induction r; cbn [cls_relation plain_relation]; intro H;
    try reflexivity; try (apply (proj1 plain_term_cls), H); try (apply (proj1 (proj2 plain_term_cls)), H); try (apply IHr, H).
  apply andb_true_iff in H. destruct H as [A B].
  rewrite (proj1 plain_term_cls _ A), (proj1 plain_term_cls _ B). reflexivity.
Qed.

Lemma set_map_type t : is_set_or_map_literal t = true -> idem_update_op_type (type_of t) = true.
Proof. destruct t; cbn; intro H; try discriminate; reflexivity. Qed.
Lemma not_index_type t : plain_term t = true -> is_list_index_like t = false -> idem_delete_element_type (type_of t) = true.
Proof. destruct t; cbn; intros P H; try discriminate; reflexivity. Qed.

Lemma plain_update_op_cls o : plain_update_op o = true -> cls_update_op o = true.
Proof.
  destruct o; cbn [cls_update_op plain_update_op]; intro H; try discriminate;
    try (apply (proj1 plain_term_cls), H);
    apply andb_true_iff in H; destruct H as [A B];
    try (rewrite (proj1 plain_term_cls _ A), (set_map_type _ B); reflexivity).
  rewrite (proj1 plain_term_cls _ A), (proj1 plain_term_cls _ B). reflexivity.
Qed.

Lemma plain_delete_op_cls o : plain_delete_op o = true -> cls_delete_op o = true.
Proof.
  destruct o; cbn [cls_delete_op plain_delete_op]; intro H; try reflexivity.
  apply andb_true_iff in H. destruct H as [A B]. apply negb_true_iff in B.
  rewrite (proj1 plain_term_cls _ A), (not_index_type _ A B). reflexivity.
Qed.

Lemma plain_dml_cls d : plain_dml d = true -> cls_dml d = true.
Proof.
  destruct d; cbn [cls_dml plain_dml]; intro H.
  - apply andb_true_iff in H. destruct H as [A B]. rewrite (proj1 (proj2 plain_term_cls) _ A), B. reflexivity.
  - exact H.
  - apply andb_true_iff in H. destruct H as [AB C]. apply andb_true_iff in AB. destruct AB as [A B].
    rewrite (forallb_impl _ _ _ plain_update_op_cls A), (forallb_impl _ _ _ plain_relation_cls B), C. reflexivity.
  - apply andb_true_iff in H. destruct H as [AB C]. apply andb_true_iff in AB. destruct AB as [A B].
    rewrite (forallb_impl _ _ _ plain_delete_op_cls A), (forallb_impl _ _ _ plain_relation_cls B), C. reflexivity.
Qed.

Theorem plain_cls st : plain_stmt st = true -> cls_stmt st = true.
Proof.
  destruct st as [d|k u ch semi|tl]; cbn [cls_stmt plain_stmt]; intro H.
  - apply plain_dml_cls, H.
  - destruct k; try discriminate; apply (forallb_impl _ _ _ plain_dml_cls H).
  - reflexivity.
Qed.

(** ** the headline theorems *)
Theorem classifier_sound : forall st, wf_stmt st ->
  fst (is_idempotent_tokens (tokens_of_stmt st)) = true -> doc_idem_stmt st = true.
Proof.
  intros st W H. apply cls_sound. pose proof (classifier_exact st W) as E. unfold vsim in E.
  destruct (cls_stmt st); [reflexivity|congruence].
Qed.

Theorem classifier_accepts_plain : forall st, wf_stmt st -> plain_stmt st = true ->
  is_idempotent_tokens (tokens_of_stmt st) = (true, 0%N).
Proof.
  intros st W P. pose proof (classifier_exact st W) as E. unfold vsim in E.
  rewrite (plain_cls st P) in E. exact E.
Qed.

(** the verdict as a function of the syntax *)
Theorem classifier_verdict : forall st, wf_stmt st ->
  fst (is_idempotent_tokens (tokens_of_stmt st)) = cls_stmt st.
Proof.
  intros st W. pose proof (classifier_exact st W) as E. unfold vsim in E.
  destruct (cls_stmt st); [rewrite E; reflexivity|exact E].
Qed.

(** ** completeness: outside the empty-keyspace corner the documented verdict implies [cls_stmt] *)
Lemma doc_term_cls :
  (forall t, noemptyks_term t = true -> has_nonidem_call t = false -> cls_term t = true) /\
  (forall es, noemptyks_terms es = true -> has_call_terms es = false -> cls_terms es = true) /\
  (forall es, noemptyks_entries es = true -> has_call_entries es = false -> cls_entries es = true) /\
  (forall es, noemptyks_fields es = true -> has_call_fields es = false -> cls_fields es = true) /\
  (forall es, noemptyks_fargs es = true -> has_call_fargs es = false -> cls_fargs es = true).
Proof.
  apply term_mutind; cbn [cls_term cls_terms cls_entries cls_fields cls_fargs
                           noemptyks_term noemptyks_terms noemptyks_entries noemptyks_fields noemptyks_fargs
                           has_nonidem_call has_call_terms has_call_entries has_call_fields has_call_fargs];
    try (intros; reflexivity); try (intros; auto; fail).
  - (* TFun *) intros ks name args IH K H. apply andb_true_iff in K. destruct K as [K1 K2].
    apply orb_false_iff in H. destruct H as [H1 H2]. rewrite (IH K2 H2). cbn [andb]. apply negb_true_iff.
    unfold names_nonidem_function in H1. unfold is_non_idempotent_func.
    destruct (existsb (ident_equal (ident_of_lexed name)) non_idempotent_funcs); [|reflexivity].
    cbn [andb] in *. destruct ks as [k|]; cbn [ks_ident ks_not_empty] in *.
    + apply negb_true_iff in K1. rewrite K1, H1. reflexivity.
    + discriminate.
  - intros e IHe r IHr K H. apply andb_true_iff in K. destruct K as [K1 K2].
    apply orb_false_iff in H. destruct H as [H1 H2]. rewrite (IHe K1 H1), (IHr K2 H2). reflexivity.
  - intros k IHk v IHv r IHr K H. apply andb_true_iff in K. destruct K as [K12 K3]. apply andb_true_iff in K12.
    destruct K12 as [K1 K2]. apply orb_false_iff in H. destruct H as [H12 H3]. apply orb_false_iff in H12.
    destruct H12 as [H1 H2]. rewrite (IHk K1 H1), (IHv K2 H2), (IHr K3 H3). reflexivity.
  - intros f v IHv r IHr K H. apply andb_true_iff in K. destruct K as [K1 K2].
    apply orb_false_iff in H. destruct H as [H1 H2]. rewrite (IHv K1 H1), (IHr K2 H2). reflexivity.
  - intros e IHe r IHr K H. apply andb_true_iff in K. destruct K as [K1 K2].
    apply orb_false_iff in H. destruct H as [H1 H2]. rewrite (IHe K1 H1), (IHr K2 H2). reflexivity.
Qed.

Lemma doc_term_cls1 t : noemptyks_term t = true -> doc_idem_term t = true -> cls_term t = true.
Proof. unfold doc_idem_term. intros K H. apply negb_true_iff in H. exact (proj1 doc_term_cls t K H). Qed.
Lemma doc_terms_cls1 es : noemptyks_terms es = true -> negb (has_call_terms es) = true -> cls_terms es = true.
Proof. intros K H. apply negb_true_iff in H. exact (proj1 (proj2 doc_term_cls) es K H). Qed.

Lemma doc_relation_cls r : noemptyks_relation r = true -> doc_idem_relation r = true -> cls_relation r = true.
Proof.
  induction r; cbn [cls_relation doc_idem_relation noemptyks_relation]; intros K H;
    try reflexivity; try (apply doc_term_cls1; assumption); try (apply doc_terms_cls1; assumption); try (apply IHr; assumption).
  apply andb_true_iff in K. destruct K as [K1 K2]. apply andb_true_iff in H. destruct H as [A B].
  rewrite (doc_term_cls1 _ K1 A), (doc_term_cls1 _ K2 B). reflexivity.
Qed.

Lemma curly_update_type t : is_curly_or_tuple_literal t = true -> idem_update_op_type (type_of t) = true.
Proof. destruct t; cbn; intro H; try discriminate; reflexivity. Qed.
Lemma index_delete_type t : is_list_index_like t = false -> idem_delete_element_type (type_of t) = true.
Proof. destruct t; cbn; intro H; try discriminate; reflexivity. Qed.

Lemma doc_update_op_cls o : noemptyks_update_op o = true -> doc_idem_update_op o = true -> cls_update_op o = true.
Proof.
  destruct o; cbn [cls_update_op doc_idem_update_op noemptyks_update_op]; intros K H;
    try (apply doc_term_cls1; assumption);
    apply andb_true_iff in H; destruct H as [A B];
    try (rewrite (doc_term_cls1 _ K A), (curly_update_type _ B); reflexivity).
  apply andb_true_iff in K. destruct K as [K1 K2]. rewrite (doc_term_cls1 _ K1 A), (doc_term_cls1 _ K2 B). reflexivity.
Qed.

Lemma doc_delete_op_cls o : noemptyks_delete_op o = true -> doc_idem_delete_op o = true -> cls_delete_op o = true.
Proof.
  destruct o; cbn [cls_delete_op doc_idem_delete_op noemptyks_delete_op]; intros K H; try reflexivity.
  apply andb_true_iff in H. destruct H as [A B]. apply negb_true_iff in B.
  rewrite (doc_term_cls1 _ K A), (index_delete_type _ B). reflexivity.
Qed.

Lemma forallb_impl2 {A} (k f g : A -> bool) l :
  (forall x, k x = true -> f x = true -> g x = true) -> forallb k l = true -> forallb f l = true -> forallb g l = true.
Proof.
  intro Hfg. induction l as [|a l IH]; cbn; [reflexivity|]. intros K H.
  apply andb_true_iff in K. destruct K as [Ka Kl]. apply andb_true_iff in H. destruct H as [Ha Hl].
  rewrite (Hfg a Ka Ha), (IH Kl Hl). reflexivity.
Qed.

Lemma doc_dml_cls d : noemptyks_dml d = true -> doc_idem_dml d = true -> cls_dml d = true.
Proof.
  destruct d; cbn [cls_dml doc_idem_dml noemptyks_dml]; intros K H.
  - apply andb_true_iff in H. destruct H as [A B]. rewrite (doc_terms_cls1 _ K A), B. reflexivity.
  - exact H.
  - apply andb_true_iff in K. destruct K as [K1 K2].
    apply andb_true_iff in H. destruct H as [AB C]. apply andb_true_iff in AB. destruct AB as [A B].
    rewrite (forallb_impl2 _ _ _ _ doc_update_op_cls K1 A), (forallb_impl2 _ _ _ _ doc_relation_cls K2 B), C. reflexivity.
  - apply andb_true_iff in K. destruct K as [K1 K2].
    apply andb_true_iff in H. destruct H as [AB C]. apply andb_true_iff in AB. destruct AB as [A B].
    rewrite (forallb_impl2 _ _ _ _ doc_delete_op_cls K1 A), (forallb_impl2 _ _ _ _ doc_relation_cls K2 B), C. reflexivity.
Qed.

Theorem doc_cls st : noemptyks_stmt st = true -> doc_idem_stmt st = true -> cls_stmt st = true.
Proof.
  destruct st as [d|k u ch semi|tl]; cbn [cls_stmt doc_idem_stmt noemptyks_stmt]; intros K H.
  - apply doc_dml_cls; assumption.
  - destruct k; try discriminate; apply (forallb_impl2 _ _ _ _ doc_dml_cls K H).
  - reflexivity.
Qed.

(** The classifier decides exactly the documented property, outside the empty-keyspace corner. *)
Theorem classifier_complete : forall st, wf_stmt st -> noemptyks_stmt st = true ->
  doc_idem_stmt st = true -> is_idempotent_tokens (tokens_of_stmt st) = (true, 0%N).
Proof.
  intros st W K D. pose proof (classifier_exact st W) as E. unfold vsim in E.
  rewrite (doc_cls st K D) in E. exact E.
Qed.

Theorem classifier_decides_documented : forall st, wf_stmt st -> noemptyks_stmt st = true ->
  fst (is_idempotent_tokens (tokens_of_stmt st)) = doc_idem_stmt st.
Proof.
  intros st W K. destruct (doc_idem_stmt st) eqn:D.
  - rewrite (classifier_complete st W K D). reflexivity.
  - destruct (fst (is_idempotent_tokens (tokens_of_stmt st))) eqn:F; [|reflexivity].
    rewrite (classifier_sound st W F) in D. discriminate.
Qed.

(** ** non-vacuity: concrete well-formed statements *)
Definition S_ (s : String.string) : bytes := str s.

(** BEGIN BATCH INSERT ... VALUES ([{1: now()}], ?) USING TTL 1; UPDATE ks.t SET s = s + {1}, x = (map<int, text>) system.f(c, 1)
    WHERE k = 1 AND ((a, b) IN ((1, 1))) APPLY BATCH *)
Definition ex_deep_now : stmt :=
  SBatch BLogged None
    [ DInsert (None, S_ "t") [S_ "a"; S_ "b"]
        (TCons (TList (TCons (TMap (ECons TInt (TFun None (S_ "now") ANil) ENil)) TNil)) (TCons (TBind BQ) TNil))
        None (Some (UTtl UVInt, None)) true;
      DUpdate (Some (S_ "ks"), S_ "t") None
        [ UAdd (S_ "s") (S_ "s") (TSet (TCons TInt TNil));
          USet (S_ "x") (TCast (CParam (S_ "map") [S_ "int"; S_ "text"])
                          (TFun (Some (S_ "system")) (S_ "f") (AIdent (S_ "c") (ATerm TInt ANil)))) ]
        [ RCmp (S_ "k") OEq TInt;
          RParen (RTuple [S_ "a"; S_ "b"] None (TCons (TTuple (TCons TInt (TCons TInt TNil))) TNil)) ]
        None false ] false.

Example ex_deep_now_tokens :
  tokens_of_stmt ex_deep_now =
  tokenize (str "BEGIN BATCH INSERT INTO t (a, b) VALUES ([{1: now()}], ?) USING TTL 1; UPDATE ks.t SET s = s + {1}, x = (map<int, text>) system.f(c, 1) WHERE k = 1 AND ((a, b) IN ((1, 1))) APPLY BATCH").
Proof. vm_compute. reflexivity. Qed.

Example ex_deep_now_verdicts :
  wf_stmt_b ex_deep_now = true /\ is_idempotent_tokens (tokens_of_stmt ex_deep_now) = (false, 0%N) /\
  cls_stmt ex_deep_now = false /\ doc_idem_stmt ex_deep_now = false.
Proof. vm_compute. repeat split; reflexivity. Qed.

(** the same batch with uuid() replaced by a bind marker is idempotent although it is not plain (cast, call) *)
Definition ex_deep_ok : stmt :=
  SBatch BUnlogged (Some (UTimestamp (UVBind (BN (S_ "ts"))), None))
    [ DInsert (None, S_ "t") [S_ "a"; S_ "b"]
        (TCons (TList (TCons (TMap (ECons TInt (TFun (Some (S_ "ks")) (S_ "now") ANil) ENil)) TNil)) (TCons (TBind BQ) TNil))
        None (Some (UTtl UVInt, None)) true;
      DDelete [DCol (S_ "a"); DIndex (S_ "m") (TPrim tkStringLiteral); DField (S_ "u") (S_ "f")] (None, S_ "t") None
        [ RContains (S_ "s") true (TFun None (S_ "key") (ATerm TInt ANil)); RIsNotNull (S_ "z") ] None false ] true.

Example ex_deep_ok_tokens :
  tokens_of_stmt ex_deep_ok =
  tokenize (str "begin UNLOGGED batch using TIMESTAMP :ts insert into t (a, b) VALUES ([{1: ks.now()}], ?) using TTL 1; delete a, m['x'], u.f from t where s CONTAINS KEY key(1) and z is not null apply batch;").
Proof. vm_compute. reflexivity. Qed.

Example ex_deep_ok_verdicts :
  wf_stmt_b ex_deep_ok = true /\ is_idempotent_tokens (tokens_of_stmt ex_deep_ok) = (true, 0%N) /\
  cls_stmt ex_deep_ok = true /\ doc_idem_stmt ex_deep_ok = true /\ plain_stmt ex_deep_ok = false.
Proof. vm_compute. repeat split; reflexivity. Qed.

(** a plain statement with nested collections *)
Definition ex_plain : stmt :=
  SDml (DUpdate (None, S_ "t") (Some (UTtl UVInt, Some (UTimestamp (UVBind BQ))))
    [ UAdd (S_ "s") (S_ "s") (TSet (TCons TInt (TCons (TPrim tkStringLiteral) TNil)));
      UAddEq (S_ "m") (TMap (ECons (TPrim tkStringLiteral) (TList (TCons (TTuple (TCons TInt (TCons (TBind (BN (S_ "v"))) TNil))) TNil)) ENil));
      USet (S_ "u") (TUdt (FCons (S_ "f") (TSet TNil) (FCons (S_ "g") (TPrim tkNull) FNil)));
      UIndex (S_ "l") TInt (TPrim tkBool) ]
    [ RCmp (S_ "k") OEq (TBind BQ); RIn (S_ "j") (TCons TInt (TCons TInt TNil)) ] None true).

Example ex_plain_tokens :
  tokens_of_stmt ex_plain =
  tokenize (str "UPDATE t USING TTL 5 AND TIMESTAMP ? SET s = s + {1, 'a'}, m += {'k': [(1, :v)]}, u = {f: {}, g: null}, l[0] = true WHERE k = ? AND j IN (1, 2);").
Proof. vm_compute. reflexivity. Qed.

Example ex_plain_verdicts :
  wf_stmt ex_plain /\ plain_stmt ex_plain = true /\ is_idempotent_tokens (tokens_of_stmt ex_plain) = (true, 0%N).
Proof. vm_compute. repeat split; reflexivity. Qed.

(** the hypotheses of the headline theorems are satisfiable on these instances *)
Example classifier_sound_instance : doc_idem_stmt ex_deep_ok = true.
Proof. apply classifier_sound; vm_compute; reflexivity. Qed.
Example classifier_accepts_plain_instance : is_idempotent_tokens (tokens_of_stmt ex_plain) = (true, 0%N).
Proof. apply classifier_accepts_plain; vm_compute; reflexivity. Qed.

(** ** each well-formedness restriction is necessary: without it the classifier's verdict on the
    printed tokens differs from [cls_stmt] (the statement is refused by a parse error, or read as
    different syntax) *)
Definition ins1 (t : term) : stmt := SDml (DInsert (None, S_ "t") [S_ "a"] (TCons t TNil) None None false).

(** W3: INSERT INTO t (a) VALUES ((f(1), 2)) -- "(f" is read as a cast *)
Example w3_needed : let st := ins1 (TTuple (TCons (TFun None (S_ "f") (ATerm TInt ANil)) (TCons TInt TNil))) in
  wf_stmt_b st = false /\ cls_stmt st = true /\ doc_idem_stmt st = true /\
  is_idempotent_tokens (tokens_of_stmt st) = (false, 1%N).
Proof. vm_compute. repeat split; reflexivity. Qed.

(** W4: DELETE FROM t WHERE c CONTAINS KEY(1) -- the call KEY(1) prints the same tokens as CONTAINS KEY (1),
    i.e. the call's argument list is read as a tuple literal *)
Example w4_needed :
  let st := SDml (DDelete [] (None, S_ "t") None [RContains (S_ "c") false (TFun None (S_ "KEY") (ATerm TInt ANil))] None false) in
  wf_stmt_b st = false /\ tokens_of_stmt st = tokenize (str "DELETE FROM t WHERE c CONTAINS KEY(1)") /\
  tokens_of_stmt st =
  tokens_of_stmt (SDml (DDelete [] (None, S_ "t") None [RContains (S_ "c") true (TTuple (TCons TInt TNil))] None false)).
Proof. vm_compute. repeat split; reflexivity. Qed.

(** W5: DELETE FROM t WHERE () = (1) *)
Example w5_needed :
  let st := SDml (DDelete [] (None, S_ "t") None [RTuple [] (Some OEq) (TCons TInt TNil)] None false) in
  wf_stmt_b st = false /\ cls_stmt st = true /\ is_idempotent_tokens (tokens_of_stmt st) = (false, 1%N).
Proof. vm_compute. repeat split; reflexivity. Qed.

(** W1: a "primitive literal" carrying the code of ';' would end the statement early *)
Example w1_needed : let st := ins1 (TPrim tkEOS) in
  wf_stmt_b st = false /\ cls_stmt st = true /\ is_idempotent_tokens (tokens_of_stmt st) = (false, 1%N).
Proof. vm_compute. repeat split; reflexivity. Qed.

(** W2: nesting deeper than max_nesting_depth is refused *)
Fixpoint nest (n : nat) : term := match n with O => TInt | S k => TList (TCons (nest k) TNil) end.
Example w2_needed :
  (let st := ins1 (nest (N.to_nat max_nesting_depth)) in
   wf_stmt_b st = false /\ cls_stmt st = true /\ fst (is_idempotent_tokens (tokens_of_stmt st)) = false) /\
  (let st := ins1 (nest (N.to_nat max_nesting_depth - 1)) in
   wf_stmt_b st = true /\ is_idempotent_tokens (tokens_of_stmt st) = (true, 0%N)).
Proof. vm_compute. repeat split; reflexivity. Qed.

(** ** what the soundness theorem does not say: the classifier is stricter than the documentation in
    one corner, a call qualified by the empty quoted keyspace *)
Example stricter_than_documented : let st := ins1 (TFun (Some (S_ """""")) (S_ "now") ANil) in
  wf_stmt_b st = true /\ doc_idem_stmt st = true /\ cls_stmt st = false /\
  tokens_of_stmt st = tokenize (str "INSERT INTO t (a) VALUES ("""".now())").
Proof. vm_compute. repeat split; reflexivity. Qed.

(** ** outside the grammar: whatever follows the first ';' of a DML statement, or APPLY BATCH, is never
    looked at, so a second, non-idempotent statement does not change the verdict.  (A CQL QUERY message
    carries a single statement and a server rejects this text, so this is an observation, not a
    counterexample to [classifier_sound], whose syntax has nothing after the optional ';'.) *)
Example trailing_statement_ignored :
  is_query_idempotent (str "INSERT INTO t (a) VALUES (1); UPDATE t SET c = c + 1 WHERE k = 1") = (true, 0%N) /\
  is_query_idempotent (str "BEGIN BATCH INSERT INTO t (a) VALUES (1) APPLY BATCH UPDATE t SET c = c + 1 WHERE k = 1") = (true, 0%N).
Proof. vm_compute. split; reflexivity. Qed.

Print Assumptions classifier_exact.
Print Assumptions cls_sound.
Print Assumptions plain_cls.
Print Assumptions classifier_sound.
Print Assumptions classifier_accepts_plain.
Print Assumptions classifier_verdict.
Print Assumptions classifier_complete.
Print Assumptions classifier_decides_documented.
