From Coq Require Import List ZArith NArith Bool Lia.
From CqlProxy Require Import Lib.Val Lib.Util Gen.Tables Model.Config.
Import ListNotations.
Local Open Scope N_scope.

Definition opt_eqb (a b : option N) : bool :=
  match a, b with
  | Some x, Some y => N.eqb x y
  | None, None => true
  | _, _ => false
  end.

Lemma opt_eqb_eq a b : opt_eqb a b = true -> a = b.
Proof.
  destruct a, b; simpl; intro H; try congruence.
  apply N.eqb_eq in H. congruence.
Qed.

Definition keys {V} (t : list (bytes * V)) : list bytes := map fst t.

Lemma assoc_notin {V} (k : bytes) (t : list (bytes * V)) :
  ~ In k (keys t) -> assoc k t = None.
Proof.
  induction t as [|[k' v] t IH]; simpl; intro H; auto.
  destruct (bytes_eqb k k') eqn:E.
  - apply bytes_eqb_eq in E. subst. exfalso. apply H. left. reflexivity.
  - apply IH. intro Hin. apply H. right. exact Hin.
Qed.

Lemma in_dec_bytes (k : bytes) (l : list bytes) : {In k l} + {~ In k l}.
Proof. apply in_dec. apply list_eq_dec. apply N.eq_dec. Qed.

(** Two association lists denote the same finite map if they agree on every key that
    occurs in either. *)
Lemma assoc_equiv (t1 t2 : list (bytes * N)) :
  forallb (fun k => opt_eqb (assoc k t1) (assoc k t2)) (keys t1 ++ keys t2) = true ->
  forall k, assoc k t1 = assoc k t2.
Proof.
  intros H k. rewrite forallb_forall in H.
  destruct (in_dec_bytes k (keys t1 ++ keys t2)) as [Hin|Hnin].
  - apply opt_eqb_eq. apply H. exact Hin.
  - rewrite !assoc_notin; auto; intro Hk; apply Hnin; apply in_or_app; auto.
Qed.

Definition lowered (t : list (bytes * N)) : list (bytes * N) := map (fun '(k, v) => (lower k, v)) t.

Definition tables_agree (gen doc : list (bytes * N)) : bool :=
  forallb (fun k => opt_eqb (assoc k gen) (assoc k (lowered doc))) (keys gen ++ keys (lowered doc)).

(** THE generated-table obligations: re-checked against /repo on every run. *)
Lemma version_tables_agree : tables_agree version_table documented_versions = true.
Proof. vm_compute. reflexivity. Qed.

Lemma consistency_tables_agree : tables_agree consistency_table documented_consistencies = true.
Proof. vm_compute. reflexivity. Qed.

Lemma parse_version_eq_doc s : parse_version s = doc_version s.
Proof. unfold parse_version, doc_version. apply assoc_equiv. exact version_tables_agree. Qed.

Lemma parse_consistency_eq_doc s : parse_consistency s = doc_consistency s.
Proof. unfold parse_consistency, doc_consistency. apply assoc_equiv. exact consistency_tables_agree. Qed.

(** documented name -> documented value, any letter case *)
Lemma doc_lookup_case (t : list (bytes * N)) :
  forallb (fun '(k, v) => opt_eqb (assoc (lower k) (lowered t)) (Some v)) t = true ->
  forall name v s, In (name, v) t -> lower s = lower name -> assoc (lower s) (lowered t) = Some v.
Proof.
  intros H name v s Hin Hs. rewrite forallb_forall in H.
  rewrite Hs. apply opt_eqb_eq. exact (H (name, v) Hin).
Qed.

Lemma version_names_correct name v s :
  In (name, v) documented_versions -> lower s = lower name -> parse_version s = Some v.
Proof.
  intros Hin Hs. rewrite parse_version_eq_doc. unfold doc_version.
  eapply doc_lookup_case; [vm_compute; reflexivity | exact Hin | exact Hs].
Qed.

Lemma consistency_names_correct name v s :
  In (name, v) documented_consistencies -> lower s = lower name -> parse_consistency s = Some v.
Proof.
  intros Hin Hs. rewrite parse_consistency_eq_doc. unfold doc_consistency.
  eapply doc_lookup_case; [vm_compute; reflexivity | exact Hin | exact Hs].
Qed.

Lemma assoc_in {V} k (t : list (bytes * V)) v : assoc k t = Some v -> In (k, v) t.
Proof.
  induction t as [|[k' v'] t IH]; simpl; intro H; try congruence.
  destruct (bytes_eqb k k') eqn:E.
  - apply bytes_eqb_eq in E. inversion H; subst. left. reflexivity.
  - right. apply IH. exact H.
Qed.

Lemma only_documented_versions s v :
  parse_version s = Some v -> exists name, In (name, v) documented_versions /\ lower s = lower name.
Proof.
  rewrite parse_version_eq_doc. unfold doc_version. intro H. apply assoc_in in H.
  apply in_map_iff in H. destruct H as [[name v'] [Heq Hin]]. inversion Heq; subst.
  exists name. split; auto.
Qed.

Lemma only_documented_consistencies s v :
  parse_consistency s = Some v -> exists name, In (name, v) documented_consistencies /\ lower s = lower name.
Proof.
  rewrite parse_consistency_eq_doc. unfold doc_consistency. intro H. apply assoc_in in H.
  apply in_map_iff in H. destruct H as [[name v'] [Heq Hin]]. inversion Heq; subst.
  exists name. split; auto.
Qed.

Lemma distinct_versions n1 v1 n2 v2 :
  In (n1, v1) documented_versions -> In (n2, v2) documented_versions -> v1 <> v2 ->
  parse_version n1 <> parse_version n2.
Proof.
  intros H1 H2 Hne. rewrite (version_names_correct n1 v1 n1 H1 eq_refl).
  rewrite (version_names_correct n2 v2 n2 H2 eq_refl). congruence.
Qed.

Lemma distinct_consistencies n1 v1 n2 v2 :
  In (n1, v1) documented_consistencies -> In (n2, v2) documented_consistencies -> v1 <> v2 ->
  parse_consistency n1 <> parse_consistency n2.
Proof.
  intros H1 H2 Hne. rewrite (consistency_names_correct n1 v1 n1 H1 eq_refl).
  rewrite (consistency_names_correct n2 v2 n2 H2 eq_refl). congruence.
Qed.

Lemma parse_cls_eq_doc l :
  parse_cls l =
  (fix pcls (l : list bytes) : option (list N) :=
     match l with
     | [] => Some []
     | s :: r => match doc_consistency s, pcls r with Some v, Some t => Some (v :: t) | _, _ => None end
     end) l.
Proof.
  induction l as [|s r IH]; [reflexivity|].
  cbn [parse_cls]. rewrite parse_consistency_eq_doc, IH. reflexivity.
Qed.

Lemma validate_eq_doc c : validate c = validate_doc c.
Proof.
  unfold validate, validate_doc.
  rewrite parse_cls_eq_doc, parse_consistency_eq_doc, !parse_version_eq_doc. reflexivity.
Qed.

(** Refusal of each inconsistent configuration named by the property. *)
Lemma refuse_no_backend c : c_backend c = false -> validate c = None.
Proof. intro H. unfold validate. rewrite H. simpl. destruct (parse_cls (c_cls c)), (parse_consistency (c_override c)); reflexivity. Qed.

Lemma refuse_heartbeat c : (c_heartbeat c >= c_idle c)%Z -> validate c = None.
Proof.
  intro H. unfold validate. destruct (parse_cls (c_cls c)), (parse_consistency (c_override c)); try reflexivity.
  destruct (negb (c_backend c)); try reflexivity.
  destruct (Z.geb_spec (c_heartbeat c) (c_idle c)); [reflexivity|lia].
Qed.

Lemma refuse_numconns c : (c_numconns c < 1)%Z -> validate c = None.
Proof.
  intro H. unfold validate. destruct (parse_cls (c_cls c)), (parse_consistency (c_override c)); try reflexivity.
  destruct (negb (c_backend c)); try reflexivity.
  destruct (c_heartbeat c >=? c_idle c)%Z; try reflexivity.
  destruct (Z.ltb_spec (c_numconns c) 1); [reflexivity|lia].
Qed.

Lemma refuse_version_above_max c v m :
  parse_version (c_version c) = Some v -> parse_version (c_maxversion c) = Some m -> m < v ->
  validate c = None.
Proof.
  intros Hv Hm Hlt. unfold validate. rewrite Hv, Hm.
  destruct (parse_cls (c_cls c)), (parse_consistency (c_override c)); try reflexivity.
  destruct (negb (c_backend c)); try reflexivity.
  destruct (c_heartbeat c >=? c_idle c)%Z; try reflexivity.
  destruct (c_numconns c <? 1)%Z; try reflexivity.
  destruct (N.ltb_spec m v); [reflexivity|lia].
Qed.

Lemma refuse_unknown_version c : parse_version (c_version c) = None -> validate c = None.
Proof.
  intro H. unfold validate. rewrite H.
  destruct (parse_cls (c_cls c)), (parse_consistency (c_override c)); try reflexivity.
  destruct (negb (c_backend c)); try reflexivity.
  destruct (c_heartbeat c >=? c_idle c)%Z; try reflexivity.
  destruct (c_numconns c <? 1)%Z; reflexivity.
Qed.

Lemma refuse_unknown_maxversion c : parse_version (c_maxversion c) = None -> validate c = None.
Proof.
  intro H. unfold validate. rewrite H.
  destruct (parse_cls (c_cls c)), (parse_consistency (c_override c)); try reflexivity.
  destruct (negb (c_backend c)); try reflexivity.
  destruct (c_heartbeat c >=? c_idle c)%Z; try reflexivity.
  destruct (c_numconns c <? 1)%Z; try reflexivity.
  destruct (parse_version (c_version c)); reflexivity.
Qed.

Lemma refuse_unknown_override c : parse_consistency (c_override c) = None -> validate c = None.
Proof. intro H. unfold validate. rewrite H. destruct (parse_cls (c_cls c)); reflexivity. Qed.

Lemma parse_cls_none l s : In s l -> parse_consistency s = None -> parse_cls l = None.
Proof.
  induction l as [|x r IH]; simpl; intros Hin Hs; [contradiction|].
  destruct Hin as [->|Hin].
  - rewrite Hs. reflexivity.
  - rewrite (IH Hin Hs). destruct (parse_consistency x); reflexivity.
Qed.

Lemma refuse_unknown_cl c s : In s (c_cls c) -> parse_consistency s = None -> validate c = None.
Proof. intros Hin Hs. unfold validate. rewrite (parse_cls_none _ _ Hin Hs). reflexivity. Qed.

Lemma refuse_build_nodes c : build_nodes_ok c = false -> validate c = None.
Proof.
  intro H. unfold validate. rewrite H.
  destruct (parse_cls (c_cls c)), (parse_consistency (c_override c)); try reflexivity.
  destruct (negb (c_backend c)); try reflexivity.
  destruct (c_heartbeat c >=? c_idle c)%Z; try reflexivity.
  destruct (c_numconns c <? 1)%Z; try reflexivity.
  destruct (parse_version (c_version c)) as [v|], (parse_version (c_maxversion c)) as [m|]; try reflexivity.
  destruct (m <? v); reflexivity.
Qed.

Lemma peers_without_rpc c : c_rpc c = false -> c_peers c <> [] -> build_nodes_ok c = false.
Proof.
  intros H Hp. unfold build_nodes_ok. rewrite H. simpl.
  destruct (c_peers c); [congruence|reflexivity].
Qed.

Lemma peers_ok_missing_rpc tokens ps p : In p ps -> p_has_rpc p = false -> peers_ok tokens ps = false.
Proof.
  induction ps as [|q r IH]; simpl; intros Hin Hp; [contradiction|].
  destruct Hin as [->|Hin].
  - rewrite Hp. reflexivity.
  - destruct (negb (p_has_rpc q)); auto. destruct (p_is_self q); auto.
    destruct (tokens && negb (p_has_tokens q)); auto.
Qed.

Lemma peers_ok_missing_tokens ps p :
  In p ps -> p_is_self p = false -> p_has_tokens p = false -> peers_ok true ps = false.
Proof.
  induction ps as [|q r IH]; simpl; intros Hin Hs Ht; [contradiction|].
  destruct Hin as [->|Hin].
  - rewrite Hs, Ht. destruct (negb (p_has_rpc p)); reflexivity.
  - destruct (negb (p_has_rpc q)); auto. destruct (p_is_self q); auto.
    destruct (negb (p_has_tokens q)); simpl; auto.
Qed.

Lemma peer_without_rpc c p : In p (c_peers c) -> p_has_rpc p = false -> build_nodes_ok c = false.
Proof.
  intros Hin Hp. unfold build_nodes_ok. rewrite (peers_ok_missing_rpc _ _ _ Hin Hp).
  apply andb_false_r.
Qed.

Lemma own_tokens_without_peer_tokens c p :
  c_tokens c = true -> In p (c_peers c) -> p_is_self p = false -> p_has_tokens p = false ->
  build_nodes_ok c = false.
Proof.
  intros Ht Hin Hs Hp. unfold build_nodes_ok. rewrite Ht.
  rewrite (peers_ok_missing_tokens _ _ Hin Hs Hp). apply andb_false_r.
Qed.

(** An accepted configuration is effective with exactly the named values. *)
Lemma good_config_effective c e :
  validate c = Some e ->
  doc_version (c_version c) = Some (e_version e) /\
  doc_version (c_maxversion c) = Some (e_maxversion e) /\
  doc_consistency (c_override c) = Some (e_override e) /\
  e_numconns e = c_numconns c /\ e_heartbeat e = c_heartbeat c /\ e_idle e = c_idle c /\
  (e_version e <= e_maxversion e) /\ (1 <= e_numconns e)%Z /\ (e_heartbeat e < e_idle e)%Z.
Proof.
  rewrite validate_eq_doc. unfold validate_doc.
  match goal with |- context [match ?X with _ => _ end] => destruct X as [cls|]; [|discriminate] end.
  destruct (doc_consistency (c_override c)) as [ov|]; [|discriminate].
  destruct (negb (c_backend c)); [discriminate|].
  destruct (Z.geb_spec (c_heartbeat c) (c_idle c)) as [Hhb|Hhb]; [discriminate|].
  destruct (Z.ltb_spec (c_numconns c) 1) as [Hnc|Hnc]; [discriminate|].
  destruct (doc_version (c_version c)) as [v|]; [|discriminate].
  destruct (doc_version (c_maxversion c)) as [m|]; [|discriminate].
  destruct (N.ltb_spec m v) as [Hmv|Hmv]; [discriminate|].
  destruct (negb (build_nodes_ok c)); [discriminate|].
  intro Heq. inversion Heq; subst; simpl. repeat split; auto; lia.
Qed.
