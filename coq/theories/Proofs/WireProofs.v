From Coq Require Import List ZArith NArith Bool Lia ZifyN ZifyNat ZifyBool.
From CqlProxy Require Import Lib.Val Lib.Wire.
Import ListNotations.
Local Open Scope N_scope.
Ltac Zify.zify_post_hook ::= Z.div_mod_to_equations.

Lemma get_n_app (s r : bytes) : get_n (length s) (s ++ r) = Some (s, r).
Proof.
  unfold get_n. rewrite app_length.
  destruct (Nat.leb_spec (length s) (length s + length r)) as [_|H]; [|lia].
  rewrite firstn_app, Nat.sub_diag, firstn_all, skipn_app, Nat.sub_diag, skipn_all. simpl.
  rewrite app_nil_r. reflexivity.
Qed.

Lemma get_n_split n b s r : get_n n b = Some (s, r) -> b = s ++ r /\ length s = n.
Proof.
  unfold get_n. destruct (Nat.leb_spec n (length b)) as [H|H]; [|discriminate].
  intro E. inversion E; subst. split; [symmetry; apply firstn_skipn|].
  rewrite firstn_length. lia.
Qed.

Lemma get_z_app (s r : bytes) : get_z (Z.of_nat (length s)) (s ++ r) = Some (s, r).
Proof.
  unfold get_z. rewrite app_length.
  destruct (Z.ltb_spec (Z.of_nat (length s + length r)) (Z.of_nat (length s))) as [H|H]; [lia|].
  rewrite Nat2Z.id. apply get_n_app.
Qed.

Lemma get_z_split n b s r : get_z n b = Some (s, r) -> b = s ++ r.
Proof.
  unfold get_z. destruct (Z.of_nat (length b) <? n)%Z; [discriminate|].
  intro H. apply get_n_split in H. tauto.
Qed.

Lemma read_byte_enc n r : n < 256 -> read_byte (enc_byte n ++ r) = Some (n, r).
Proof. intro H. unfold enc_byte. simpl. rewrite N.mod_small by exact H. reflexivity. Qed.

Lemma read_short_enc n r : n < 65536 -> read_short (enc_short n ++ r) = Some (n, r).
Proof.
  intro H. unfold enc_short. simpl. f_equal. f_equal. lia.
Qed.

Lemma read_u32_enc u r : u < 4294967296 -> read_u32 (enc_u32 u ++ r) = Some (u, r).
Proof.
  intro H. unfold enc_u32. simpl. f_equal. f_equal. lia.
Qed.

Lemma read_int_enc z r :
  (-2147483648 <= z < 2147483648)%Z -> read_int (enc_int z ++ r) = Some (z, r).
Proof.
  intro H. unfold read_int, enc_int.
  rewrite read_u32_enc by lia.
  destruct (N.ltb_spec (Z.to_N (z mod 4294967296)) 2147483648) as [Hlt|Hge]; f_equal; f_equal; lia.
Qed.

Lemma enc_int_length z : length (enc_int z) = 4%nat.
Proof. reflexivity. Qed.

Lemma read_long_string_enc s r :
  (Z.of_nat (length s) < 2147483648)%Z ->
  read_long_string (enc_long_string s ++ r) = Some (s, r).
Proof.
  intro H. unfold read_long_string, enc_long_string. rewrite <- app_assoc.
  rewrite read_int_enc by lia.
  destruct (Z.leb_spec (Z.of_nat (length s)) 0) as [Hle|Hgt].
  - assert (length s = 0%nat) by lia. destruct s; [reflexivity|discriminate].
  - apply get_z_app.
Qed.

Lemma read_short_bytes_enc s r :
  N.of_nat (length s) < 65536 -> read_short_bytes (enc_short_bytes s ++ r) = Some (s, r).
Proof.
  intro H. unfold read_short_bytes, enc_short_bytes. rewrite <- app_assoc.
  rewrite read_short_enc by lia. rewrite nat_N_Z. apply get_z_app.
Qed.
