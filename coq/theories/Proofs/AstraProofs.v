(** Proofs about Model/Astra.v (C19). *)
From Coq Require Import List ZArith NArith Bool Lia.
From CqlProxy Require Import Lib.Val Lib.Util Model.Astra.
Import ListNotations.
Local Open Scope Z_scope.

(** a certification path: every link is a signature by the next certificate's key, every
    certificate after the first is a CA taken from the presented intermediates, all are valid
    now, and the last link is signed by a root of the pool *)
Inductive path (roots inter : list cert) (now : Z) : cert -> Prop :=
| path_root c r : In r roots -> signed_by c r = true -> valid_at now r = true -> path roots inter now c
| path_step c i : In i inter -> signed_by c i = true -> c_is_ca i = true -> valid_at now i = true ->
                  path roots inter now i -> path roots inter now c.

Lemma anchored_path fuel roots inter now : forall c, anchored fuel roots inter now c = true -> path roots inter now c.
Proof.
  induction fuel as [|f IH]; intros c H; cbn [anchored] in H; apply orb_prop in H; destruct H as [H|H].
  - apply existsb_exists in H. destruct H as (r & Hr & Hs). apply andb_prop in Hs. destruct Hs.
    eapply path_root; eauto.
  - discriminate.
  - apply existsb_exists in H. destruct H as (r & Hr & Hs). apply andb_prop in Hs. destruct Hs.
    eapply path_root; eauto.
  - apply existsb_exists in H. destruct H as (i & Hi & Hs).
    apply andb_prop in Hs. destruct Hs as [Hs Ha]. apply andb_prop in Hs. destruct Hs as [Hs Hv].
    apply andb_prop in Hs. destruct Hs as [Hs Hca].
    eapply path_step; eauto.
Qed.

(** soundness of what the proxy accepts: the leaf is the first presented certificate, it is valid
    now, it names the bundle's host, and it is anchored in the bundle's pool through presented CAs *)
Theorem accepts_sound roots host now chain :
  accepts roots host now chain = true ->
  exists leaf rest, chain = leaf :: rest /\ valid_at now leaf = true /\ has_name host leaf = true /\ path roots rest now leaf.
Proof.
  destruct chain as [|leaf rest]; [discriminate|]. cbn [accepts]. unfold verify. intro H.
  apply andb_prop in H. destruct H as [H Ha]. apply andb_prop in H. destruct H as [Hv Hn].
  exists leaf, rest. repeat split; try assumption. eapply anchored_path; eauto.
Qed.

(** consequences for the chains the property lists *)
Corollary expired_or_not_yet_valid_rejected roots host now leaf rest :
  (now < c_not_before leaf \/ c_not_after leaf < now) -> accepts roots host now (leaf :: rest) = false.
Proof.
  intro H. destruct (accepts roots host now (leaf :: rest)) eqn:E; [|reflexivity].
  apply accepts_sound in E. destruct E as (l & r & Heq & Hv & _). injection Heq as <- <-.
  unfold valid_at in Hv. apply andb_prop in Hv. lia.
Qed.

Corollary wrong_name_rejected roots host now leaf rest :
  ~ In host (c_names leaf) -> accepts roots host now (leaf :: rest) = false.
Proof.
  intro H. destruct (accepts roots host now (leaf :: rest)) eqn:E; [|reflexivity].
  apply accepts_sound in E. destruct E as (l & r & Heq & _ & Hn & _). injection Heq as <- <-.
  unfold has_name in Hn. apply existsb_exists in Hn. destruct Hn as (n & Hin & He). apply Z.eqb_eq in He. subst. contradiction.
Qed.

(** self-signed, or signed by a key that is neither a root's nor a presented CA's: rejected *)
Corollary unanchored_rejected roots host now leaf rest :
  (forall r, In r roots -> c_signer leaf <> c_key r) ->
  (forall i, In i rest -> c_is_ca i = true -> c_signer leaf <> c_key i) ->
  accepts roots host now (leaf :: rest) = false.
Proof.
  intros Hr Hi. destruct (accepts roots host now (leaf :: rest)) eqn:E; [|reflexivity].
  apply accepts_sound in E. destruct E as (l & r & Heq & _ & _ & Hp). injection Heq as <- <-.
  inversion Hp as [c r0 Hin Hs _|c i Hin Hs Hca _ _]; subst; unfold signed_by in Hs; apply Z.eqb_eq in Hs.
  - exfalso. exact (Hr r0 Hin Hs).
  - exfalso. exact (Hi i Hin Hca Hs).
Qed.

Corollary empty_chain_rejected roots host now : accepts roots host now [] = false.
Proof. reflexivity. Qed.

(** what is presented after the first certificate cannot stand in for it: a later certificate that
    would verify on its own does not make a chain acceptable whose first certificate does not *)
Corollary later_certificates_cannot_replace_the_leaf roots host now first good rest :
  ~ In host (c_names first) -> accepts roots host now [good] = true -> accepts roots host now (first :: good :: rest) = false.
Proof. intros H _. apply wrong_name_rejected. exact H. Qed.

(** completeness on the two accepted shapes: a valid leaf signed by a valid root; a valid leaf
    signed by a presented valid CA that is signed by a valid root *)
Theorem direct_leaf_accepted roots host now leaf root rest :
  In root roots -> signed_by leaf root = true -> valid_at now root = true -> valid_at now leaf = true -> has_name host leaf = true ->
  accepts roots host now (leaf :: rest) = true.
Proof.
  intros Hin Hs Hvr Hvl Hn. cbn [accepts]. unfold verify. rewrite Hvl, Hn. cbn [andb].
  destruct (length rest); cbn [anchored]; apply orb_true_intro; left;
    apply existsb_exists; exists root; (split; [exact Hin|rewrite Hs, Hvr; reflexivity]).
Qed.

Theorem leaf_via_intermediate_accepted roots host now leaf ca root rest :
  In root roots -> In ca rest -> signed_by leaf ca = true -> signed_by ca root = true -> c_is_ca ca = true ->
  valid_at now root = true -> valid_at now ca = true -> valid_at now leaf = true -> has_name host leaf = true ->
  accepts roots host now (leaf :: rest) = true.
Proof.
  intros Hroot Hca Hs1 Hs2 Hisca Hvr Hvc Hvl Hn. cbn [accepts]. unfold verify. rewrite Hvl, Hn. cbn [andb].
  destruct rest as [|x xs]; [destruct Hca|]. cbn [length anchored]. apply orb_true_intro. right.
  apply existsb_exists. exists ca. split; [exact Hca|]. rewrite Hs1, Hisca, Hvc. cbn [andb].
  destruct (length xs); cbn [anchored]; apply orb_true_intro; left;
    apply existsb_exists; exists root; (split; [exact Hroot|rewrite Hs2, Hvr; reflexivity]).
Qed.
