(** Proofs about Model/Pool.v: the session's pool table (A), leastBusyConn (B), a slot's stayConnected loop (C). *)
From Coq Require Import List ZArith NArith Arith Bool Lia ZifyBool ZifyNat ZifyN.
From CqlProxy Require Import Lib.Val Lib.Util Model.Topology Proofs.TopologyProofs Model.Pool.
Import ListNotations.

(** ** A. the table *)
Local Open Scope N_scope.

(** *** lookup / store / erase / removeh *)
Lemma memh_removeh x h l : memh x (removeh h l) = memh x l && negb (N.eqb h x).
Proof. unfold removeh. apply memh_filter. Qed.

Lemma memh_removeh_same h l : memh h (removeh h l) = false.
Proof. rewrite memh_removeh, N.eqb_refl. apply andb_false_r. Qed.

Lemma memh_removeh_other x h l : x <> h -> memh x (removeh h l) = memh x l.
Proof.
  intro Hne. rewrite memh_removeh. destruct (N.eqb h x) eqn:E; [apply N.eqb_eq in E; congruence|apply andb_true_r].
Qed.

Lemma lookup_erase_same h t : lookup h (erase h t) = None.
Proof.
  induction t as [|[k v] r IH]; [reflexivity|]. unfold erase in *. cbn [filter fst].
  destruct (N.eqb k h) eqn:E; cbn [negb]; [exact IH|]. cbn [lookup]. rewrite E. exact IH.
Qed.

Lemma lookup_erase_other h h' t : h' <> h -> lookup h' (erase h t) = lookup h' t.
Proof.
  intro Hne. induction t as [|[k v] r IH]; [reflexivity|]. unfold erase in *. cbn [filter fst].
  destruct (N.eqb k h) eqn:E; cbn [negb lookup].
  - apply N.eqb_eq in E. subst k. destruct (N.eqb h h') eqn:E'; [apply N.eqb_eq in E'; congruence|exact IH].
  - destruct (N.eqb k h'); [reflexivity|exact IH].
Qed.

Lemma lookup_store_same h v t : lookup h (store h v t) = Some v.
Proof. unfold store. cbn [lookup]. rewrite N.eqb_refl. reflexivity. Qed.

Lemma lookup_store_other h h' v t : h' <> h -> lookup h' (store h v t) = lookup h' t.
Proof.
  intro Hne. unfold store. cbn [lookup].
  destruct (N.eqb h h') eqn:E; [apply N.eqb_eq in E; congruence|apply lookup_erase_other; exact Hne].
Qed.

(** *** the invariant of the repaired code: every table entry is alive, ids are fresh, distinct hosts have distinct pools *)
Record good (s : sess) : Prop := {
  g_alive : forall h e, lookup h (table s) = Some e -> memh e (live s) = true;
  g_fresh : forall h e, lookup h (table s) = Some e -> e < next_id s;
  g_inj : forall h1 h2 e, lookup h1 (table s) = Some e -> lookup h2 (table s) = Some e -> h1 = h2
}.

Lemma good_init : good init_sess.
Proof. split; cbn; intros; discriminate. Qed.

Lemma good_store s h : good s ->
  good {| table := store h (next_id s) (table s); live := next_id s :: live s; next_id := next_id s + 1;
          booting := booting s; listed := listed s |} .
Proof.
  intros [Ha Hf Hi]. split; cbn [table live next_id].
  - intros h' e Hl. rewrite memh_cons. destruct (N.eq_dec h' h) as [->|Hne].
    + rewrite lookup_store_same in Hl. injection Hl as <-. rewrite N.eqb_refl. reflexivity.
    + rewrite lookup_store_other in Hl by exact Hne. rewrite (Ha _ _ Hl). apply orb_true_r.
  - intros h' e Hl. destruct (N.eq_dec h' h) as [->|Hne].
    + rewrite lookup_store_same in Hl. injection Hl as <-. lia.
    + rewrite lookup_store_other in Hl by exact Hne. specialize (Hf _ _ Hl). lia.
  - intros h1 h2 e H1 H2. destruct (N.eq_dec h1 h) as [->|Hn1]; destruct (N.eq_dec h2 h) as [->|Hn2]; try reflexivity.
    + rewrite lookup_store_same in H1. injection H1 as <-. rewrite lookup_store_other in H2 by exact Hn2.
      specialize (Hf _ _ H2). lia.
    + rewrite lookup_store_same in H2. injection H2 as <-. rewrite lookup_store_other in H1 by exact Hn1.
      specialize (Hf _ _ H1). lia.
    + rewrite lookup_store_other in H1, H2 by assumption. exact (Hi _ _ _ H1 H2).
Qed.

Lemma good_ext s s' : good s -> table s' = table s -> live s' = live s -> next_id s <= next_id s' -> good s'.
Proof.
  intros [Ha Hf Hi] Et El Hn. split; rewrite ?Et, ?El.
  - exact Ha.
  - intros h e Hl. specialize (Hf _ _ Hl). lia.
  - exact Hi.
Qed.

Lemma good_step s e : good s -> good (pstep false s e).
Proof.
  intro G. destruct e as [hs|h|h|h]; cbn [pstep].
  - apply (good_ext s); cbn; [exact G|reflexivity|reflexivity|lia].
  - destruct (memh h (booting s)); [|exact G].
    apply (good_ext _ _ (good_store s h G)); cbn; try reflexivity; lia.
  - destruct (lookup h (table s)) as [e0|] eqn:El.
    + apply (good_ext s); cbn; [exact G|reflexivity|reflexivity|lia].
    + apply (good_ext _ _ (good_store s h G)); cbn; try reflexivity; lia.
  - destruct (lookup h (table s)) as [e0|] eqn:El.
    + destruct G as [Ha Hf Hi]. split; cbn [table live next_id].
      * intros h' e Hl. destruct (N.eq_dec h' h) as [->|Hne]; [rewrite lookup_erase_same in Hl; discriminate|].
        rewrite lookup_erase_other in Hl by exact Hne.
        rewrite memh_removeh_other; [exact (Ha _ _ Hl)|]. intros ->. apply Hne. exact (Hi _ _ _ Hl El).
      * intros h' e Hl. destruct (N.eq_dec h' h) as [->|Hne]; [rewrite lookup_erase_same in Hl; discriminate|].
        rewrite lookup_erase_other in Hl by exact Hne. exact (Hf _ _ Hl).
      * intros h1 h2 e H1 H2.
        destruct (N.eq_dec h1 h) as [->|Hn1]; [rewrite lookup_erase_same in H1; discriminate|].
        destruct (N.eq_dec h2 h) as [->|Hn2]; [rewrite lookup_erase_same in H2; discriminate|].
        rewrite lookup_erase_other in H1, H2 by assumption. exact (Hi _ _ _ H1 H2).
    + apply (good_ext s); cbn; [exact G|reflexivity|reflexivity|lia].
Qed.

Lemma good_fold es : forall s, good s -> good (fold_left (pstep false) es s).
Proof. induction es as [|e r IH]; intros s G; cbn [fold_left]; [exact G|apply IH, good_step, G]. Qed.

Lemma good_prun es : good (prun false es).
Proof. apply good_fold, good_init. Qed.

(** with every entry alive, "usable" is "has an entry" *)
Definition has (s : sess) (h : N) : bool := match lookup h (table s) with Some _ => true | None => false end.

Lemma usable_has s h : good s -> usable s h = has s h.
Proof.
  intro G. unfold usable, has. destruct (lookup h (table s)) as [e|] eqn:El; [|reflexivity]. exact (g_alive s G _ _ El).
Qed.

(** *** A1: every listed host that is not still booting has an entry *)
Definition follows (s : sess) : Prop :=
  forall h, memh h (listed s) = true -> memh h (booting s) = false -> has s h = true.

Lemma follows_step s e : follows s -> follows (pstep false s e).
Proof.
  intro F. destruct e as [hs|h|h|h]; cbn [pstep].
  - intros x Hl Hb. cbn [listed booting] in *. congruence.
  - destruct (memh h (booting s)) eqn:Hb; [|exact F].
    intros x Hl Hx. unfold has in *. cbn [listed booting table] in *.
    destruct (N.eq_dec x h) as [->|Hne]; [rewrite lookup_store_same; reflexivity|].
    rewrite lookup_store_other by exact Hne. rewrite memh_removeh_other in Hx by exact Hne. exact (F _ Hl Hx).
  - assert (Hl' : forall x, x <> h -> memh x (h :: removeh h (listed s)) = true -> memh x (listed s) = true).
    { intros x Hne Hx. rewrite memh_cons, memh_removeh_other in Hx by exact Hne.
      destruct (N.eqb x h) eqn:E; [apply N.eqb_eq in E; congruence|exact Hx]. }
    destruct (lookup h (table s)) as [e0|] eqn:El; intros x Hl Hx; unfold has in *; cbn [listed booting table] in *.
    + destruct (N.eq_dec x h) as [->|Hne]; [rewrite El; reflexivity|]. exact (F _ (Hl' _ Hne Hl) Hx).
    + destruct (N.eq_dec x h) as [->|Hne]; [rewrite lookup_store_same; reflexivity|].
      rewrite lookup_store_other by exact Hne. exact (F _ (Hl' _ Hne Hl) Hx).
  - assert (Hl' : forall x, memh x (removeh h (listed s)) = true -> x <> h /\ memh x (listed s) = true).
    { intros x Hx. rewrite memh_removeh in Hx. apply andb_prop in Hx. destruct Hx as [Hx Hn]. split; [|exact Hx].
      intros ->. rewrite N.eqb_refl in Hn. discriminate. }
    destruct (lookup h (table s)) as [e0|] eqn:El; intros x Hl Hx; unfold has in *; cbn [listed booting table] in *;
      destruct (Hl' _ Hl) as [Hne Hin].
    + rewrite lookup_erase_other by exact Hne. exact (F _ Hin Hx).
    + exact (F _ Hin Hx).
Qed.

Lemma follows_fold es : forall s, follows s -> follows (fold_left (pstep false) es s).
Proof. induction es as [|e r IH]; intros s F; cbn [fold_left]; [exact F|apply IH, follows_step, F]. Qed.

Lemma follows_prun es : follows (prun false es).
Proof. apply follows_fold. intros h Hl. cbn in Hl. discriminate. Qed.

(** the statement holds for EVERY event list; the cluster's discipline [wf_history] is not needed *)
Theorem table_follows_any_history es : table_follows (prun false es) = true.
Proof.
  unfold table_follows. apply forallb_forall. intros h Hin. apply memh_In in Hin.
  destruct (memh h (booting (prun false es))) eqn:Hb; [reflexivity|]. cbn [orb].
  rewrite (usable_has _ _ (good_prun es)). exact (follows_prun es h Hin Hb).
Qed.

Theorem table_follows_listed : forall es, wf_history es = true -> table_follows (prun false es) = true.
Proof. intros es _. apply table_follows_any_history. Qed.

Definition ex_history : list pevent :=
  [PBoot [1;2;3]; PRemove 3; PStore 1; PAdd 4; PStore 3; PStore 2; PAdd 3; PRemove 1; PAdd 1; PRemove 4].
Example table_follows_listed_ex :
  wf_history ex_history = true /\ table_follows (prun false ex_history) = true
  /\ listed (prun false ex_history) = [1;3;2] /\ table (prun false ex_history) = [(1,6);(2,4);(3,3)].
Proof. vm_compute. repeat split. Qed.

(** *** A2 *)
Theorem table_entries_alive_any_history es :
  forall h e, lookup h (table (prun false es)) = Some e -> memh e (live (prun false es)) = true.
Proof. exact (g_alive _ (good_prun es)). Qed.

Theorem table_entries_alive es : wf_history es = true ->
  forall h e, lookup h (table (prun false es)) = Some e -> memh e (live (prun false es)) = true.
Proof. intros _. apply table_entries_alive_any_history. Qed.

Example table_entries_alive_ex :
  lookup 2 (table (prun false ex_history)) = Some 4 /\ memh 4 (live (prun false ex_history)) = true.
Proof. vm_compute. split; reflexivity. Qed.

(** *** A3: the code before the repair.  An add event for a host that already has a pool cancels that pool, which stays
    in the table: the host is listed, its bootstrap goroutine is done, and the session cannot reach it. *)
Definition orig_prefix : list pevent := [PBoot [1;2;3]; PRemove 3; PStore 1; PStore 2; PStore 3; PAdd 3].

Theorem orig_add_kills_the_pool_refuted :
  exists es h, wf_history es = true /\ memh h (listed (prun true es)) = true
    /\ memh h (booting (prun true es)) = false /\ usable (prun true es) h = false.
Proof. exists orig_prefix, 3. vm_compute. repeat split. Qed.

(** the same history is harmless in the repaired code *)
Example repaired_add_keeps_the_pool : usable (prun false orig_prefix) 3 = true.
Proof. vm_compute. reflexivity. Qed.

(** a dead entry: host h maps to pool e, e is cancelled, e is an old id *)
Definition dead_entry (s : sess) (h e : N) : Prop :=
  lookup h (table s) = Some e /\ memh e (live s) = false /\ e < next_id s.

(** the event neither removes h nor is a bootstrap store of h that takes effect *)
Definition spares (h : N) (s : sess) (e : pevent) : bool :=
  match e with
  | PRemove x => negb (N.eqb x h)
  | PStore x => negb (N.eqb x h && memh h (booting s))
  | _ => true
  end.

Lemma dead_entry_step s h e ev : dead_entry s h e -> spares h s ev = true -> dead_entry (pstep true s ev) h e.
Proof.
  intros (Hl & Hd & Hf) Hs. unfold dead_entry. destruct ev as [hs|x|x|x]; cbn [pstep].
  - cbn [table live next_id]. auto.
  - destruct (memh x (booting s)) eqn:Hb; [|auto]. cbn [table live next_id].
    cbn [spares] in Hs. assert (Hne : h <> x).
    { intros ->. rewrite N.eqb_refl, Hb in Hs. discriminate. }
    rewrite lookup_store_other by exact Hne. rewrite memh_cons.
    split; [exact Hl|]. split; [|lia]. rewrite Hd, orb_false_r. apply N.eqb_neq. lia.
  - destruct (lookup x (table s)) as [e0|] eqn:Ex; cbn [table live next_id].
    + split; [exact Hl|]. split; [|lia]. rewrite memh_cons, memh_removeh, Hd. cbn [andb].
      rewrite orb_false_r. apply N.eqb_neq. lia.
    + assert (Hne : h <> x) by (intros ->; congruence).
      rewrite lookup_store_other by exact Hne. split; [exact Hl|]. split; [|lia].
      rewrite memh_cons, Hd, orb_false_r. apply N.eqb_neq. lia.
  - cbn [spares] in Hs. assert (Hne : h <> x).
    { intros ->. rewrite N.eqb_refl in Hs. discriminate. }
    destruct (lookup x (table s)) as [e0|] eqn:Ex; cbn [table live next_id].
    + rewrite lookup_erase_other by exact Hne. split; [exact Hl|]. split; [|exact Hf].
      rewrite memh_removeh, Hd. reflexivity.
    + auto.
Qed.

Lemma dead_entry_unusable s h e : dead_entry s h e -> usable s h = false.
Proof. intros (Hl & Hd & _). unfold usable. rewrite Hl. exact Hd. Qed.

Fixpoint no_remove (h : N) (r : list pevent) : bool :=
  match r with [] => true | PRemove x :: r' => negb (N.eqb x h) && no_remove h r' | _ :: r' => no_remove h r' end.
Fixpoint no_store_of (h : N) (r : list pevent) : bool :=
  match r with [] => true | PStore x :: r' => negb (N.eqb x h) && no_store_of h r' | _ :: r' => no_store_of h r' end.
Fixpoint no_boot (r : list pevent) : bool :=
  match r with [] => true | PBoot _ :: _ => false | _ :: r' => no_boot r' end.

(** version 1: no remove of h and no bootstrap store of h (anything else, even a second PBoot) *)
Lemma dead_entry_persists_no_store h e : forall r s, dead_entry s h e ->
  no_remove h r = true -> no_store_of h r = true -> dead_entry (fold_left (pstep true) r s) h e.
Proof.
  induction r as [|ev r IH]; intros s D Hr Hs; cbn [fold_left]; [exact D|].
  destruct ev as [hs|x|x|x]; cbn [no_remove no_store_of] in Hr, Hs.
  - apply IH; [apply dead_entry_step; [exact D|reflexivity]|exact Hr|exact Hs].
  - apply andb_prop in Hs. destruct Hs as [Hx Hs].
    apply IH; [apply dead_entry_step; [exact D|]|exact Hr|exact Hs].
    cbn [spares]. destruct (N.eqb x h); [discriminate|reflexivity].
  - apply IH; [apply dead_entry_step; [exact D|reflexivity]|exact Hr|exact Hs].
  - apply andb_prop in Hr. destruct Hr as [Hx Hr].
    apply IH; [apply dead_entry_step; [exact D|exact Hx]|exact Hr|exact Hs].
Qed.

(** version 2: no remove of h and no second PBoot, from a state whose bootstrap goroutines are all done
    (then every PStore is a no-op) *)
Lemma dead_entry_persists_no_boot h e : forall r s, dead_entry s h e -> booting s = [] ->
  no_remove h r = true -> no_boot r = true ->
  dead_entry (fold_left (pstep true) r s) h e /\ booting (fold_left (pstep true) r s) = [].
Proof.
  induction r as [|ev r IH]; intros s D Hb Hr Hn; cbn [fold_left]; [split; assumption|].
  destruct ev as [hs|x|x|x]; cbn [no_remove no_boot] in Hr, Hn; [discriminate| | |].
  - apply IH; [apply dead_entry_step; [exact D|]| |exact Hr|exact Hn].
    + cbn [spares]. rewrite Hb. cbn. rewrite andb_false_r. reflexivity.
    + cbn [pstep]. rewrite Hb. cbn. exact Hb.
  - apply IH; [apply dead_entry_step; [exact D|reflexivity]| |exact Hr|exact Hn].
    cbn [pstep]. destruct (lookup x (table s)); cbn [booting]; exact Hb.
  - apply andb_prop in Hr. destruct Hr as [Hx Hr].
    apply IH; [apply dead_entry_step; [exact D|exact Hx]| |exact Hr|exact Hn].
    cbn [pstep]. destruct (lookup x (table s)); cbn [booting]; exact Hb.
Qed.

Lemma prun_app orig a b : prun orig (a ++ b) = fold_left (pstep orig) b (prun orig a).
Proof. unfold prun. apply fold_left_app. Qed.

Lemma orig_prefix_dead : dead_entry (prun true orig_prefix) 3 3 /\ booting (prun true orig_prefix) = [].
Proof. vm_compute. repeat split. Qed.

Theorem orig_never_recovers_no_boot : forall r, no_remove 3 r = true -> no_boot r = true ->
  usable (prun true (orig_prefix ++ r)) 3 = false.
Proof.
  intros r Hr Hn. rewrite prun_app. destruct orig_prefix_dead as [D Hb].
  apply (dead_entry_unusable _ 3 3). exact (proj1 (dead_entry_persists_no_boot 3 3 r _ D Hb Hr Hn)).
Qed.

Theorem orig_never_recovers_no_store : forall r, no_remove 3 r = true -> no_store_of 3 r = true ->
  usable (prun true (orig_prefix ++ r)) 3 = false.
Proof.
  intros r Hr Hs. rewrite prun_app. apply (dead_entry_unusable _ 3 3).
  exact (dead_entry_persists_no_store 3 3 r _ (proj1 orig_prefix_dead) Hr Hs).
Qed.

(** a well-formed history has one PBoot, the first event *)
Lemma wf_from_no_boot : forall es ls bs, wf_from ls bs es = true -> no_boot es = true.
Proof.
  induction es as [|e r IH]; intros ls bs H; [reflexivity|].
  destruct e as [hs|x|x|x]; cbn [wf_from no_boot] in *; [discriminate| | |];
    apply andb_prop in H; destruct H as [_ H]; exact (IH _ _ H).
Qed.

Lemma wf_from_app_r : forall a ls bs b, wf_from ls bs (a ++ b) = true -> exists ls' bs', wf_from ls' bs' b = true.
Proof.
  induction a as [|e a IH]; intros ls bs b H; [exists ls, bs; exact H|].
  cbn [app] in H. destruct e as [hs|x|x|x]; cbn [wf_from] in H; [discriminate| | |];
    apply andb_prop in H; destruct H as [_ H]; exact (IH _ _ _ H).
Qed.

(** the headline: in every well-formed continuation that does not remove host 3 -- any adds and removes of other
    hosts, and adds of host 3 are impossible since it is listed -- the session never reaches host 3 again.
    [no_remove] is the only side condition: well-formedness excludes a second PBoot, and with every bootstrap
    goroutine done there is no PStore left. *)
Theorem orig_never_recovers : forall r, wf_history (orig_prefix ++ r) = true -> no_remove 3 r = true ->
  usable (prun true (orig_prefix ++ r)) 3 = false.
Proof.
  intros r Hwf Hr. apply orig_never_recovers_no_boot; [exact Hr|].
  unfold orig_prefix in Hwf. cbn [app wf_history] in Hwf. apply andb_prop in Hwf. destruct Hwf as [_ Hwf].
  change (wf_from [1;2;3] [1;2;3] ([PRemove 3; PStore 1; PStore 2; PStore 3; PAdd 3] ++ r) = true) in Hwf.
  destruct (wf_from_app_r _ _ _ _ Hwf) as (ls' & bs' & H'). exact (wf_from_no_boot _ _ _ H').
Qed.

Definition ex_cont : list pevent := [PAdd 7; PRemove 1; PAdd 1; PRemove 7; PRemove 2].
Example orig_never_recovers_ex :
  wf_history (orig_prefix ++ ex_cont) = true /\ no_remove 3 ex_cont = true
  /\ usable (prun true (orig_prefix ++ ex_cont)) 3 = false /\ usable (prun false (orig_prefix ++ ex_cont)) 3 = true.
Proof. vm_compute. repeat split. Qed.

(** the side condition is exact: removing host 3 and adding it again heals the session *)
Example orig_recovers_after_remove :
  wf_history (orig_prefix ++ [PRemove 3; PAdd 3]) = true /\ usable (prun true (orig_prefix ++ [PRemove 3; PAdd 3])) 3 = true.
Proof. vm_compute. split; reflexivity. Qed.

(** *** A4: a host removed while its bootstrap goroutine was still connecting keeps a live pool in the table *)
Theorem stale_pool_observation :
  exists es h, wf_history es = true /\ memh h (listed (prun false es)) = false /\ usable (prun false es) h = true.
Proof. exists [PBoot [1;2]; PRemove 2; PStore 1; PStore 2], 2. vm_compute. repeat split. Qed.

(** *** A5: when every bootstrap store happens before the first topology event, no unlisted host keeps a pool *)
Fixpoint no_store (es : list pevent) : bool :=
  match es with [] => true | PStore _ :: _ => false | _ :: r => no_store r end.
Fixpoint stores_first_from (es : list pevent) : bool :=
  match es with
  | [] => true
  | PStore _ :: r => stores_first_from r
  | PBoot _ :: r => stores_first_from r
  | _ :: r => no_store r          (* the first PAdd / PRemove: no PStore afterwards *)
  end.
Definition stores_first (es : list pevent) : bool := stores_first_from es.

(** after the stores: a host that is not booting has an entry iff it is listed *)
Definition settled (s : sess) (h : N) : Prop := memh h (booting s) = false -> has s h = memh h (listed s).

Lemma settled_topology_step s h e : settled s h ->
  match e with PAdd _ | PRemove _ => True | _ => False end -> settled (pstep false s e) h.
Proof.
  intros S He. destruct e as [hs|x|x|x]; try contradiction; cbn [pstep]; unfold settled, has in *.
  - destruct (lookup x (table s)) as [e0|] eqn:Ex; cbn [table booting listed]; intro Hb; specialize (S Hb);
      rewrite memh_cons; (destruct (N.eq_dec h x) as [->|Hne];
        [rewrite N.eqb_refl; cbn [orb]|
         rewrite memh_removeh_other by exact Hne;
         destruct (N.eqb h x) eqn:E; [apply N.eqb_eq in E; congruence|cbn [orb]]]).
    + rewrite Ex. reflexivity.
    + exact S.
    + rewrite lookup_store_same. reflexivity.
    + rewrite lookup_store_other by exact Hne. exact S.
  - destruct (lookup x (table s)) as [e0|] eqn:Ex; cbn [table booting listed]; intro Hb; specialize (S Hb);
      (destruct (N.eq_dec h x) as [->|Hne];
        [rewrite memh_removeh_same|rewrite memh_removeh_other by exact Hne]).
    + rewrite lookup_erase_same. reflexivity.
    + rewrite lookup_erase_other by exact Hne. exact S.
    + rewrite Ex. reflexivity.
    + exact S.
Qed.

Lemma settled_phase2 h : forall r s, settled s h -> no_store r = true -> no_boot r = true ->
  settled (fold_left (pstep false) r s) h.
Proof.
  induction r as [|e r IH]; intros s S Hs Hb; cbn [fold_left]; [exact S|].
  destruct e as [hs|x|x|x]; cbn [no_store no_boot] in Hs, Hb; try discriminate;
    (apply IH; [apply settled_topology_step; [exact S|exact Logic.I]|exact Hs|exact Hb]).
Qed.

(** during the stores: booting hosts are listed, and a host has an entry iff it is listed and not booting *)
Definition storing (s : sess) (h : N) : Prop :=
  (memh h (booting s) = true -> memh h (listed s) = true) /\
  has s h = memh h (listed s) && negb (memh h (booting s)).

Lemma storing_settled s h : storing s h -> settled s h.
Proof. intros [_ H] Hb. rewrite H, Hb. apply andb_true_r. Qed.

Lemma storing_store s h x : storing s h -> storing (pstep false s (PStore x)) h.
Proof.
  intros [Hsub Hh]. cbn [pstep]. destruct (memh x (booting s)) eqn:Hx; [|split; assumption].
  unfold storing, has in *. cbn [table booting listed]. destruct (N.eq_dec h x) as [->|Hne].
  - rewrite memh_removeh_same, lookup_store_same, (Hsub Hx). split; [discriminate|reflexivity].
  - rewrite memh_removeh_other, lookup_store_other by exact Hne. split; assumption.
Qed.

Lemma settled_phase1 h : forall r s, storing s h -> stores_first_from r = true -> no_boot r = true ->
  settled (fold_left (pstep false) r s) h.
Proof.
  induction r as [|e r IH]; intros s S Hs Hb; cbn [fold_left]; [apply storing_settled, S|].
  destruct e as [hs|x|x|x]; cbn [stores_first_from no_boot] in Hs, Hb; [discriminate| | |].
  - apply IH; [apply storing_store, S|exact Hs|exact Hb].
  - apply settled_phase2; [apply settled_topology_step; [apply storing_settled, S|exact Logic.I]|exact Hs|exact Hb].
  - apply settled_phase2; [apply settled_topology_step; [apply storing_settled, S|exact Logic.I]|exact Hs|exact Hb].
Qed.

(** per host, with the exact side condition: the host's own bootstrap goroutine is not still connecting *)
Theorem settled_host_usable_iff_listed es : wf_history es = true -> stores_first es = true ->
  forall h, memh h (booting (prun false es)) = false -> usable (prun false es) h = memh h (listed (prun false es)).
Proof.
  intros Hwf Hs h Hb. rewrite (usable_has _ _ (good_prun es)).
  destruct es as [|[hs|x|x|x] r]; cbn [wf_history] in Hwf; try discriminate.
  apply andb_prop in Hwf. destruct Hwf as [_ Hwf].
  unfold stores_first in Hs. cbn [stores_first_from] in Hs.
  unfold prun in *. cbn [fold_left] in *.
  refine (settled_phase1 h r _ _ Hs (wf_from_no_boot _ _ _ Hwf) Hb).
  unfold storing, has. cbn [pstep table booting listed init_sess lookup]. split; [auto|]. destruct (memh h hs); reflexivity.
Qed.

(** the direction the name promises needs no more than [stores_first]: an unlisted host has no usable pool *)
Definition entry_listed (s : sess) (h : N) : Prop := has s h = true -> memh h (listed s) = true.

Lemma entry_listed_topology_step s h e : entry_listed s h ->
  match e with PAdd _ | PRemove _ => True | _ => False end -> entry_listed (pstep false s e) h.
Proof.
  intros H He. destruct e as [hs|x|x|x]; try contradiction; cbn [pstep]; unfold entry_listed, has in *.
  - destruct (lookup x (table s)) as [e0|] eqn:Ex; cbn [table listed]; rewrite memh_cons;
      (destruct (N.eq_dec h x) as [->|Hne]; [rewrite N.eqb_refl; reflexivity|]);
      rewrite memh_removeh_other by exact Hne; rewrite ?lookup_store_other by exact Hne;
      intro Hh; rewrite (H Hh); apply orb_true_r.
  - destruct (lookup x (table s)) as [e0|] eqn:Ex; cbn [table listed];
      (destruct (N.eq_dec h x) as [->|Hne];
        [rewrite ?lookup_erase_same, ?Ex; discriminate|
         rewrite memh_removeh_other by exact Hne; rewrite ?lookup_erase_other by exact Hne; exact H]).
Qed.

Lemma entry_listed_phase2 h : forall r s, entry_listed s h -> no_store r = true -> no_boot r = true ->
  entry_listed (fold_left (pstep false) r s) h.
Proof.
  induction r as [|e r IH]; intros s S Hs Hb; cbn [fold_left]; [exact S|].
  destruct e as [hs|x|x|x]; cbn [no_store no_boot] in Hs, Hb; try discriminate;
    (apply IH; [apply entry_listed_topology_step; [exact S|exact Logic.I]|exact Hs|exact Hb]).
Qed.

Lemma storing_entry_listed s h : storing s h -> entry_listed s h.
Proof. intros [_ H] E. rewrite H in E. apply andb_prop in E. exact (proj1 E). Qed.

Lemma entry_listed_phase1 h : forall r s, storing s h -> stores_first_from r = true -> no_boot r = true ->
  entry_listed (fold_left (pstep false) r s) h.
Proof.
  induction r as [|e r IH]; intros s S Hs Hb; cbn [fold_left]; [apply storing_entry_listed, S|].
  destruct e as [hs|x|x|x]; cbn [stores_first_from no_boot] in Hs, Hb; [discriminate| | |].
  - apply IH; [apply storing_store, S|exact Hs|exact Hb].
  - apply entry_listed_phase2;
      [apply entry_listed_topology_step; [apply storing_entry_listed, S|exact Logic.I]|exact Hs|exact Hb].
  - apply entry_listed_phase2;
      [apply entry_listed_topology_step; [apply storing_entry_listed, S|exact Logic.I]|exact Hs|exact Hb].
Qed.

Theorem unlisted_after_boot_has_no_pool es : wf_history es = true -> stores_first es = true ->
  forall h, memh h (listed (prun false es)) = false -> usable (prun false es) h = false.
Proof.
  intros Hwf Hs h Hl. rewrite (usable_has _ _ (good_prun es)).
  destruct (has (prun false es) h) eqn:E; [|reflexivity]. rewrite <- Hl. symmetry. revert E.
  destruct es as [|[hs|x|x|x] r]; cbn [wf_history] in Hwf; try discriminate.
  apply andb_prop in Hwf. destruct Hwf as [_ Hwf].
  unfold stores_first in Hs. cbn [stores_first_from] in Hs.
  unfold prun. cbn [fold_left].
  refine (entry_listed_phase1 h r _ _ Hs (wf_from_no_boot _ _ _ Hwf)).
  unfold storing, has. cbn [pstep table booting listed init_sess lookup]. split; [auto|]. destruct (memh h hs); reflexivity.
Qed.

(** the equality for all hosts at once is false under [stores_first] alone: a bootstrap goroutine that has not
    stored (and by [stores_first] never will once a topology event has happened) leaves its listed host without a pool *)
Theorem unlisted_after_boot_equality_refuted :
  exists es h, wf_history es = true /\ stores_first es = true
    /\ usable (prun false es) h = false /\ memh h (listed (prun false es)) = true.
Proof. exists [PBoot [1;2]; PStore 1; PRemove 1], 2. vm_compute. repeat split. Qed.

(** ... and it holds exactly when, in addition, every bootstrap goroutine has stored *)
Theorem unlisted_after_boot_has_no_pool_partial es : wf_history es = true -> stores_first es = true ->
  booting (prun false es) = [] ->
  forall h, usable (prun false es) h = memh h (listed (prun false es)).
Proof. intros Hwf Hs Hb h. apply settled_host_usable_iff_listed; [exact Hwf|exact Hs|]. rewrite Hb. reflexivity. Qed.

Definition ex_settled : list pevent := [PBoot [1;2;3]; PStore 2; PStore 1; PStore 3; PRemove 2; PAdd 5; PAdd 2; PRemove 1].
Example unlisted_after_boot_ex :
  wf_history ex_settled = true /\ stores_first ex_settled = true /\ booting (prun false ex_settled) = []
  /\ map (usable (prun false ex_settled)) [1;2;3;4;5] = [false;true;true;false;true]
  /\ map (fun h => memh h (listed (prun false ex_settled))) [1;2;3;4;5] = [false;true;true;false;true].
Proof. vm_compute. repeat split. Qed.

(** [stores_first] is needed for the no-leak direction: A4's history violates it *)
Example stale_pool_history_is_not_stores_first : stores_first [PBoot [1;2]; PRemove 2; PStore 1; PStore 2] = false.
Proof. reflexivity. Qed.

(** ** B. leastBusyConn *)
Local Open Scope Z_scope.

Definition below_max (slots : list (option Z)) : Prop := Forall (fun c => forall f, c = Some f -> f < max_int32) slots.
Definition all_nil (slots : list (option Z)) : Prop := Forall (fun c : option Z => c = None) slots.

(** the scan either keeps the incoming candidate (no live slot is below the incoming minimum) or returns the FIRST
    slot holding the least count, which is below the incoming minimum *)
Lemma lb_scan_spec : forall l i idx mn,
  (lb_scan l i idx mn = idx /\ forall k g, nth k l None = Some g -> mn <= g)
  \/ exists k f, lb_scan l i idx mn = (i + k)%nat /\ nth k l None = Some f /\ f < mn
       /\ (forall j g, nth j l None = Some g -> f <= g)
       /\ (forall j g, (j < k)%nat -> nth j l None = Some g -> f < g).
Proof.
  induction l as [|c r IH]; intros i idx mn; cbn [lb_scan].
  - left. split; [reflexivity|]. intros [|k] g H; discriminate.
  - destruct c as [f|].
    + destruct (f <? mn) eqn:E.
      * right. destruct (IH (S i) i f) as [[Hr Hall]|(k & f' & Hr & Hn & Hlt & Hmin & Hfirst)].
        -- exists 0%nat, f. rewrite Hr. split; [lia|]. split; [reflexivity|]. split; [lia|]. split.
           ++ intros [|j] g Hg; cbn [nth] in Hg; [injection Hg as <-; lia|exact (Hall _ _ Hg)].
           ++ intros j g Hj. lia.
        -- exists (S k), f'. rewrite Hr. split; [lia|]. split; [exact Hn|]. split; [lia|]. split.
           ++ intros [|j] g Hg; cbn [nth] in Hg; [injection Hg as <-; lia|exact (Hmin _ _ Hg)].
           ++ intros [|j] g Hj Hg; cbn [nth] in Hg; [injection Hg as <-; lia|].
              apply (Hfirst j); [lia|exact Hg].
      * destruct (IH (S i) idx mn) as [[Hr Hall]|(k & f' & Hr & Hn & Hlt & Hmin & Hfirst)].
        -- left. split; [exact Hr|]. intros [|j] g Hg; cbn [nth] in Hg; [injection Hg as <-; lia|exact (Hall _ _ Hg)].
        -- right. exists (S k), f'. rewrite Hr. split; [lia|]. split; [exact Hn|]. split; [exact Hlt|]. split.
           ++ intros [|j] g Hg; cbn [nth] in Hg; [injection Hg as <-; lia|exact (Hmin _ _ Hg)].
           ++ intros [|j] g Hj Hg; cbn [nth] in Hg; [injection Hg as <-; lia|].
              apply (Hfirst j); [lia|exact Hg].
    + destruct (IH (S i) idx mn) as [[Hr Hall]|(k & f' & Hr & Hn & Hlt & Hmin & Hfirst)].
      * left. split; [exact Hr|]. intros [|j] g Hg; cbn [nth] in Hg; [discriminate|exact (Hall _ _ Hg)].
      * right. exists (S k), f'. rewrite Hr. split; [lia|]. split; [exact Hn|]. split; [exact Hlt|]. split.
        -- intros [|j] g Hg; cbn [nth] in Hg; [discriminate|exact (Hmin _ _ Hg)].
        -- intros [|j] g Hj Hg; cbn [nth] in Hg; [discriminate|]. apply (Hfirst j); [lia|exact Hg].
Qed.

Lemma below_max_nth slots : below_max slots -> forall k g, nth k slots None = Some g -> g < max_int32.
Proof.
  intros H k g Hg. unfold below_max in H. rewrite Forall_forall in H.
  destruct (Nat.lt_ge_cases k (length slots)) as [Hk|Hk].
  - apply (H (nth k slots None)); [apply nth_In; exact Hk|exact Hg].
  - rewrite nth_overflow in Hg by exact Hk. discriminate.
Qed.

Lemma all_nil_nth slots : all_nil slots <-> forall k g, nth k slots None <> Some g.
Proof.
  unfold all_nil. rewrite Forall_forall. split.
  - intros H k g Hg. destruct (Nat.lt_ge_cases k (length slots)) as [Hk|Hk].
    + rewrite (H _ (nth_In _ _ Hk)) in Hg. discriminate.
    + rewrite nth_overflow in Hg by exact Hk. discriminate.
  - intros H c Hin. destruct (In_nth _ _ None Hin) as (k & _ & Hk). destruct c as [g|]; [|reflexivity].
    exfalso. exact (H _ _ Hk).
Qed.

Lemma least_busy_long a b r :
  least_busy (a :: b :: r) =
  match nth (lb_scan (a :: b :: r) 0 0 max_int32) (a :: b :: r) None with
  | Some _ => Some (lb_scan (a :: b :: r) 0 0 max_int32) | None => None end.
Proof. reflexivity. Qed.

(** *** B3 *)
Theorem least_busy_single c : least_busy [c] = match c with Some _ => Some 0%nat | None => None end.
Proof. reflexivity. Qed.
Theorem least_busy_empty : least_busy [] = None.
Proof. reflexivity. Qed.

(** *** B2 (any length) *)
Theorem least_busy_picks_min_any slots i : below_max slots -> least_busy slots = Some i ->
  exists f, nth i slots None = Some f /\ (forall j g, nth j slots None = Some g -> f <= g)
            /\ (forall j g, (j < i)%nat -> nth j slots None = Some g -> f < g).
Proof.
  intros Hb H. destruct slots as [|a [|b r]].
  - discriminate.
  - rewrite least_busy_single in H. destruct a as [f|]; [|discriminate]. injection H as <-.
    exists f. split; [reflexivity|]. split; [|intros j g Hj; lia].
    intros [|[|j]] g Hg; cbn [nth] in Hg; try discriminate. injection Hg as <-. lia.
  - rewrite least_busy_long in H. remember (a :: b :: r) as l eqn:El.
    remember (lb_scan l 0 0 max_int32) as idx eqn:Eidx.
    destruct (nth idx l None) as [f0|] eqn:En; [|discriminate]. injection H as <-.
    destruct (lb_scan_spec l 0 0 max_int32) as [[Hr Hall]|(k & f & Hr & Hn & Hlt & Hmin & Hfirst)];
      rewrite <- Eidx in Hr.
    + exfalso. pose proof (Hall _ _ En). pose proof (below_max_nth _ Hb _ _ En). lia.
    + cbn [Nat.add] in Hr. clear Eidx. subst idx. exists f. split; [exact Hn|]. split; [exact Hmin|exact Hfirst].
Qed.

Theorem least_busy_picks_min slots i : (2 <= length slots)%nat -> below_max slots -> least_busy slots = Some i ->
  exists f, nth i slots None = Some f /\ (forall j g, nth j slots None = Some g -> f <= g)
            /\ (forall j g, (j < i)%nat -> nth j slots None = Some g -> f < g).
Proof. intros _. apply least_busy_picks_min_any. Qed.

Example least_busy_picks_min_ex :
  least_busy [Some 7; None; Some 3; Some 9; Some 3; None] = Some 2%nat
  /\ below_max [Some 7; None; Some 3; Some 9; Some 3; None].
Proof.
  split; [reflexivity|]. unfold below_max. repeat constructor; intros f Hf; try discriminate; injection Hf as <-; reflexivity.
Qed.

(** *** B1 (any length) *)
Theorem least_busy_none_iff_any slots : below_max slots -> (least_busy slots = None <-> all_nil slots).
Proof.
  intro Hb. destruct slots as [|a [|b r]].
  - split; [constructor|reflexivity].
  - rewrite least_busy_single. destruct a as [f|]; split; intro H; try discriminate.
    + inversion H as [|? ? Hf _]. discriminate.
    + repeat constructor.
    + reflexivity.
  - rewrite least_busy_long. remember (a :: b :: r) as l eqn:El.
    remember (lb_scan l 0 0 max_int32) as idx eqn:Eidx. split.
    + intro H. destruct (nth idx l None) as [f0|] eqn:En; [discriminate|].
      apply all_nil_nth. intros k g Hg.
      destruct (lb_scan_spec l 0 0 max_int32) as [[Hr Hall]|(k' & f & Hr & Hn & _)]; rewrite <- Eidx in Hr.
      * pose proof (Hall _ _ Hg). pose proof (below_max_nth _ Hb _ _ Hg). lia.
      * cbn [Nat.add] in Hr. clear Eidx. subst idx. congruence.
    + intro H. destruct (nth idx l None) as [f0|] eqn:En; [|reflexivity].
      exfalso. exact (proj1 (all_nil_nth l) H _ _ En).
Qed.

Theorem least_busy_none_iff slots : (2 <= length slots)%nat -> below_max slots ->
  (least_busy slots = None <-> Forall (fun c => c = None) slots).
Proof. intros _. apply least_busy_none_iff_any. Qed.

Example least_busy_none_iff_ex :
  least_busy [None; None; None] = None /\ least_busy [None; Some 0; None] = Some 1%nat.
Proof. split; reflexivity. Qed.

(** *** B4: the precondition is needed.  A pool whose only live connection reports exactly MaxInt32 requests in flight
    yields conns[0], which is nil.  (Not reachable: a connection has 2048 .. 32768 stream ids, so its in-flight count
    never exceeds 32768.) *)
Theorem least_busy_at_max_int32_refuted :
  exists slots, (2 <= length slots)%nat /\ ~ all_nil slots /\ least_busy slots = None.
Proof.
  exists [None; Some max_int32]. split; [cbn; lia|]. split; [|reflexivity].
  intro H. inversion H as [|? ? _ H']. inversion H' as [|? ? Hf _]. discriminate.
Qed.

(** with stream ids as the bound the precondition holds *)
Lemma below_max_of_stream_bound slots :
  Forall (fun c => forall f, c = Some f -> 0 <= f <= 32768) slots -> below_max slots.
Proof.
  unfold below_max. apply Forall_impl. intros c H f Hf. specialize (H f Hf). unfold max_int32. lia.
Qed.

(** ** C. one slot's stayConnected loop *)

Lemma sstep_disabled base mx s e : enabled s e = false -> sstep base mx s e = s.
Proof. intro H. unfold sstep. rewrite H. reflexivity. Qed.

Lemma sstep_arm base mx s j1 j2 : enabled s (SArm j1 j2) = true ->
  sstep base mx s (SArm j1 j2) =
  {| conn := false; pending := true;
     attempts := snd (next_delay base mx (snd (next_delay base mx (attempts s) j1)) j2);
     armed := fst (next_delay base mx (snd (next_delay base mx (attempts s) j1)) j2) :: armed s;
     finished := false |}.
Proof.
  intro H. unfold sstep. rewrite H. cbn [negb].
  destruct (next_delay base mx (attempts s) j1) as [d1 a1]. cbn [snd].
  destruct (next_delay base mx a1 j2) as [d2 a2]. reflexivity.
Qed.

Lemma sstep_closed base mx s : conn s = true -> finished s = false ->
  sstep base mx s SClosed =
  {| conn := false; pending := false; attempts := attempts s; armed := armed s; finished := false |}.
Proof. intros Hc Hf. unfold sstep, enabled. rewrite Hc, Hf. reflexivity. Qed.

Lemma sstep_timer base mx s ok : conn s = false -> pending s = true -> finished s = false ->
  sstep base mx s (STimer ok) =
  {| conn := ok; pending := false; attempts := if ok then 0 else attempts s; armed := armed s; finished := false |}.
Proof. intros Hc Hp Hf. unfold sstep, enabled. rewrite Hc, Hp, Hf. destruct ok; reflexivity. Qed.

Lemma srun_app base mx s a b : srun base mx s (a ++ b) = srun base mx (srun base mx s a) b.
Proof. unfold srun. apply fold_left_app. Qed.

(** *** C1: a loop that has not returned is connected, or waits for its timer, or can arm one *)
Theorem slot_never_stuck_any s : finished s = false ->
  conn s = true \/ pending s = true \/ (forall j1 j2, enabled s (SArm j1 j2) = true).
Proof.
  intro Hf. destruct (conn s) eqn:Hc; [left; reflexivity|]. destruct (pending s) eqn:Hp; [right; left; reflexivity|].
  right; right. intros j1 j2. unfold enabled. rewrite Hf, Hc, Hp. reflexivity.
Qed.

Theorem slot_never_stuck base mx c es : let s := srun base mx (slot0 c) es in finished s = false ->
  conn s = true \/ pending s = true \/ (forall j1 j2, enabled s (SArm j1 j2) = true).
Proof. intro s. apply slot_never_stuck_any. Qed.

Definition ex_events : list sevent :=
  [STimer true; SClosed; SArm 90 100; STimer false; SArm 85 114; STimer false; SArm 99 99; STimer true; SClosed].
Example slot_never_stuck_ex :
  let s := srun 2000000000 60000000000 (slot0 false) ex_events in
  finished s = false /\ conn s = false /\ pending s = false /\ enabled s (SArm 85 85) = true.
Proof. vm_compute. repeat split. Qed.

(** *** C2: one successful connect heals the slot and resets the policy *)
Theorem slot_heals base mx s : finished s = false -> conn s = false -> forall j1 j2,
  let s1 := if pending s then s else sstep base mx s (SArm j1 j2) in
  conn (sstep base mx s1 (STimer true)) = true /\ attempts (sstep base mx s1 (STimer true)) = 0.
Proof.
  intros Hf Hc j1 j2. destruct (pending s) eqn:Hp; cbn zeta.
  - rewrite sstep_timer by assumption. split; reflexivity.
  - rewrite sstep_arm by (unfold enabled; rewrite Hf, Hc, Hp; reflexivity).
    rewrite sstep_timer by reflexivity. split; reflexivity.
Qed.

Example slot_heals_ex :
  let s := srun 2000000000 60000000000 (slot0 false) ex_events in
  let s2 := sstep 2000000000 60000000000 (sstep 2000000000 60000000000 s (SArm 85 85)) (STimer true) in
  attempts s = 0 /\ conn s2 = true /\ attempts s2 = 0 /\ length (armed s2) = 4%nat.
Proof. vm_compute. repeat split. Qed.

(** *** C3: every armed delay is within bounds.  [next_delay_bounds] (TopologyProofs) gives base <= d <= max when
    0 < base <= max; the variant below needs no hypothesis at all (when max < base every delay is max). *)
Lemma next_delay_bounds_min base mx a j : Z.min base mx <= fst (next_delay base mx a j) <= mx.
Proof.
  unfold next_delay. destruct (a >=? max_attempts base); cbn [fst]; [lia|].
  set (d := wrap64 (wrap64 (base + wrap64 (ms * 2 ^ a)) + j * ms)).
  destruct (d >? mx) eqn:E1; cbn [orb]; [lia|]. destruct (d <? base) eqn:E2; lia.
Qed.

Lemma armed_step (P : Z -> Prop) base mx : (forall a j, P (fst (next_delay base mx a j))) ->
  forall s e, Forall P (armed s) -> Forall P (armed (sstep base mx s e)).
Proof.
  intros HP s e H. destruct (enabled s e) eqn:En; [|rewrite sstep_disabled by exact En; exact H].
  destruct e as [|j1 j2|ok|].
  - unfold sstep. rewrite En. exact H.
  - rewrite sstep_arm by exact En. cbn [armed]. constructor; [apply HP|exact H].
  - unfold sstep. rewrite En. destruct ok; exact H.
  - unfold sstep. rewrite En. exact H.
Qed.

Lemma armed_run (P : Z -> Prop) base mx : (forall a j, P (fst (next_delay base mx a j))) ->
  forall es s, Forall P (armed s) -> Forall P (armed (srun base mx s es)).
Proof.
  intros HP. induction es as [|e r IH]; intros s H; [exact H|]. unfold srun in *. cbn [fold_left].
  apply IH, armed_step; assumption.
Qed.

Definition jitters_legal (es : list sevent) : bool :=
  forallb (fun e => match e with SArm j1 j2 => jitter_ok j1 && jitter_ok j2 | _ => true end) es.

(** no hypothesis on base, max or the jitters is needed *)
Theorem armed_delays_within_bounds_any base mx c es :
  Forall (fun d => Z.min base mx <= d <= mx) (armed (srun base mx (slot0 c) es)).
Proof. apply armed_run; [apply next_delay_bounds_min|constructor]. Qed.

Theorem armed_delays_within_bounds base mx c es : jitters_legal es = true ->
  Forall (fun d => Z.min base mx <= d <= mx) (armed (srun base mx (slot0 c) es)).
Proof. intros _. apply armed_delays_within_bounds_any. Qed.

(** with the hypotheses of [next_delay_bounds]: between base and max *)
Theorem armed_delays_between_base_and_max base mx c es : 0 < base -> base <= mx ->
  Forall (fun d => base <= d <= mx) (armed (srun base mx (slot0 c) es)).
Proof. intros Hb Hm. apply armed_run; [intros a j; apply next_delay_bounds; assumption|constructor]. Qed.

Example armed_delays_within_bounds_ex :
  jitters_legal ex_events = true /\
  armed (srun 2000000000 60000000000 (slot0 false) ex_events) = [2131000000; 2122000000; 2102000000].
Proof. vm_compute. split; reflexivity. Qed.

(** *** C4: after a successful connect the policy starts over *)
Definition reset_when_connected (s : slot) : Prop := conn s = true -> attempts s = 0.

Lemma reset_when_connected_step base mx s e : reset_when_connected s -> reset_when_connected (sstep base mx s e).
Proof.
  intro H. destruct (enabled s e) eqn:En; [|rewrite sstep_disabled by exact En; exact H].
  destruct e as [|j1 j2|ok|].
  - unfold sstep. rewrite En. intro Hc. discriminate.
  - rewrite sstep_arm by exact En. intro Hc. discriminate.
  - unfold sstep. rewrite En. destruct ok; intro Hc; [reflexivity|discriminate].
  - unfold sstep. rewrite En. exact H.
Qed.

Lemma reset_when_connected_run base mx : forall es s, reset_when_connected s -> reset_when_connected (srun base mx s es).
Proof.
  induction es as [|e r IH]; intros s H; [exact H|]. unfold srun in *. cbn [fold_left].
  apply IH, reset_when_connected_step, H.
Qed.

Theorem backoff_resets_after_success base mx c es j1 j2 :
  let s := srun base mx (slot0 c) es in conn s = true -> finished s = false ->
  armed (srun base mx s [SClosed; SArm j1 j2])
  = fst (next_delay base mx (snd (next_delay base mx 0 j1)) j2) :: armed s.
Proof.
  intros s Hc Hf.
  assert (Ha : attempts s = 0) by (apply (reset_when_connected_run base mx es (slot0 c)); [intros _; reflexivity|exact Hc]).
  unfold srun at 1. cbn [fold_left]. rewrite sstep_closed by assumption.
  rewrite sstep_arm by reflexivity. cbn [armed attempts]. rewrite Ha. reflexivity.
Qed.

(** the delay a fresh slot arms for its very first reconnect, with the same jitters *)
Example backoff_resets_after_success_ex :
  let b := 2000000000 in let m := 60000000000 in
  let s := srun b m (slot0 false) [STimer false; SArm 90 100; STimer false; SArm 85 114; STimer true] in
  conn s = true /\ armed s = [2122000000; 2102000000]
  /\ armed (srun b m s [SClosed; SArm 90 100]) = 2102000000 :: armed s
  /\ armed (srun b m (slot0 true) [SClosed; SArm 90 100]) = [2102000000].
Proof. vm_compute. repeat split. Qed.

(** *** C5: two draws of the policy per reconnect attempt *)
Definition failed_rounds (js : list (Z * Z)) : list sevent :=
  flat_map (fun p => [SArm (fst p) (snd p); STimer false]) js.
Definition draws (js : list (Z * Z)) : list Z := flat_map (fun p => [fst p; snd p]) js.
Definition attempts_after (base mx a : Z) (js : list Z) : Z :=
  fold_left (fun a j => snd (next_delay base mx a j)) js a.
Fixpoint odds {A} (l : list A) : list A := match l with _ :: b :: r => b :: odds r | _ => [] end.
Definition idle (s : slot) : Prop := conn s = false /\ pending s = false /\ finished s = false.

(** after k failed rounds the counter is the one after 2k draws, and the delays used are draws 1, 3, 5, ... (0-based)
    of the policy's sequence; draws 0, 2, 4, ... were only logged *)
Theorem two_draws_per_attempt_general base mx : forall js s, idle s ->
  let s' := srun base mx s (failed_rounds js) in
  attempts s' = attempts_after base mx (attempts s) (draws js)
  /\ armed s' = rev (odds (delays base mx (attempts s) (draws js))) ++ armed s
  /\ idle s'.
Proof.
  induction js as [|[j1 j2] r IH]; intros s Hi; cbn zeta.
  - cbn. repeat split; apply Hi.
  - destruct Hi as (Hc & Hp & Hf).
    change (failed_rounds ((j1, j2) :: r)) with ([SArm j1 j2; STimer false] ++ failed_rounds r).
    rewrite srun_app.
    assert (E1 : srun base mx s [SArm j1 j2; STimer false] =
                 {| conn := false; pending := false;
                    attempts := snd (next_delay base mx (snd (next_delay base mx (attempts s) j1)) j2);
                    armed := fst (next_delay base mx (snd (next_delay base mx (attempts s) j1)) j2) :: armed s;
                    finished := false |}).
    { unfold srun. cbn [fold_left].
      rewrite sstep_arm by (unfold enabled; rewrite Hc, Hp, Hf; reflexivity).
      rewrite sstep_timer by reflexivity. reflexivity. }
    rewrite E1. clear E1.
    match goal with |- context [srun base mx ?x (failed_rounds r)] => set (s1 := x) end.
    destruct (IH s1) as (IA & IB & IC); [repeat split|].
    rewrite IA, IB. split; [|split; [|exact IC]].
    + subst s1. cbn [attempts]. reflexivity.
    + subst s1. cbn [attempts armed draws flat_map fst snd app delays].
      destruct (next_delay base mx (attempts s) j1) as [d1 a1]. cbn [snd].
      destruct (next_delay base mx a1 j2) as [d2 a2]. cbn [snd fst odds rev].
      rewrite <- app_assoc. reflexivity.
Qed.

Lemma snd_next_delay base mx a j :
  snd (next_delay base mx a j) = if a >=? max_attempts base then a else a + 1.
Proof. unfold next_delay. destruct (a >=? max_attempts base); reflexivity. Qed.

Lemma attempts_after_closed base mx : forall js a, a <= max_attempts base ->
  attempts_after base mx a js = Z.min (a + Z.of_nat (length js)) (max_attempts base).
Proof.
  unfold attempts_after. induction js as [|j r IH]; intros a Ha; cbn [fold_left length].
  - lia.
  - rewrite snd_next_delay. destruct (a >=? max_attempts base) eqn:E.
    + rewrite IH by lia. lia.
    + rewrite IH by lia. lia.
Qed.

Lemma length_draws js : length (draws js) = (2 * length js)%nat.
Proof.
  induction js as [|p r IH]; [reflexivity|]. change (draws (p :: r)) with (fst p :: snd p :: draws r).
  cbn [length]. rewrite IH. lia.
Qed.

(** the headline: from a fresh slot (counter 0) the counter after k failed reconnects is the counter after 2k draws ... *)
Theorem two_draws_per_attempt_observation base mx s js : idle s -> attempts s = 0 ->
  attempts (srun base mx s (failed_rounds js)) = attempts_after base mx 0 (draws js)
  /\ length (draws js) = (2 * length js)%nat
  /\ rev (armed (srun base mx s (failed_rounds js))) = rev (armed s) ++ odds (delays base mx 0 (draws js)).
Proof.
  intros Hi Ha. destruct (two_draws_per_attempt_general base mx js s Hi) as (A & B & _).
  rewrite Ha in *. split; [exact A|]. split; [apply length_draws|]. rewrite B, rev_app_distr, rev_involutive. reflexivity.
Qed.

(** ... which is min (2k) max_attempts, not min k max_attempts: the backoff runs through its exponents twice as fast *)
Corollary two_draws_counter_closed_form base mx s js : 0 < base -> idle s -> attempts s = 0 ->
  attempts (srun base mx s (failed_rounds js)) = Z.min (2 * Z.of_nat (length js)) (max_attempts base).
Proof.
  intros Hb Hi Ha. rewrite (proj1 (two_draws_per_attempt_observation base mx s js Hi Ha)).
  assert (0 <= max_attempts base).
  { unfold max_attempts. destruct (base =? 0) eqn:E; [lia|]. destruct (base <? 0) eqn:E'; [lia|apply Z.log2_nonneg]. }
  rewrite attempts_after_closed by lia. rewrite length_draws. lia.
Qed.

Example two_draws_per_attempt_ex :
  let b := 2000000000 in let m := 60000000000 in
  let s := srun b m (slot0 false) [STimer false] in
  let js := [(90, 100); (85, 114); (99, 99)] in
  conn s = false /\ pending s = false /\ finished s = false /\ attempts s = 0
  /\ attempts (srun b m s (failed_rounds js)) = 6
  /\ delays b m 0 (draws js) = [2091000000; 2102000000; 2089000000; 2122000000; 2115000000; 2131000000]
  /\ armed (srun b m s (failed_rounds js)) = [2131000000; 2122000000; 2102000000].
Proof. vm_compute. repeat split. Qed.

(** *** C6: a loop that has returned does nothing *)
Theorem cancelled_slot_is_silent base mx s : finished s = true -> forall e, sstep base mx s e = s.
Proof. intros Hf e. apply sstep_disabled. unfold enabled. rewrite Hf. reflexivity. Qed.

Example cancelled_slot_is_silent_ex :
  let s := srun 2000000000 60000000000 (slot0 true) [SClosed; SArm 90 100; SCancel] in
  finished s = true /\ srun 2000000000 60000000000 s [STimer true; SClosed; SArm 85 85; SCancel] = s.
Proof. vm_compute. split; reflexivity. Qed.

(** ** assumptions *)
Print Assumptions table_follows_any_history.
Print Assumptions table_follows_listed.
Print Assumptions table_entries_alive.
Print Assumptions orig_add_kills_the_pool_refuted.
Print Assumptions orig_never_recovers.
Print Assumptions orig_never_recovers_no_boot.
Print Assumptions orig_never_recovers_no_store.
Print Assumptions stale_pool_observation.
Print Assumptions settled_host_usable_iff_listed.
Print Assumptions unlisted_after_boot_has_no_pool.
Print Assumptions unlisted_after_boot_equality_refuted.
Print Assumptions unlisted_after_boot_has_no_pool_partial.
Print Assumptions least_busy_none_iff.
Print Assumptions least_busy_none_iff_any.
Print Assumptions least_busy_picks_min.
Print Assumptions least_busy_picks_min_any.
Print Assumptions least_busy_single.
Print Assumptions least_busy_empty.
Print Assumptions least_busy_at_max_int32_refuted.
Print Assumptions slot_never_stuck.
Print Assumptions slot_heals.
Print Assumptions armed_delays_within_bounds.
Print Assumptions armed_delays_within_bounds_any.
Print Assumptions armed_delays_between_base_and_max.
Print Assumptions backoff_resets_after_success.
Print Assumptions two_draws_per_attempt_general.
Print Assumptions two_draws_per_attempt_observation.
Print Assumptions two_draws_counter_closed_form.
Print Assumptions cancelled_slot_is_silent.
