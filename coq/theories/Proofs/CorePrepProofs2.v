(** Proofs about Model/CorePrep.v, part 2: what one step writes (at most one output, and why: the
    classification [step_out]), which step emitted a given output, C08 (P5: the client is handed
    UNPREPARED only for a frame the proxy could not handle from its cache; P6: a refused
    re-preparation makes the request move on; P7: a successful one re-executes on the same host;
    P8: one PREPARE of the proxy per UNPREPARED frame), C04 (P3: nothing is written for a
    non-idempotent request at or after an unsafe final outcome), C05 (P4: writes follow the plan,
    one extra write per successful re-preparation), and worked examples.
    Adapted from Proofs/CoreProofs2.v. *)
From Coq Require Import List ZArith NArith Bool Lia Permutation Arith.
From CqlProxy Require Import Lib.Val Lib.Util Gen.Tables Model.Retry Proofs.RetryProofs Model.CorePrep Proofs.CorePrepProofs.
Import ListNotations.
Local Open Scope N_scope.

Local Arguments handle_error : simpl never.

(** ** writes for one request: of the request itself, and of the proxy's PREPARE standing in for it *)
Definition writes_of (r : rid) (l : list output) : list (cid * N) :=
  flat_map (fun o => match o with ToBackend k s r' => if r' =? r then [(k, s)] else [] | _ => [] end) l.
Definition pwrites_of (r : rid) (l : list output) : list (cid * N) :=
  flat_map (fun o => match o with ToBackendPrepare k s r' => if r' =? r then [(k, s)] else [] | _ => [] end) l.

Lemma backend_writes_eq w r : backend_writes w r = writes_of r (w_out w).
Proof. reflexivity. Qed.
Lemma prepare_writes_eq w r : prepare_writes w r = pwrites_of r (w_out w).
Proof. reflexivity. Qed.

Lemma writes_of_app r a b : writes_of r (a ++ b) = writes_of r a ++ writes_of r b.
Proof. unfold writes_of. apply flat_map_app. Qed.
Lemma pwrites_of_app r a b : pwrites_of r (a ++ b) = pwrites_of r a ++ pwrites_of r b.
Proof. unfold pwrites_of. apply flat_map_app. Qed.

Lemma writes_of_other r l : Forall (fun o => out_req o <> r) l -> writes_of r l = [] /\ pwrites_of r l = [].
Proof.
  intros F. induction F as [|o l Ho _ (IH1 & IH2)]; [split; reflexivity|]. cbn [writes_of pwrites_of flat_map].
  fold (writes_of r l). fold (pwrites_of r l). rewrite IH1, IH2, !app_nil_r.
  destruct o as [k s r'|k s r'|]; cbn [out_req] in Ho; try (split; reflexivity);
    (destruct (N.eqb_spec r' r); [contradiction|split; reflexivity]).
Qed.

Lemma Forall_out_other a r l : Forall (fun o => out_req o = a) l -> a <> r -> Forall (fun o => out_req o <> r) l.
Proof. intros F Hne. eapply Forall_impl; [|exact F]. cbn. intros o E. congruence. Qed.

Lemma writes_of_in r l k s : In (k, s) (writes_of r l) <-> In (ToBackend k s r) l.
Proof.
  unfold writes_of. rewrite in_flat_map. split.
  - intros (o & Hin & Ho). destruct o as [k' s' r'| |]; try destruct Ho.
    destruct (N.eqb_spec r' r) as [->|]; [|destruct Ho]. destruct Ho as [E|[]]. inversion E; subst. exact Hin.
  - intro Hin. exists (ToBackend k s r). split; [exact Hin|]. rewrite N.eqb_refl. left. reflexivity.
Qed.

(** ** small facts about the operations *)
Definition is_start (e : event) : bool := match e with EStart _ _ _ _ _ _ => true | _ => false end.
Definition starts (e : event) (r : rid) : bool := match e with EStart r' _ _ _ _ _ => r' =? r | _ => false end.

Lemma exec_internal_done orig w r next o q :
  lookupN r (w_reqs w) = Some q -> q_done q = true -> exec_internal orig w r next o = w.
Proof. intros Hq Hd. unfold exec_internal. rewrite Hq, Hd. reflexivity. Qed.

Lemma exec_internal_unknown orig w r next o : lookupN r (w_reqs w) = None -> exec_internal orig w r next o = w.
Proof. intros Hq. unfold exec_internal. rewrite Hq. reflexivity. Qed.

Lemma reply_once_done w r what q : lookupN r (w_reqs w) = Some q -> q_done q = true -> reply_once w r what = w.
Proof. intros Hq Hd. unfold reply_once. rewrite Hq, Hd. reflexivity. Qed.

Lemma reply_once_unknown w r what : lookupN r (w_reqs w) = None -> reply_once w r what = w.
Proof. intros Hq. unfold reply_once. rewrite Hq. reflexivity. Qed.

Lemma bump_retry_out w r : w_out (bump_retry w r) = w_out w.
Proof. unfold bump_retry. destruct (lookupN r (w_reqs w)); reflexivity. Qed.

Lemma bump_retry_conns w r : w_conns (bump_retry w r) = w_conns w.
Proof. unfold bump_retry. destruct (lookupN r (w_reqs w)); reflexivity. Qed.

Lemma live_lookup_inv w k s ent : lookupN s (live w k) = Some ent ->
  exists c, lookupN k (w_conns w) = Some c /\ b_closing c = false /\ lookupN s (b_pending c) = Some ent.
Proof.
  unfold live. destruct (lookupN k (w_conns w)) as [c|]; [|discriminate].
  destruct (b_closing c) eqn:Hcl; [discriminate|]. intro H. exists c. auto.
Qed.

Lemma live_lookup_intro w k s c ent :
  lookupN k (w_conns w) = Some c -> b_closing c = false -> lookupN s (b_pending c) = Some ent ->
  lookupN s (live w k) = Some ent.
Proof. intros Hk Hcl Hs. unfold live. rewrite Hk, Hcl. exact Hs. Qed.

Lemma send_to_cases orig w r h ch :
  match send_to orig w r h ch with
  | (w1, SentOk) => exists k s c1, ch = Some (k, true) /\ w_out w1 = w_out w ++ [ToBackend k s r] /\
                                   lookupN k (w_conns w1) = Some c1 /\ b_host c1 = h /\ b_closing c1 = false /\
                                   In (s, EReq r) (b_pending c1) /\ w_reqs w1 = w_reqs w
  | (w1, SendErr) => w_out w1 = w_out w /\ w_reqs w1 = w_reqs w
  end.
Proof.
  unfold send_to. destruct ch as [[k ok]|]; [|auto].
  destruct (lookupN k (w_conns w)) as [c|] eqn:Hk; [|auto].
  destruct (b_host c =? h) eqn:Hh; cbn [negb]; [|auto]. apply N.eqb_eq in Hh.
  destruct (b_closing c); [auto|]. destruct (b_free c) as [|s fr]; [auto|].
  destruct ok; [|destruct orig; auto].
  eexists k, s, _. rewrite out_emit, out_set_conn, conns_emit, conns_set_conn, lookupN_updateN_same.
  split; [reflexivity|]. split; [reflexivity|]. split; [reflexivity|]. split; [exact Hh|].
  split; [reflexivity|]. split; [left; reflexivity|reflexivity].
Qed.

Lemma send_prepare_cases w k r nested ok :
  match send_prepare w k r nested ok with
  | (w1, SentOk) => exists s c1, ok = true /\ w_out w1 = w_out w ++ [ToBackendPrepare k s r] /\ w_reqs w1 = w_reqs w /\
                                 lookupN k (w_conns w1) = Some c1 /\ b_closing c1 = false /\ In (s, EPrep r nested) (b_pending c1)
  | (w1, SendErr) => w1 = w
  end.
Proof.
  unfold send_prepare. destruct (lookupN k (w_conns w)) as [c|] eqn:Hk; [|reflexivity].
  destruct (b_closing c); cbn [orb]; [reflexivity|]. destruct ok; cbn [negb]; [|reflexivity].
  destruct (b_free c) as [|s fr]; [reflexivity|].
  eexists s, _. rewrite out_emit, out_set_conn, conns_emit, conns_set_conn, lookupN_updateN_same.
  split; [reflexivity|]. split; [reflexivity|]. split; [reflexivity|]. split; [reflexivity|].
  split; [reflexivity|left; reflexivity].
Qed.

(** ** what executeInternal does: it writes the request to the first host of the rest of the plan that
    takes it, or answers "no hosts" with the plan exhausted *)
Inductive exec_outcome (out : list output) (r : rid) (q : creq) (p : list N) (w' : world) : Prop :=
| eo_sent skipped h p' k s c1 :
    p = skipped ++ h :: p' -> w_out w' = out ++ [ToBackend k s r] ->
    lookupN r (w_reqs w') = Some (with_host q (Some h) p') ->
    lookupN k (w_conns w') = Some c1 -> b_host c1 = h -> b_closing c1 = false -> In (s, EReq r) (b_pending c1) ->
    exec_outcome out r q p w'
| eo_nohosts q' :
    w_out w' = out ++ [ToClient (q_client q) (q_cstream q) r CNoHosts] ->
    lookupN r (w_reqs w') = Some q' -> q_done q' = true -> q_plan q' = [] ->
    exec_outcome out r q p w'.

Lemma exec_next_outcome orig r : forall p o w q, q_done q = false ->
  exec_outcome (w_out w) r q p (exec_next orig w r q p o).
Proof.
  induction p as [|h p' IH]; intros o w q Hd; cbn [exec_next].
  - unfold reply_once. rewrite reqs_set_req, lookupN_updateN_same. cbn [with_host q_done]. rewrite Hd.
    eapply eo_nohosts.
    + rewrite out_emit, !out_set_req. reflexivity.
    + rewrite reqs_emit, reqs_set_req. apply lookupN_updateN_same.
    + reflexivity.
    + reflexivity.
  - set (w0 := set_req w r (with_host q (Some h) p')).
    pose proof (send_to_cases orig w0 r h (hd None o)) as C.
    destruct (send_to orig w0 r h (hd None o)) as [w1 res]. destruct res.
    + destruct C as (k & s & c1 & _ & Ho & Hk1 & Hh1 & Hcl1 & Hin1 & Hr1).
      eapply (eo_sent _ _ _ _ _ [] h p' k s c1); try eassumption; [reflexivity|].
      rewrite Hr1. unfold w0. rewrite reqs_set_req. apply lookupN_updateN_same.
    + destruct C as (Ho & Hr1).
      pose proof (IH (tl o) w1 (with_host q (Some h) p') Hd) as O. rewrite Ho in O. change (w_out w0) with (w_out w) in O.
      destruct O as [skipped h' p'' k s c1 Hp Hout Hq' Hk1 Hh1 Hcl1 Hin1|q' Hout Hq' Hd' Hp'].
      * eapply (eo_sent _ _ _ _ _ (h :: skipped) h' p'' k s c1); try eassumption. rewrite Hp. reflexivity.
      * eapply eo_nohosts; eassumption.
Qed.

(** the three things executeInternal can do to the output, and that it acts only for a started,
    unanswered request *)
Definition exec_out (w : world) (r : rid) (w' : world) : Prop :=
  w_out w' = w_out w \/
  (exists q, lookupN r (w_reqs w) = Some q /\ q_done q = false) /\
  ((exists k s, w_out w' = w_out w ++ [ToBackend k s r]) \/
   (exists c s, w_out w' = w_out w ++ [ToClient c s r CNoHosts])).

Lemma exec_internal_out orig w r next o : exec_out w r (exec_internal orig w r next o).
Proof.
  unfold exec_internal. destruct (lookupN r (w_reqs w)) as [q|] eqn:Hq; [|left; reflexivity].
  destruct (q_done q) eqn:Hd; [left; reflexivity|]. right. split; [exists q; auto|].
  assert (Hn : forall w1 oo, w_out w1 = w_out w ->
             (exists k s, w_out (exec_next orig w1 r q (q_plan q) oo) = w_out w ++ [ToBackend k s r]) \/
             (exists c s, w_out (exec_next orig w1 r q (q_plan q) oo) = w_out w ++ [ToClient c s r CNoHosts])).
  { intros w1 oo E. rewrite <- E. destruct (exec_next_outcome orig r (q_plan q) oo w1 q Hd); [left|right]; eauto. }
  destruct next; [apply Hn; reflexivity|].
  destruct (q_host q) as [h|].
  - pose proof (send_to_cases orig w r h (hd None o)) as C.
    destruct (send_to orig w r h (hd None o)) as [w1 res]. destruct res.
    + destruct C as (k & s & c1 & _ & Ho & _). left. eauto.
    + destruct C as (Ho & _). apply Hn. exact Ho.
  - right. unfold reply_once. rewrite Hq, Hd. rewrite out_emit, out_set_req. eauto.
Qed.

Lemma reply_once_out w r what :
  w_out (reply_once w r what) = w_out w \/
  exists q, lookupN r (w_reqs w) = Some q /\ q_done q = false /\
            w_out (reply_once w r what) = w_out w ++ [ToClient (q_client q) (q_cstream q) r what].
Proof.
  unfold reply_once. destruct (lookupN r (w_reqs w)) as [q|]; [|left; reflexivity].
  destruct (q_done q) eqn:Hd; [left; reflexivity|]. right. exists q. rewrite out_emit, out_set_req. auto.
Qed.

(** ** what one step writes: at most one output, for the request on whose behalf the event acts *)
Definition delivered (w : world) (e : event) : option (entry * bframe) :=
  match e with
  | EFrame k s f _ => match lookupN s (live w k) with Some ent => Some (ent, f) | None => None end
  | _ => None
  end.

Definition fkind_of (f : bframe) : option fkind :=
  match f with
  | FResult => Some KResult
  | FError _ => Some KError
  | FUnprepared false _ => Some KUnprepared
  | FUnprepared true _ => None
  end.

(** why executeInternal ran in this step: the start of the request, a frame delivered to one of its
    entries that makes it go on (a retried error or a refused re-PREPARE for the request itself; any
    answer to the proxy's own PREPARE), or the close notification of an idempotent request *)
Definition exec_cause (w : world) (e : event) : Prop :=
  match e with
  | EStart r _ _ _ _ _ => lookupN r (w_reqs w) = None
  | EFrame k s f _ =>
      exists ent q, lookupN s (live w k) = Some ent /\ lookupN (entry_req ent) (w_reqs w) = Some q /\ q_done q = false /\
        match ent, f with
        | EReq _, FError m => handle_error (q_idem q) m (q_retry q) <> dec_ReturnError
        | EReq _, FUnprepared true ok => ok = false
        | EReq _, _ => False
        | EPrep _ _, FUnprepared true ok => ok = false
        | EPrep _ _, _ => True
        end
  | ENotify k ent _ =>
      exists c q, lookupN k (w_conns w) = Some c /\ In ent (b_tonotify c) /\
                  lookupN (entry_req ent) (w_reqs w) = Some q /\ q_done q = false /\ q_idem q = true
  | _ => False
  end.

Inductive step_out (w : world) (e : event) : list output -> Prop :=
| so_none : step_out w e []
| so_write k s : exec_cause w e -> step_out w e [ToBackend k s (active w e)]
| so_nohosts c s : exec_cause w e -> step_out w e [ToClient c s (active w e) CNoHosts]
| so_prepare k s s0 o ent :
    e = EFrame k s (FUnprepared true true) o -> lookupN s (live w k) = Some ent ->
    step_out w e [ToBackendPrepare k s0 (entry_req ent)]
| so_forward k s f o r c cs kd :
    e = EFrame k s f o -> lookupN s (live w k) = Some (EReq r) -> fkind_of f = Some kd ->
    (forall m, f = FError m -> exists q, lookupN r (w_reqs w) = Some q /\
                                         (handle_error (q_idem q) m (q_retry q) =? dec_RetryNext) = false /\
                                         (handle_error (q_idem q) m (q_retry q) =? dec_RetrySame) = false) ->
    step_out w e [ToClient c cs r (CFrame k s kd)]
| so_connlost k ent o c cs cn q :
    e = ENotify k ent o -> lookupN k (w_conns w) = Some cn -> In ent (b_tonotify cn) ->
    lookupN (entry_req ent) (w_reqs w) = Some q -> q_idem q = false ->
    step_out w e [ToClient c cs (entry_req ent) CConnLost].

Lemma dec_distinct : (dec_ReturnError =? dec_RetryNext) = false /\ (dec_ReturnError =? dec_RetrySame) = false.
Proof. vm_compute. auto. Qed.

Lemma exec_out_step_out w e w1 w' :
  exec_out w1 (active w e) w' -> w_out w1 = w_out w ->
  ((exists q, lookupN (active w e) (w_reqs w1) = Some q /\ q_done q = false) -> exec_cause w e) ->
  exists d, w_out w' = w_out w ++ d /\ step_out w e d.
Proof.
  intros [E|(Hq & [(k & s & E)|(c & s & E)])] Ho Hc.
  - exists []. rewrite app_nil_r, E, Ho. split; [reflexivity|constructor].
  - eexists. rewrite E, Ho. split; [reflexivity|]. apply so_write. exact (Hc Hq).
  - eexists. rewrite E, Ho. split; [reflexivity|]. apply so_nohosts. exact (Hc Hq).
Qed.

Lemma send_prepare_popped_ok w k c s r nested :
  snd (send_prepare (set_conn w k (popped c s)) k r nested true) = SentOk.
Proof.
  unfold send_prepare. rewrite conns_set_conn, lookupN_updateN_same. cbn [popped b_closing b_free orb negb].
  destruct (b_free c); reflexivity.
Qed.

Theorem step_out_cases orig w e : exists d, w_out (step_gen orig w e) = w_out w ++ d /\ step_out w e d.
Proof.
  assert (Hnone : forall w', w_out w' = w_out w -> exists d, w_out w' = w_out w ++ d /\ step_out w e d).
  { intros w' E. exists []. rewrite app_nil_r. split; [exact E|constructor]. }
  destruct e as [r cl cs idem p o|k s f o|k|k ent o|k h n]; cbn [step_gen].
  - (* EStart *)
    destruct (lookupN r (w_reqs w)) as [q|] eqn:Hq; [apply Hnone; reflexivity|].
    eapply (exec_out_step_out w (EStart r cl cs idem p o)); [apply exec_internal_out|reflexivity|].
    intros _. exact Hq.
  - (* EFrame *)
    destruct (lookupN k (w_conns w)) as [c|] eqn:Hk; [|apply Hnone; reflexivity].
    destruct (b_closing c) eqn:Hcl; [apply Hnone; reflexivity|].
    destruct (lookupN s (b_pending c)) as [ent|] eqn:Hs; [|apply Hnone; reflexivity].
    fold (popped c s). set (w1 := set_conn w k (popped c s)).
    pose proof (live_lookup_intro w k s c ent Hk Hcl Hs) as Hl.
    assert (Ha : active w (EFrame k s f o) = entry_req ent) by (cbn [active]; rewrite Hk, Hs; reflexivity).
    assert (HX : forall next w2,
                 (forall q2, lookupN (entry_req ent) (w_reqs w2) = Some q2 -> q_done q2 = false ->
                    exists q, lookupN (entry_req ent) (w_reqs w) = Some q /\ q_done q = false /\
                    match ent, f with
                    | EReq _, FError m => handle_error (q_idem q) m (q_retry q) <> dec_ReturnError
                    | EReq _, FUnprepared true ok => ok = false
                    | EReq _, _ => False
                    | EPrep _ _, FUnprepared true ok => ok = false
                    | EPrep _ _, _ => True
                    end) ->
                 w_out w2 = w_out w ->
                 exists d, w_out (exec_internal orig w2 (entry_req ent) next o) = w_out w ++ d /\ step_out w (EFrame k s f o) d).
    { intros next w2 Hc Ho. eapply (exec_out_step_out w (EFrame k s f o) w2).
      - rewrite Ha. apply exec_internal_out.
      - exact Ho.
      - rewrite Ha. intros (q2 & Hq2 & Hd2). destruct (Hc q2 Hq2 Hd2) as (q & Hq & Hd & Hm).
        cbn [exec_cause]. exists ent, q. auto. }
    assert (HP : forall nested ok, f = FUnprepared true ok ->
               exists d, w_out (let '(w2, res) := send_prepare w1 k (entry_req ent) nested ok in
                                match res with SentOk => w2 | SendErr => exec_internal orig w2 (entry_req ent) true o end)
                         = w_out w ++ d /\ step_out w (EFrame k s f o) d).
    { intros nested ok Hf. pose proof (send_prepare_cases w1 k (entry_req ent) nested ok) as C.
      destruct (send_prepare w1 k (entry_req ent) nested ok) as [w2 res] eqn:ES. destruct res.
      - destruct C as (s0 & c1 & -> & Ho & _). eexists. split; [exact Ho|]. subst f. eapply so_prepare; [reflexivity|exact Hl].
      - subst w2. assert (Hok : ok = false).
        { destruct ok; [|reflexivity]. pose proof (send_prepare_popped_ok w k c s (entry_req ent) nested) as E.
          fold w1 in E. rewrite ES in E. discriminate. }
        apply (HX true w1); [|reflexivity]. intros q Hq Hd. exists q. subst f. destruct ent; auto. }
    destruct ent as [r|r nested]; cbn [entry_req] in *.
    + destruct f as [|m|[|] ok]; try (apply (HP false ok); reflexivity);
        change (w_reqs w1) with (w_reqs w); (destruct (lookupN r (w_reqs w)) as [q|] eqn:Hq; [|apply Hnone; reflexivity]);
        (destruct (q_done q) eqn:Hd; [apply Hnone; reflexivity|]).
      * destruct (reply_once_out w1 r (CFrame k s KResult)) as [E|(q' & _ & _ & E)]; [apply Hnone; exact E|].
        eexists. split; [exact E|]. eapply so_forward; [reflexivity|exact Hl|reflexivity|discriminate].
      * cbv zeta. destruct (handle_error (q_idem q) m (q_retry q) =? dec_RetryNext) eqn:E1.
        { apply (HX true); [|rewrite bump_retry_out; reflexivity]. intros _ _ _. exists q. split; [first [exact Hq|reflexivity]|]. split; [exact Hd|].
          intro E. rewrite E in E1. rewrite (proj1 dec_distinct) in E1. discriminate. }
        destruct (handle_error (q_idem q) m (q_retry q) =? dec_RetrySame) eqn:E2.
        { apply (HX false); [|rewrite bump_retry_out; reflexivity]. intros _ _ _. exists q. split; [first [exact Hq|reflexivity]|]. split; [exact Hd|].
          intro E. rewrite E in E2. rewrite (proj2 dec_distinct) in E2. discriminate. }
        destruct (reply_once_out w1 r (CFrame k s KError)) as [E|(q' & _ & _ & E)]; [apply Hnone; exact E|].
        eexists. split; [exact E|]. eapply so_forward; [reflexivity|exact Hl|reflexivity|].
        intros m' Em. inversion Em; subst m'. exists q. auto.
      * destruct (reply_once_out w1 r (CFrame k s KUnprepared)) as [E|(q' & _ & _ & E)]; [apply Hnone; exact E|].
        eexists. split; [exact E|]. eapply so_forward; [reflexivity|exact Hl|reflexivity|discriminate].
    + destruct f as [|m|[|] ok]; try (apply (HP true ok); reflexivity);
        (apply (HX _ w1); [|reflexivity]; intros q Hq Hd; exists q; auto).
  - (* ECloseBegin *)
    destruct (lookupN k (w_conns w)) as [c|]; [|apply Hnone; reflexivity].
    destruct (b_closing c); apply Hnone; reflexivity.
  - (* ENotify *)
    destruct (lookupN k (w_conns w)) as [c|] eqn:Hk; [|apply Hnone; reflexivity].
    destruct (existsb (entry_eqb ent) (b_tonotify c)) eqn:Hex; cbn [negb]; [|apply Hnone; reflexivity].
    apply existsb_eqb_in in Hex.
    match goal with |- context [set_conn w k ?cc] => set (w1 := set_conn w k cc) end.
    change (w_reqs w1) with (w_reqs w).
    destruct (lookupN (entry_req ent) (w_reqs w)) as [q|] eqn:Hq; [|apply Hnone; reflexivity].
    destruct (q_idem q) eqn:Hi.
    + eapply (exec_out_step_out w (ENotify k ent o) w1); [apply exec_internal_out|reflexivity|].
      cbn [active]. change (w_reqs w1) with (w_reqs w). intros (q2 & Hq2 & Hd2). rewrite Hq in Hq2. inversion Hq2; subst q2.
      cbn [exec_cause]. exists c, q. auto.
    + destruct (reply_once_out w1 (entry_req ent) CConnLost) as [E|(q' & _ & _ & E)]; [apply Hnone; exact E|].
      eexists. split; [exact E|]. eapply so_connlost; [reflexivity|exact Hk|exact Hex|exact Hq|exact Hi].
  - (* EConnect *)
    destruct (lookupN k (w_conns w)) as [c|]; apply Hnone; reflexivity.
Qed.

Lemma step_out_length w e d : step_out w e d -> (length d <= 1)%nat.
Proof. intro H. destruct H; cbn [length]; lia. Qed.

Lemma step_out_req w e d : step_out w e d -> Forall (fun o => out_req o = active w e) d.
Proof.
  intro H. destruct H as [| | |k s s0 o ent -> Hl|k s f o r c cs kd -> Hl _ _|k ent o c cs cn q -> _ _ _ _];
    constructor; try constructor; cbn [out_req active]; try reflexivity.
  - destruct (live_lookup_inv _ _ _ _ Hl) as (c & Hk & _ & Hs). rewrite Hk, Hs. reflexivity.
  - destruct (live_lookup_inv _ _ _ _ Hl) as (c0 & Hk & _ & Hs). rewrite Hk, Hs. reflexivity.
Qed.

(** every step writes at most one output *)
Theorem prep_one_output_per_event : forall es e,
  exists d, w_out (run_events (es ++ [e])) = w_out (run_events es) ++ d /\ (length d <= 1)%nat.
Proof.
  intros es e. rewrite run_events_app. cbn [fold_left]. destruct (step_out_cases false (run_events es) e) as (d & D & S).
  exists d. split; [exact D|eapply step_out_length; exact S].
Qed.

(** ** which step emitted a given output *)
Theorem run_out_emitted : forall es pre x post,
  w_out (run_events es) = pre ++ x :: post ->
  exists es1 e es2, es = es1 ++ e :: es2 /\ w_out (run_events es1) = pre /\
                    w_out (run_events (es1 ++ [e])) = pre ++ [x] /\ step_out (run_events es1) e [x].
Proof.
  induction es as [|e es' IH] using rev_ind; intros pre x post E.
  - destruct pre; discriminate.
  - rewrite run_events_app in E. cbn [fold_left] in E.
    destruct (step_out_cases false (run_events es') e) as (d & D & S). unfold step in E. rewrite D in E.
    pose proof (step_out_length _ _ _ S) as L.
    apply app_eq_app in E. destruct E as (l & [(E1 & E2)|(E1 & E2)]).
    + destruct l as [|y l'].
      * cbn [app] in E2. subst d. rewrite app_nil_r in E1.
        destruct post; [|cbn [length] in L; lia].
        exists es', e, []. split; [reflexivity|]. split; [exact E1|]. split; [|exact S].
        rewrite run_events_app. cbn [fold_left]. unfold step. rewrite D, E1. reflexivity.
      * cbn [app] in E2. inversion E2; subst y. destruct (IH pre x l' E1) as (es1 & e0 & es2 & -> & G1 & G2 & G3).
        exists es1, e0, (es2 ++ [e]). split; [rewrite <- app_assoc; reflexivity|]. auto.
    + destruct d as [|y [|z d']]; [destruct l; discriminate| |cbn [length] in L; lia].
      destruct l as [|y' l']; [|destruct l'; discriminate]. cbn [app] in E2. inversion E2; subst. rewrite app_nil_r in *.
      exists es', e, []. split; [reflexivity|]. split; [reflexivity|]. split; [|exact S].
      rewrite run_events_app. cbn [fold_left]. unfold step. rewrite D. reflexivity.
Qed.

(** ** P5 (C08): the client is handed an UNPREPARED frame only by the step that delivers, to the client's own
    request on that connection and stream, an UNPREPARED frame the proxy could not serve from its cache *)
Theorem prep_never_unprepared_when_cached : forall es pre c s r k bs post,
  w_out (run_events es) = pre ++ ToClient c s r (CFrame k bs KUnprepared) :: post ->
  exists es1 ok o es2, es = es1 ++ EFrame k bs (FUnprepared false ok) o :: es2 /\
                       lookupN bs (live (run_events es1) k) = Some (EReq r) /\
                       w_out (run_events es1) = pre /\
                       w_out (run_events (es1 ++ [EFrame k bs (FUnprepared false ok) o])) =
                         pre ++ [ToClient c s r (CFrame k bs KUnprepared)].
Proof.
  intros es pre c s r k bs post E. destruct (run_out_emitted es _ _ _ E) as (es1 & e & es2 & -> & H1 & H2 & S).
  inversion S as [| | | |k0 s0 f o r0 c0 cs0 kd He Hl Hf _ [Ec Ecs Er Ek Es Ekd]|]; subst.
  destruct f as [|m|[|] ok]; cbn [fkind_of] in Hf; try discriminate.
  exists es1, ok, o, es2. auto.
Qed.

(** the same for any forwarded frame: what the client gets is the kind of frame that arrived for its request *)
Theorem prep_forwarded_frame_is_the_delivered_one : forall es pre c s r k bs kd post,
  w_out (run_events es) = pre ++ ToClient c s r (CFrame k bs kd) :: post ->
  exists es1 f o es2, es = es1 ++ EFrame k bs f o :: es2 /\ fkind_of f = Some kd /\
                      lookupN bs (live (run_events es1) k) = Some (EReq r) /\ w_out (run_events es1) = pre.
Proof.
  intros es pre c s r k bs kd post E. destruct (run_out_emitted es _ _ _ E) as (es1 & e & es2 & -> & H1 & H2 & S).
  inversion S as [| | | |k0 s0 f o r0 c0 cs0 kd0 He Hl Hf _ [Ec Ecs Er Ek Es Ekd]|]; subst.
  exists es1, f, o, es2. auto.
Qed.

Definition all_cached (es : list event) : Prop :=
  forall k s cached ok o, In (EFrame k s (FUnprepared cached ok) o) es -> cached = true.

Corollary prep_cached_never_unprepared : forall es,
  all_cached es -> forall c s r k bs, ~ In (ToClient c s r (CFrame k bs KUnprepared)) (w_out (run_events es)).
Proof.
  intros es Hall c s r k bs Hin. apply in_split in Hin. destruct Hin as (pre & post & E).
  destruct (prep_never_unprepared_when_cached es _ _ _ _ _ _ _ E) as (es1 & ok & o & es2 & -> & _).
  assert (H : false = true) by (apply (Hall k bs false ok o); apply in_or_app; right; left; reflexivity). discriminate.
Qed.

(** ** counting events of a given kind along a run *)
Fixpoint count_from (f : world -> event -> bool) (w : world) (es : list event) : nat :=
  match es with
  | [] => 0
  | e :: t => (if f w e then 1 else 0) + count_from f (step w e) t
  end%nat.

Definition count_events (f : world -> event -> bool) (es : list event) : nat := count_from f init_world es.

Lemma count_from_app f es1 es2 : forall w,
  count_from f w (es1 ++ es2) = (count_from f w es1 + count_from f (fold_left step es1 w) es2)%nat.
Proof. induction es1 as [|e t IH]; intro w; cbn [app count_from fold_left]; [reflexivity|]. rewrite IH. lia. Qed.

(** ** P8: the proxy sends one PREPARE of its own per UNPREPARED frame it can serve from its cache:
    the number of [ToBackendPrepare] for [r] is at most the number of [FUnprepared true true] frames
    delivered to entries of [r] *)
Definition is_unprepared_tt (r : rid) (w : world) (e : event) : bool :=
  match delivered w e with
  | Some (ent, FUnprepared true true) => entry_req ent =? r
  | _ => false
  end.

Lemma step_prepare_cause w e r :
  exists l, pwrites_of r (w_out (step w e)) = pwrites_of r (w_out w) ++ l /\
            (length l <= if is_unprepared_tt r w e then 1 else 0)%nat.
Proof.
  unfold step. destruct (step_out_cases false w e) as (d & D & S). exists (pwrites_of r d).
  rewrite D, pwrites_of_app. split; [reflexivity|].
  destruct S as [| | |k s s0 o ent -> Hl| |]; cbn [pwrites_of flat_map length app]; try lia.
  unfold is_unprepared_tt. cbn [delivered]. rewrite Hl.
  destruct (entry_req ent =? r); cbn [length app]; lia.
Qed.

Lemma prepares_bounded_from r es : forall w,
  (length (pwrites_of r (w_out (fold_left step es w))) <=
   length (pwrites_of r (w_out w)) + count_from (is_unprepared_tt r) w es)%nat.
Proof.
  induction es as [|e t IH]; intro w; cbn [fold_left count_from]; [lia|].
  specialize (IH (step w e)). destruct (step_prepare_cause w e r) as (l & E & L). rewrite E, app_length in IH. lia.
Qed.

Theorem prep_prepares_bounded_by_unprepared_frames : forall es r,
  (length (prepare_writes (run_events es) r) <= count_events (is_unprepared_tt r) es)%nat.
Proof. intros es r. rewrite prepare_writes_eq. exact (prepares_bounded_from r es init_world). Qed.

(** every PREPARE of the proxy is the reaction, in the same step and on the same connection, to an UNPREPARED
    frame for a cached statement delivered to an entry of that request *)
Theorem prep_prepare_cause : forall es pre k s0 r post,
  w_out (run_events es) = pre ++ ToBackendPrepare k s0 r :: post ->
  exists es1 s o es2 ent, es = es1 ++ EFrame k s (FUnprepared true true) o :: es2 /\
                          lookupN s (live (run_events es1) k) = Some ent /\ entry_req ent = r /\
                          w_out (run_events es1) = pre.
Proof.
  intros es pre k s0 r post E. destruct (run_out_emitted es _ _ _ E) as (es1 & e & es2 & -> & H1 & H2 & S).
  inversion S as [| | |k0 s s1 o ent He Hl [Ek Es Er]| |]; subst.
  exists es1, s, o, es2, ent. auto.
Qed.

(** ** a request that is answered, or not yet started, is not touched and nothing is written for it
    (reachable states only: it is the invariant that says such a request has no entry anywhere, so the
    proxy's PREPARE, which does not look at the done flag, cannot be sent for it) *)
Definition settled (w : world) (e : event) (r : rid) : Prop :=
  match lookupN r (w_reqs w) with Some q => q_done q = true | None => starts e r = false end.

Lemma step_settled w e r : InvG None w -> settled w e r ->
  lookupN r (w_reqs (step w e)) = lookupN r (w_reqs w) /\
  exists d, w_out (step w e) = w_out w ++ d /\ Forall (fun o => out_req o <> r) d.
Proof.
  intros I Hset. unfold settled in Hset.
  assert (Hz : forall k c ent, lookupN k (w_conns w) = Some c -> In ent (ents c) -> entry_req ent <> r).
  { apply regs_zero_no_ents. rewrite (ig_regs _ _ I r). unfold expect. cbn [is_act].
    destruct (lookupN r (w_reqs w)) as [q|]; [rewrite Hset|]; reflexivity. }
  assert (Hquiet : w_reqs (step w e) = w_reqs w -> w_out (step w e) = w_out w ->
                   lookupN r (w_reqs (step w e)) = lookupN r (w_reqs w) /\
                   exists d, w_out (step w e) = w_out w ++ d /\ Forall (fun o => out_req o <> r) d).
  { intros E1 E2. rewrite E1, E2. split; [reflexivity|]. exists []. rewrite app_nil_r. split; [reflexivity|constructor]. }
  assert (Hsame : step w e = w -> lookupN r (w_reqs (step w e)) = lookupN r (w_reqs w) /\
                                  exists d, w_out (step w e) = w_out w ++ d /\ Forall (fun o => out_req o <> r) d).
  { intro E. apply Hquiet; rewrite E; reflexivity. }
  destruct e as [r' cl cs idem p o|k s f o|k|k ent o|k h n].
  3:{ apply Hquiet; unfold step; cbn [step_gen]; destruct (lookupN k (w_conns w)) as [c|]; try reflexivity;
        destruct (b_closing c); reflexivity. }
  4:{ apply Hquiet; unfold step; cbn [step_gen]; destruct (lookupN k (w_conns w)) as [c|]; reflexivity. }
  all: match goal with |- context [step ?w0 ?e] => destruct (N.eq_dec (active w0 e) r) as [Ha|Ha] end.
  all: try (match goal with |- context [step ?w0 ?e] =>
              pose proof (frame_step false w0 e eq_refl : frame (active w0 e) w0 (step w0 e)) as F end; split;
            [apply (fr_other _ _ _ F); congruence|
             destruct (fr_out _ _ _ F) as (d & D & Fa & _); exists d; split; [exact D|]; eapply Forall_out_other; eassumption]).
  all: apply Hsame; unfold step; cbn [active] in Ha; cbn [step_gen].
  - subst r'. destruct (lookupN r (w_reqs w)) as [q|]; [reflexivity|]. cbn [starts] in Hset. rewrite N.eqb_refl in Hset. discriminate.
  - destruct (lookupN k (w_conns w)) as [c|] eqn:Hk; [|reflexivity]. destruct (b_closing c) eqn:Hcl; [reflexivity|].
    destruct (lookupN s (b_pending c)) as [ent|] eqn:Hs; [|reflexivity]. exfalso.
    apply (Hz k c ent Hk); [|exact Ha]. unfold ents, live_of. rewrite Hcl. apply in_or_app. left.
    apply lookupN_In in Hs. apply (in_map snd) in Hs. exact Hs.
  - destruct (lookupN k (w_conns w)) as [c|] eqn:Hk; [|reflexivity].
    destruct (existsb (entry_eqb ent) (b_tonotify c)) eqn:Hex; cbn [negb]; [|reflexivity]. exfalso.
    apply existsb_eqb_in in Hex. apply (Hz k c ent Hk); [|exact Ha]. unfold ents. apply in_or_app. right. exact Hex.
Qed.

Lemma settled_step w e e' r : InvG None w -> settled w e r -> starts e' r = false -> settled (step w e) e' r.
Proof.
  intros I Hset Hs'. destruct (step_settled w e r I Hset) as (E & _). unfold settled in *. rewrite E.
  destruct (lookupN r (w_reqs w)); [exact Hset|exact Hs'].
Qed.

Lemma done_no_write_run es : forall w r q,
  InvG None w -> lookupN r (w_reqs w) = Some q -> q_done q = true ->
  lookupN r (w_reqs (fold_left step es w)) = Some q /\
  backend_writes (fold_left step es w) r = backend_writes w r /\
  prepare_writes (fold_left step es w) r = prepare_writes w r /\
  client_replies (fold_left step es w) r = client_replies w r.
Proof.
  induction es as [|e es IH]; intros w r q I Hq Hd; cbn [fold_left]; [auto|].
  assert (Hset : settled w e r) by (unfold settled; rewrite Hq; exact Hd).
  destruct (step_settled w e r I Hset) as (E & d & D & F). rewrite Hq in E.
  destruct (IH (step w e) r q (inv_step w e I) E Hd) as (Q & W & P & C). rewrite Q, W, P, C.
  split; [reflexivity|]. rewrite !backend_writes_eq, !prepare_writes_eq, D, writes_of_app, pwrites_of_app.
  destruct (writes_of_other r d F) as (-> & ->). rewrite !app_nil_r. split; [reflexivity|]. split; [reflexivity|].
  unfold client_replies. rewrite D, filter_app.
  assert (Hf : filter (fun o => match o with ToClient _ _ r' _ => r' =? r | _ => false end) d = []).
  { clear D. induction F as [|o l Ho _ IHl]; [reflexivity|]. cbn [filter]. rewrite IHl.
    destruct o as [| |c0 s0 r' x]; try reflexivity. cbn [out_req] in Ho. destruct (N.eqb_spec r' r); [contradiction|reflexivity]. }
  rewrite Hf. apply app_nil_r.
Qed.

(** any request: nothing is written for it (neither the request nor a PREPARE standing in for it) once answered *)
Theorem prep_no_write_after_reply : forall es1 es2 r q,
  lookupN r (w_reqs (run_events es1)) = Some q -> q_done q = true ->
  backend_writes (run_events (es1 ++ es2)) r = backend_writes (run_events es1) r /\
  prepare_writes (run_events (es1 ++ es2)) r = prepare_writes (run_events es1) r.
Proof.
  intros es1 es2 r q Hq Hd. rewrite run_events_app.
  destruct (done_no_write_run es2 _ r q (inv_run es1) Hq Hd) as (_ & W & P & _). auto.
Qed.

(** ** P3 (C04): an outcome after which request [r] must not be written again *)
Inductive final_for (w : world) (r : rid) : event -> Prop :=
| FF_error k s m o : lookupN s (live w k) = Some (EReq r) -> safe_to_resend (OError m) = false ->
                     final_for w r (EFrame k s (FError m) o)
| FF_result k s o : lookupN s (live w k) = Some (EReq r) -> final_for w r (EFrame k s FResult o)
| FF_notify k c ent o : lookupN k (w_conns w) = Some c -> In ent (b_tonotify c) -> entry_req ent = r ->
                        final_for w r (ENotify k ent o).

Lemma reply_once_effect w r what q : lookupN r (w_reqs w) = Some q ->
  (exists q', lookupN r (w_reqs (reply_once w r what)) = Some q' /\ q_done q' = true) /\
  writes_of r (w_out (reply_once w r what)) = writes_of r (w_out w) /\
  pwrites_of r (w_out (reply_once w r what)) = pwrites_of r (w_out w).
Proof.
  intro Hq. unfold reply_once. rewrite Hq. destruct (q_done q) eqn:Hd.
  - split; [exists q; auto|split; reflexivity].
  - split.
    + eexists. rewrite reqs_emit, reqs_set_req, lookupN_updateN_same. split; reflexivity.
    + rewrite out_emit, out_set_req, writes_of_app, pwrites_of_app. cbn. rewrite !app_nil_r. split; reflexivity.
Qed.

Lemma final_step w r q e :
  lookupN r (w_reqs w) = Some q -> ((forall k s o, e <> EFrame k s FResult o) -> q_idem q = false) -> final_for w r e ->
  backend_writes (step w e) r = backend_writes w r /\ prepare_writes (step w e) r = prepare_writes w r /\
  exists q', lookupN r (w_reqs (step w e)) = Some q' /\ q_done q' = true.
Proof.
  intros Hq Hi F. rewrite !backend_writes_eq, !prepare_writes_eq. unfold step.
  destruct F as [k s m o Hl Hs|k s o Hl|k c ent o Hk Hin Hr]; cbn [step_gen].
  - specialize (Hi ltac:(discriminate)).
    destruct (live_lookup_inv _ _ _ _ Hl) as (c & Hk & Hcl & Hp). rewrite Hk, Hcl, Hp, reqs_set_conn, Hq.
    destruct (q_done q) eqn:Hd; [split; [reflexivity|split; [reflexivity|exists q; auto]]|].
    assert (Hdec : handle_error (q_idem q) m (q_retry q) = dec_ReturnError).
    { rewrite Hi. destruct (N.eq_dec (handle_error false m (q_retry q)) dec_ReturnError) as [E|E]; [exact E|].
      apply nonidem_retry_is_safe in E. congruence. }
    cbv zeta. rewrite Hdec. destruct dec_distinct as (-> & ->).
    match goal with |- context [reply_once ?w1 r ?x] => destruct (reply_once_effect w1 r x q Hq) as (Q & W & P) end.
    split; [exact W|split; [exact P|exact Q]].
  - destruct (live_lookup_inv _ _ _ _ Hl) as (c & Hk & Hcl & Hp). rewrite Hk, Hcl, Hp, reqs_set_conn, Hq.
    destruct (q_done q) eqn:Hd; [split; [reflexivity|split; [reflexivity|exists q; auto]]|].
    match goal with |- context [reply_once ?w1 r ?x] => destruct (reply_once_effect w1 r x q Hq) as (Q & W & P) end.
    split; [exact W|split; [exact P|exact Q]].
  - specialize (Hi ltac:(discriminate)).
    rewrite Hk. apply existsb_eqb_in in Hin. rewrite Hin. cbn [negb]. rewrite reqs_set_conn, Hr, Hq, Hi.
    match goal with |- context [reply_once ?w1 r ?x] => destruct (reply_once_effect w1 r x q Hq) as (Q & W & P) end.
    split; [exact W|split; [exact P|exact Q]].
Qed.

Theorem prep_nonidem_never_resent_after_unsafe : forall es1 e es2 r q,
  lookupN r (w_reqs (run_events es1)) = Some q -> q_idem q = false ->
  final_for (run_events es1) r e ->
  backend_writes (run_events (es1 ++ e :: es2)) r = backend_writes (run_events es1) r /\
  prepare_writes (run_events (es1 ++ e :: es2)) r = prepare_writes (run_events es1) r.
Proof.
  intros es1 e es2 r q Hq Hi F. rewrite run_events_app. cbn [fold_left].
  destruct (final_step _ r q e Hq (fun _ => Hi) F) as (W & P & q' & Hq' & Hd').
  destruct (done_no_write_run es2 _ r q' (inv_step _ e (inv_run es1)) Hq' Hd') as (_ & W2 & P2 & _).
  rewrite W2, P2. auto.
Qed.

(** any request, idempotent or not: once its result frame has been delivered nothing is written for it *)
Corollary prep_not_resent_after_result : forall es1 k s o es2 r,
  lookupN s (live (run_events es1) k) = Some (EReq r) ->
  backend_writes (run_events (es1 ++ EFrame k s FResult o :: es2)) r = backend_writes (run_events es1) r /\
  prepare_writes (run_events (es1 ++ EFrame k s FResult o :: es2)) r = prepare_writes (run_events es1) r.
Proof.
  intros es1 k s o es2 r Hl. destruct (prep_live_is_started es1 k s (EReq r) Hl) as (q & c & Hq & _).
  cbn [entry_req] in Hq. rewrite run_events_app. cbn [fold_left].
  destruct (final_step _ r q (EFrame k s FResult o) Hq) as (W & P & q' & Hq' & Hd').
  - intro H. exfalso. exact (H k s o eq_refl).
  - apply FF_result. exact Hl.
  - destruct (done_no_write_run es2 _ r q' (inv_step _ _ (inv_run es1)) Hq' Hd') as (_ & W2 & P2 & _).
    rewrite W2, P2. auto.
Qed.

Corollary prep_nonidem_not_resent_after_unsafe_error : forall es1 k s m o es2 r q,
  lookupN r (w_reqs (run_events es1)) = Some q -> q_idem q = false ->
  lookupN s (live (run_events es1) k) = Some (EReq r) -> safe_to_resend (OError m) = false ->
  backend_writes (run_events (es1 ++ EFrame k s (FError m) o :: es2)) r = backend_writes (run_events es1) r /\
  prepare_writes (run_events (es1 ++ EFrame k s (FError m) o :: es2)) r = prepare_writes (run_events es1) r.
Proof. intros. eapply prep_nonidem_never_resent_after_unsafe; eauto using final_for. Qed.

Corollary prep_nonidem_not_resent_after_close : forall es1 k c ent o es2 r q,
  lookupN r (w_reqs (run_events es1)) = Some q -> q_idem q = false ->
  lookupN k (w_conns (run_events es1)) = Some c -> In ent (b_tonotify c) -> entry_req ent = r ->
  backend_writes (run_events (es1 ++ ENotify k ent o :: es2)) r = backend_writes (run_events es1) r /\
  prepare_writes (run_events (es1 ++ ENotify k ent o :: es2)) r = prepare_writes (run_events es1) r.
Proof. intros. eapply prep_nonidem_never_resent_after_unsafe; eauto using final_for. Qed.

(** P3, second half: what can make the proxy write something (the request, or its own PREPARE) for a
    non-idempotent request: its start; an ERROR frame delivered to it after which a resend is safe; an
    UNPREPARED frame for a cached statement delivered to it (the statement was not executed); or any answer to
    the proxy's own PREPARE (likewise).  Never a RESULT or an unsafe ERROR delivered to the request itself,
    never a close notification. *)
Definition safe_cause (r : rid) (w : world) (e : event) : Prop :=
  match e with
  | EStart r' _ _ idem _ _ => r' = r /\ idem = false /\ lookupN r (w_reqs w) = None
  | EFrame k s f _ =>
      exists ent, lookupN s (live w k) = Some ent /\ entry_req ent = r /\
        match ent, f with
        | EReq _, FError m => safe_to_resend (OError m) = true
        | EReq _, FUnprepared true _ => True
        | EReq _, _ => False
        | EPrep _ _, _ => True
        end
  | _ => False
  end.

Theorem prep_nonidem_write_cause : forall es e r q,
  lookupN r (w_reqs (run_events (es ++ [e]))) = Some q -> q_idem q = false ->
  (backend_writes (run_events (es ++ [e])) r <> backend_writes (run_events es) r \/
   prepare_writes (run_events (es ++ [e])) r <> prepare_writes (run_events es) r) ->
  safe_cause r (run_events es) e.
Proof.
  intros es e r q. rewrite run_events_app. cbn [fold_left]. set (w := run_events es).
  rewrite !backend_writes_eq, !prepare_writes_eq. intros Hq Hi Hne.
  pose proof (step_grows false w e) as G. fold step in G.
  assert (Hidem : forall q0, lookupN r (w_reqs w) = Some q0 -> q_idem q0 = false).
  { intros q0 Hq0. destruct (gr_reqs _ _ G r q0 Hq0) as (q' & Hq' & _ & _ & Hi' & _). rewrite Hq in Hq'.
    inversion Hq'; subst q'. congruence. }
  unfold step in *. destruct (step_out_cases false w e) as (d & D & S). rewrite D, writes_of_app, pwrites_of_app in Hne.
  assert (Hd : writes_of r d <> [] \/ pwrites_of r d <> []).
  { destruct Hne as [H|H]; [left|right]; intro E; apply H; rewrite E; apply app_nil_r. }
  clear Hne.
  assert (Hcause : exec_cause w e -> active w e = r -> safe_cause r w e).
  { intros C Ha. destruct e as [r' cl cs idem p o|k s f o|k|k ent o|k h n]; cbn [exec_cause active safe_cause] in *; try contradiction.
    - subst r'. split; [reflexivity|]. split; [|exact C]. cbn [step_gen] in Hq. rewrite C in Hq.
      match type of Hq with lookupN r (w_reqs (exec_internal _ ?w1 _ _ _)) = _ =>
        destruct (fr_self _ _ _ (frame_exec_internal false r w1 true o) _ (lookupN_updateN_same r _ _)) as (q' & Hq' & _ & _ & Hi' & _) end.
      rewrite Hq in Hq'. inversion Hq'; subst q'. cbn [q_idem] in Hi'. congruence.
    - destruct C as (ent & q0 & Hl & Hq0 & Hd0 & Hm). exists ent.
      destruct (live_lookup_inv _ _ _ _ Hl) as (c & Hk & _ & Hs). rewrite Hk, Hs in Ha. split; [exact Hl|]. split; [exact Ha|].
      rewrite Ha in Hq0. pose proof (Hidem q0 Hq0) as Hi0.
      destruct ent as [r1|r1 n1]; [|exact Logic.I]. destruct f as [|m|[|] ok]; try contradiction; [|exact Logic.I].
      rewrite Hi0 in Hm. eapply nonidem_retry_is_safe. exact Hm.
    - exfalso. destruct C as (c & q0 & _ & _ & Hq0 & _ & Hi0). rewrite Ha in Hq0. rewrite (Hidem q0 Hq0) in Hi0. discriminate. }
  destruct S as [|k s C|c s C|k s s0 o ent -> Hl|k s f o r0 c cs kd -> Hl Hf _|k ent o c cs cn q0 -> _ _ _ _];
    cbn [writes_of pwrites_of flat_map app] in Hd.
  - destruct Hd as [H|H]; exfalso; apply H; reflexivity.
  - apply Hcause; [exact C|]. destruct (N.eqb_spec (active w e) r) as [E|E]; [exact E|].
    destruct Hd as [H|H]; exfalso; apply H; reflexivity.
  - destruct Hd as [H|H]; exfalso; apply H; reflexivity.
  - cbn [safe_cause]. exists ent. split; [exact Hl|]. split.
    + destruct (N.eqb_spec (entry_req ent) r) as [E|E]; [exact E|]. destruct Hd as [H|H]; exfalso; apply H; reflexivity.
    + destruct ent; exact Logic.I.
  - destruct Hd as [H|H]; exfalso; apply H; reflexivity.
  - destruct Hd as [H|H]; exfalso; apply H; reflexivity.
Qed.

(** ** P6 (C08): a refused re-preparation makes the request move on.  The frames that refuse: an ERROR, or an
    UNPREPARED the proxy cannot act on (not cached, or cached but its own PREPARE cannot be sent), delivered to
    the proxy's PREPARE standing in for [r]; and an UNPREPARED for a cached statement delivered to [r] itself
    when the proxy's PREPARE cannot be sent. *)
Definition refusal (ent : entry) (f : bframe) : bool :=
  match ent, f with
  | EPrep _ _, FError _ => true
  | EPrep _ _, FUnprepared true false => true
  | EPrep _ _, FUnprepared false _ => true
  | EReq _, FUnprepared true false => true
  | _, _ => false
  end.

Lemma send_prepare_not_ok w k r nested : send_prepare w k r nested false = (w, SendErr).
Proof.
  unfold send_prepare. destruct (lookupN k (w_conns w)) as [c|]; [|reflexivity].
  rewrite orb_true_r. reflexivity.
Qed.

Lemma step_refusal w k s f o c ent :
  lookupN k (w_conns w) = Some c -> b_closing c = false -> lookupN s (b_pending c) = Some ent -> refusal ent f = true ->
  step w (EFrame k s f o) = exec_internal false (set_conn w k (popped c s)) (entry_req ent) true o.
Proof.
  intros Hk Hcl Hs Hr. unfold step. cbn [step_gen]. rewrite Hk, Hcl, Hs. fold (popped c s).
  destruct ent as [r|r n]; destruct f as [|m|[|] [|]]; cbn [refusal] in Hr; try discriminate; cbn [entry_req];
    try rewrite send_prepare_not_ok; reflexivity.
Qed.

Theorem prep_failed_reprepare_moves_on : forall es k s f o ent,
  let w := run_events es in
  lookupN s (live w k) = Some ent -> refusal ent f = true ->
  let r := entry_req ent in
  let w' := run_events (es ++ [EFrame k s f o]) in
  exists c q,
    lookupN k (w_conns w) = Some c /\ lookupN r (w_reqs w) = Some q /\ q_done q = false /\ q_host q = Some (b_host c) /\
    (* the same step runs request.Execute(true) *)
    w' = exec_internal false (set_conn w k (popped c s)) r true o /\
    (* which either writes r to a connection of the next host of the rest of its plan that takes it, where it is now registered, *)
    ((exists skipped h p' k' s' c',
        q_plan q = skipped ++ h :: p' /\ w_out w' = w_out w ++ [ToBackend k' s' r] /\
        lookupN r (w_reqs w') = Some (with_host q (Some h) p') /\
        lookupN k' (w_conns w') = Some c' /\ b_host c' = h /\ b_closing c' = false /\ In (s', EReq r) (b_pending c')) \/
    (* or answers "no hosts" with the plan exhausted *)
     (exists q', w_out w' = w_out w ++ [ToClient (q_client q) (q_cstream q) r CNoHosts] /\
                 lookupN r (w_reqs w') = Some q' /\ q_done q' = true /\ q_plan q' = [])).
Proof.
  intros es k s f o ent w Hl Href r w'.
  destruct (live_lookup_inv _ _ _ _ Hl) as (c & Hk & Hcl & Hs).
  destruct (inv_pop w k c s ent (inv_run es) Hk Hcl Hs) as (_ & q & Hq & Hd & Hh).
  exists c, q. split; [exact Hk|]. split; [exact Hq|]. split; [exact Hd|]. split; [exact Hh|].
  assert (E : w' = exec_internal false (set_conn w k (popped c s)) r true o).
  { unfold w'. rewrite run_events_app. cbn [fold_left]. apply step_refusal; assumption. }
  split; [exact E|]. rewrite E. unfold exec_internal. change (w_reqs (set_conn w k (popped c s))) with (w_reqs w).
  fold r in Hq. rewrite Hq, Hd.
  destruct (exec_next_outcome false r (q_plan q) o (set_conn w k (popped c s)) q Hd)
    as [skipped h p' k' s' c' Hp Hout Hq' Hk' Hh' Hcl' Hin'|q' Hout Hq' Hd' Hp'].
  - left. exists skipped, h, p', k', s', c'. auto 10.
  - right. exists q'. auto.
Qed.

(** ** P7 (C08): a successful re-preparation re-executes on the host that has just been prepared *)
Theorem prep_successful_reprepare_reexecutes_on_same_host : forall es k s o r c k' c',
  let w := run_events es in
  lookupN s (live w k) = Some (EPrep r false) ->
  lookupN k (w_conns w) = Some c ->
  hd None o = Some (k', true) ->
  lookupN k' (w_conns w) = Some c' -> b_host c' = b_host c -> b_closing c' = false -> (k' = k \/ b_free c' <> []) ->
  exists s', w_out (run_events (es ++ [EFrame k s FResult o])) = w_out w ++ [ToBackend k' s' r] /\
             In (s', EReq r) (live (run_events (es ++ [EFrame k s FResult o])) k').
Proof.
  intros es k s o r c k' c' w Hl Hk Ho Hk' Hh' Hcl' Hfree.
  destruct (live_lookup_inv _ _ _ _ Hl) as (c0 & Hk0 & Hcl & Hs). rewrite Hk in Hk0. inversion Hk0; subst c0.
  destruct (inv_pop w k c s (EPrep r false) (inv_run es) Hk Hcl Hs) as (_ & q & Hq & Hd & Hh). cbn [entry_req] in *.
  rewrite run_events_app. cbn [fold_left]. fold w. unfold step. cbn [step_gen]. rewrite Hk, Hcl, Hs. fold (popped c s).
  set (w1 := set_conn w k (popped c s)).
  unfold exec_internal. change (w_reqs w1) with (w_reqs w). rewrite Hq, Hd, Hh.
  assert (Ho2 : @hd (option (cid * bool)) None o = Some (k', true)) by exact Ho. rewrite Ho2.
  assert (Hc1 : exists c1, lookupN k' (w_conns w1) = Some c1 /\ b_host c1 = b_host c /\ b_closing c1 = false /\ b_free c1 <> []).
  { unfold w1. rewrite conns_set_conn, lookupN_updateN. destruct (N.eqb_spec k' k) as [->|Hne].
    - exists (popped c s). cbn [popped b_host b_closing b_free]. repeat split; try reflexivity. destruct (b_free c); discriminate.
    - exists c'. destruct Hfree as [E|E]; [contradiction|]. auto. }
  destruct Hc1 as (c1 & Hk1 & Hh1 & Hcl1 & Hfr1).
  unfold send_to. rewrite Hk1, Hh1, N.eqb_refl, Hcl1. cbn [negb]. destruct (b_free c1) as [|s' fr] eqn:Hfr; [congruence|].
  exists s'. rewrite out_emit, out_set_conn. split; [reflexivity|].
  unfold live. rewrite conns_emit, conns_set_conn, lookupN_updateN_same. cbn [b_closing b_pending]. left. reflexivity.
Qed.

(** ** which [EStart] created a request, and what its record keeps from it *)
Fixpoint first_start (es : list event) (r : rid) : option (N * Z * bool * list N) :=
  match es with
  | [] => None
  | EStart r' cl cs idem p _ :: t => if r' =? r then Some (cl, cs, idem, p) else first_start t r
  | _ :: t => first_start t r
  end.

Lemma step_unstarted orig w e r :
  lookupN r (w_reqs w) = None -> starts e r = false -> lookupN r (w_reqs (step_gen orig w e)) = None.
Proof.
  intros Hq Hs. destruct (is_connect e) eqn:Hc.
  { destruct e; try discriminate. rewrite step_connect. destruct (lookupN k (w_conns w)); auto. }
  destruct (N.eq_dec (active w e) r) as [Ha|Ha].
  2:{ pose proof (frame_step orig w e Hc) as F. rewrite (fr_other _ _ _ F r); [exact Hq|]. congruence. }
  (* a step acting for an unknown request that is not its start leaves the request table alone *)
  assert (E : w_reqs (step_gen orig w e) = w_reqs w); [|rewrite E; exact Hq].
  destruct e as [r' cl cs idem p o|k s f o|k|k ent o|k h n]; cbn [active] in Ha; cbn [step_gen starts] in *; try discriminate.
  - subst r'. rewrite N.eqb_refl in Hs. discriminate.
  - destruct (lookupN k (w_conns w)) as [c|] eqn:Hk; [|reflexivity]. destruct (b_closing c); [reflexivity|].
    destruct (lookupN s (b_pending c)) as [ent|] eqn:Hsl; [|reflexivity]. subst r.
    fold (popped c s). set (w1 := set_conn w k (popped c s)).
    assert (Hx : forall next, w_reqs (exec_internal orig w1 (entry_req ent) next o) = w_reqs w).
    { intro next. rewrite exec_internal_unknown; [reflexivity|exact Hq]. }
    assert (Hp : forall nested ok,
                 w_reqs (let '(w2, res) := send_prepare w1 k (entry_req ent) nested ok in
                         match res with SentOk => w2 | SendErr => exec_internal orig w2 (entry_req ent) true o end) = w_reqs w).
    { intros nested ok. pose proof (send_prepare_reqs w1 k (entry_req ent) nested ok) as R.
      destruct (send_prepare w1 k (entry_req ent) nested ok) as [w2 res]. cbn [fst] in R.
      destruct res; [exact R|]. rewrite exec_internal_unknown; [exact R|]. rewrite R. exact Hq. }
    destruct ent as [r|r nested]; cbn [entry_req] in *.
    + destruct f as [|m|[|] ok]; try apply Hp; change (w_reqs w1) with (w_reqs w); rewrite Hq; reflexivity.
    + destruct f as [|m|[|] ok]; try apply Hp; apply Hx.
  - destruct (lookupN k (w_conns w)) as [c|]; [|reflexivity]. destruct (b_closing c); reflexivity.
  - destruct (lookupN k (w_conns w)) as [c|]; [|reflexivity].
    destruct (negb (existsb (entry_eqb ent) (b_tonotify c))); [reflexivity|]. rewrite reqs_set_conn, Ha, Hq. reflexivity.
Qed.

Lemma step_start orig w r cl cs idem p o :
  lookupN r (w_reqs w) = None ->
  exists q, lookupN r (w_reqs (step_gen orig w (EStart r cl cs idem p o))) = Some q /\
            q_client q = cl /\ q_cstream q = cs /\ q_idem q = idem.
Proof.
  intro Hq. cbn [step_gen]. rewrite Hq.
  match goal with |- context [exec_internal _ ?w1 _ _ _] =>
    destruct (fr_self _ _ _ (frame_exec_internal orig r w1 true o) _ (lookupN_updateN_same r _ _)) as (q' & Hq' & Hc & Hs & Hi & _) end.
  exists q'. auto.
Qed.

Lemma run_started orig r : forall es w, lookupN r (w_reqs w) = None ->
  match first_start es r with
  | Some (cl, cs, idem, p) =>
      exists q, lookupN r (w_reqs (fold_left (step_gen orig) es w)) = Some q /\
                q_client q = cl /\ q_cstream q = cs /\ q_idem q = idem
  | None => lookupN r (w_reqs (fold_left (step_gen orig) es w)) = None
  end.
Proof.
  induction es as [|e es IH]; intros w Hq; cbn [fold_left first_start]; [exact Hq|].
  destruct (starts e r) eqn:Hs.
  - destruct e as [r' cl cs idem p o| | | |]; try discriminate. cbn [starts] in Hs. rewrite Hs.
    apply N.eqb_eq in Hs. subst r'.
    destruct (step_start orig w r cl cs idem p o Hq) as (q & Hq1 & Hc & Hs' & Hi).
    destruct (gr_reqs _ _ (run_grows orig es _) r q Hq1) as (q' & Hq' & Hc' & Hs'' & Hi' & _).
    exists q'. repeat split; congruence.
  - assert (E : first_start (e :: es) r = first_start es r).
    { destruct e; try reflexivity. cbn [first_start]. cbn [starts] in Hs. rewrite Hs. reflexivity. }
    cbn [first_start] in E. rewrite E. apply IH. apply (step_unstarted orig w e r Hq Hs).
Qed.

(** the record of a started request keeps the client, stream and idempotence of its [EStart] *)
Theorem prep_started_record : forall es r,
  match first_start es r with
  | Some (cl, cs, idem, p) =>
      exists q, lookupN r (w_reqs (run_events es)) = Some q /\ q_client q = cl /\ q_cstream q = cs /\ q_idem q = idem
  | None => lookupN r (w_reqs (run_events es)) = None
  end.
Proof. intros es r. exact (run_started false r es init_world eq_refl). Qed.

(** a reply goes to the client and stream named in the request's [EStart] *)
Corollary prep_reply_to_own_client : forall es r cl cs idem p c s x,
  first_start es r = Some (cl, cs, idem, p) -> In (ToClient c s r x) (w_out (run_events es)) -> c = cl /\ s = cs.
Proof.
  intros es r cl cs idem p c s x Hfs Hin. pose proof (prep_started_record es r) as S. rewrite Hfs in S.
  destruct S as (q & Hq & Hc & Hs & _). destruct (proj2 (prep_at_most_one_reply es r) c s x Hin) as (q' & Hq' & -> & ->).
  rewrite Hq in Hq'. inversion Hq'; subst q'. auto.
Qed.

(** a request that was never started is never written, prepared for, or answered *)
Theorem prep_unstarted_never_written : forall es r, first_start es r = None ->
  backend_writes (run_events es) r = [] /\ prepare_writes (run_events es) r = [] /\ client_replies (run_events es) r = [].
Proof.
  intros es r Hfs.
  assert (G : forall es1 es2, es = es1 ++ es2 ->
              backend_writes (run_events es1) r = [] /\ prepare_writes (run_events es1) r = [] /\
              lookupN r (w_reqs (run_events es1)) = None).
  { induction es1 as [|e es1 IH] using rev_ind; intros es2 E; [auto|].
    rewrite <- app_assoc in E. destruct (IH _ E) as (W & P & Q).
    assert (Hs : starts e r = false).
    { destruct (starts e r) eqn:Hs; [|reflexivity]. exfalso. destruct e as [r' cl cs idem p o| | | |]; try discriminate.
      cbn [starts] in Hs. apply N.eqb_eq in Hs. subst r'.
      pose proof (prep_started_record (es1 ++ [EStart r cl cs idem p o]) r) as S1.
      pose proof (prep_started_record es1 r) as S0. rewrite Q in S0.
      assert (Hf : first_start es r <> None).
      { rewrite E. clear -S0. induction es1 as [|e0 t IHt]; cbn [app first_start].
        - rewrite N.eqb_refl. discriminate.
        - destruct e0; try (apply IHt; cbn [first_start] in S0; exact S0).
          cbn [first_start] in S0 |- *. destruct (r0 =? r); [discriminate|apply IHt; exact S0]. }
      exact (Hf Hfs). }
    assert (Hset : settled (run_events es1) e r) by (unfold settled; rewrite Q; exact Hs).
    destruct (step_settled _ e r (inv_run es1) Hset) as (Q' & d & D & F).
    rewrite run_events_app. cbn [fold_left]. rewrite !backend_writes_eq, !prepare_writes_eq, D, writes_of_app, pwrites_of_app.
    rewrite backend_writes_eq in W. rewrite prepare_writes_eq in P. rewrite W, P.
    destruct (writes_of_other r d F) as (-> & ->). rewrite Q', Q. auto. }
  destruct (G es [] (eq_sym (app_nil_r es))) as (W & P & Q). split; [exact W|]. split; [exact P|].
  apply prep_unstarted_no_reply. exact Q.
Qed.

(** ** P4 (C05): the writes of a request follow its query plan *)
Inductive subseq {A} : list A -> list A -> Prop :=
| ss_nil : subseq [] []
| ss_skip x a b : subseq a b -> subseq a (x :: b)
| ss_take x a b : subseq a b -> subseq (x :: a) (x :: b).

Lemma subseq_nil_l {A} (l : list A) : subseq [] l.
Proof. induction l; constructor; assumption. Qed.

Lemma subseq_refl {A} (l : list A) : subseq l l.
Proof. induction l; constructor; assumption. Qed.

Lemma subseq_app {A} (a b c d : list A) : subseq a b -> subseq c d -> subseq (a ++ c) (b ++ d).
Proof. intros H1 H2. induction H1; cbn [app]; [exact H2| |]; constructor; assumption. Qed.

Lemma subseq_app_r {A} (a b c : list A) : subseq a b -> subseq a (b ++ c).
Proof. intro H. rewrite <- (app_nil_r a). apply subseq_app; [exact H|apply subseq_nil_l]. Qed.

Lemma subseq_length {A} (a b : list A) : subseq a b -> (length a <= length b)%nat.
Proof. intro H. induction H; cbn [length]; lia. Qed.

Lemma subseq_In {A} (a b : list A) x : subseq a b -> In x a -> In x b.
Proof. intro H. induction H; cbn [In]; intuition. Qed.

(** [stut n hs hs']: [hs] is [hs'] with [n] in-place repetitions: each element of [hs'] appears in [hs]
    one or more times in a row, [n] extra copies in total.  [hs'] are the writes that advance in the
    plan, the extra copies are the re-sends to the same host (the single RetrySame of the policy, and
    the re-EXECUTE after each successful re-PREPARE). *)
Inductive stut : nat -> list N -> list N -> Prop :=
| st_nil : stut 0 [] []
| st_snoc n x a b : stut n a b -> stut n (a ++ [x]) (b ++ [x])
| st_dup n x a b : stut n (a ++ [x]) (b ++ [x]) -> stut (S n) ((a ++ [x]) ++ [x]) (b ++ [x]).

Lemma stut_length n a b : stut n a b -> length a = (length b + n)%nat.
Proof. intro H. induction H; rewrite ?app_length in *; cbn [length] in *; lia. Qed.

Lemma stut_In n a b x : stut n a b -> In x a -> In x b.
Proof.
  intro H. induction H as [|n y a b H IH|n y a b H IH]; [auto| |].
  - rewrite !in_app_iff. cbn [In]. tauto.
  - rewrite in_app_iff. cbn [In]. intros [Hin|[->|[]]]; [exact (IH Hin)|]. apply in_or_app. right. left. reflexivity.
Qed.

Lemma stut_last n a b x : stut n a (b ++ [x]) -> exists a', a = a' ++ [x].
Proof.
  intro H. remember (b ++ [x]) as bb eqn:E. destruct H as [|n y a b0 H|n y a b0 H].
  - destruct b; discriminate.
  - apply app_inj_tail in E. destruct E as (_ & ->). exists a. reflexivity.
  - apply app_inj_tail in E. destruct E as (_ & ->). exists (a ++ [x]). reflexivity.
Qed.

Lemma stut_dup_last n a b x : stut n a (b ++ [x]) -> stut (S n) (a ++ [x]) (b ++ [x]).
Proof. intro H. destruct (stut_last _ _ _ _ H) as (a' & ->). apply st_dup. exact H. Qed.

Definition host_of (w : world) (k : cid) : N := match lookupN k (w_conns w) with Some c => b_host c | None => 0 end.

(** hosts of the connections request [r] was written to, in order *)
Definition whosts (w : world) (r : rid) : list N := map (host_of w) (map fst (backend_writes w r)).

Definition wconn (w : world) : Prop := forall k s r, In (ToBackend k s r) (w_out w) -> lookupN k (w_conns w) <> None.

Lemma wconn_frame a w w' : wconn w -> frame a w w' -> wconn w'.
Proof.
  intros Hw [(K & C) _ _ (d & D & _ & Wd)] k s r Hin. rewrite D in Hin. apply in_app_or in Hin.
  destruct Hin as [Hin|Hin]; [|eapply Wd; exact Hin].
  pose proof (Hw k s r Hin) as Hk. destruct (lookupN k (w_conns w)) as [c|] eqn:E; [|congruence].
  destruct (C k c E) as (c' & E' & _). congruence.
Qed.

Lemma wconn_step orig w e : wconn w -> wconn (step_gen orig w e).
Proof.
  intro Hw. destruct (is_connect e) eqn:Hc.
  - destruct e; try discriminate. rewrite step_connect. destruct (lookupN k (w_conns w)) eqn:Hk; [exact Hw|].
    intros k0 s r Hin. rewrite conns_set_conn, lookupN_updateN. destruct (k0 =? k); [discriminate|].
    eapply Hw. exact Hin.
  - eapply wconn_frame; [exact Hw|apply frame_step; exact Hc].
Qed.

Lemma whosts_ext w w' r d :
  wconn w ->
  (forall k c, lookupN k (w_conns w) = Some c -> exists c', lookupN k (w_conns w') = Some c' /\ conn_same c c') ->
  w_out w' = w_out w ++ d ->
  whosts w' r = whosts w r ++ map (host_of w') (map fst (writes_of r d)).
Proof.
  intros Hw Hc Ho. unfold whosts. rewrite !backend_writes_eq, Ho, writes_of_app, !map_app. f_equal.
  rewrite !map_map. apply map_ext_in. intros [k s] Hin. cbn [fst]. apply writes_of_in in Hin.
  pose proof (Hw k s r Hin) as Hk. unfold host_of. destruct (lookupN k (w_conns w)) as [c|] eqn:E; [|congruence].
  destruct (Hc k c E) as (c' & E' & Hh & _). rewrite E'. exact Hh.
Qed.

Lemma whosts_same w w' r : w_conns w' = w_conns w -> writes_of r (w_out w') = writes_of r (w_out w) -> whosts w' r = whosts w r.
Proof. intros Hc Ho. unfold whosts, host_of. rewrite !backend_writes_eq, Hc, Ho. reflexivity. Qed.

(** the policy answers RetrySame only at retry count 0 -- derived from [policy_eq_doc] (the generated
    policy is the documented one), not from the generated tables themselves *)
Lemma doc_code_same d : doc_code d = dec_RetrySame -> d = DSame.
Proof. destruct d; [reflexivity| |]; vm_compute; discriminate. Qed.

Lemma same_only_at_retry0 idem m rt :
  (0 <= rt)%Z -> handle_error idem m rt = dec_RetrySame -> rt = 0%Z.
Proof.
  intros Hnn H. rewrite (policy_eq_doc idem m rt Hnn) in H. apply doc_code_same in H.
  unfold doc_policy in H. destruct (Z.eqb_spec rt 0) as [E|E]; [exact E|exfalso].
  rewrite ?andb_false_r in H. cbn [andb] in H.
  repeat match type of H with (if ?b then _ else _) = _ => destruct b end; discriminate.
Qed.

(** [B] is the budget of repetitions: the number of successful non-nested re-PREPAREs so far, plus one once
    the retry counter has been bumped *)
Definition Mid (p : list N) (B : nat) (rest : list N) (hs : list N) : Prop :=
  exists used hs' m, (m <= B)%nat /\ p = used ++ rest /\ subseq hs' used /\ stut m hs hs'.

Definition Rest (p : list N) (B : nat) (q : creq) (hs : list N) : Prop :=
  exists used hs' m, (m <= B)%nat /\ p = used ++ q_plan q /\ subseq hs' used /\ stut m hs hs' /\
    (q_done q = false -> exists u0 h hs0, used = u0 ++ [h] /\ q_host q = Some h /\ hs' = hs0 ++ [h] /\ subseq hs0 u0).

Definition rbit (q : creq) : nat := if (1 <=? q_retry q)%Z then 1%nat else 0%nat.

Definition InvR (r : rid) (p : list N) (n : nat) (w : world) : Prop :=
  match lookupN r (w_reqs w) with
  | Some q => (0 <= q_retry q)%Z /\ Rest p (n + rbit q) q (whosts w r)
  | None => whosts w r = []
  end.

Lemma Rest_Mid p B q hs : Rest p B q hs -> Mid p B (q_plan q) hs.
Proof. intros (used & hs' & m & Hm & Hp & Hs & Hd & _). exists used, hs', m. auto. Qed.

Lemma Rest_mono p B B' q hs : (B <= B')%nat -> Rest p B q hs -> Rest p B' q hs.
Proof. intros Hle (used & hs' & m & Hm & H). exists used, hs', m. split; [lia|exact H]. Qed.

Lemma Rest_ext p B q q' hs : q_plan q' = q_plan q -> q_host q' = q_host q -> q_done q' = q_done q ->
  Rest p B q hs -> Rest p B q' hs.
Proof. intros E1 E2 E3 (used & hs' & m & H). exists used, hs', m. rewrite E1, E2, E3. exact H. Qed.

Lemma InvR_mono r p n n' w : (n <= n')%nat -> InvR r p n w -> InvR r p n' w.
Proof.
  intros Hle I. unfold InvR in *. destruct (lookupN r (w_reqs w)) as [q|]; [|exact I].
  destruct I as (Hnn & R). split; [exact Hnn|]. eapply Rest_mono; [|exact R]. lia.
Qed.

Lemma invR_exec_next orig (r : rid) p n : forall pl o w q,
  wconn w -> lookupN r (w_reqs w) = Some q -> q_done q = false -> (0 <= q_retry q)%Z ->
  Mid p (n + rbit q) pl (whosts w r) ->
  InvR r p n (exec_next orig w r q pl o).
Proof.
  induction pl as [|h pl' IH]; intros o w q Hw Hq Hd Hnn HM; cbn [exec_next].
  - unfold reply_once. rewrite reqs_set_req, lookupN_updateN_same. cbn [with_host q_done]. rewrite Hd.
    unfold InvR. rewrite reqs_emit, reqs_set_req, lookupN_updateN_same.
    match goal with |- _ /\ Rest p _ ?qd (whosts ?w' r) => assert (E : whosts w' r = whosts w r) end.
    { apply whosts_same; [reflexivity|]. rewrite out_emit, !out_set_req, writes_of_app. cbn. apply app_nil_r. }
    rewrite E. destruct HM as (used & hs' & m & Hm & Hp & Hs & Hdf). split; [exact Hnn|]. exists used, hs', m.
    unfold rbit in *. cbn [q_plan q_retry q_done].
    split; [exact Hm|]. split; [exact Hp|]. split; [exact Hs|]. split; [exact Hdf|discriminate].
  - set (q1 := with_host q (Some h) pl'). set (w0 := set_req w r q1).
    assert (Hw0 : wconn w0) by exact Hw.
    assert (Hq1 : lookupN r (w_reqs w0) = Some q1) by (unfold w0; rewrite reqs_set_req; apply lookupN_updateN_same).
    assert (E0 : whosts w0 r = whosts w r) by (apply whosts_same; reflexivity).
    pose proof (send_to_cases orig w0 r h (hd None o)) as C.
    pose proof (frame_send_to orig r w0 h (hd None o)) as F.
    destruct (send_to orig w0 r h (hd None o)) as [w1 res]. cbn [fst] in F.
    destruct HM as (used & hs' & m & Hm & Hp & Hs & Hdf).
    assert (Hp' : p = (used ++ [h]) ++ pl') by (rewrite <- app_assoc; exact Hp).
    destruct res.
    + destruct C as (k & s & c1 & _ & Ho & Hk1 & Hh1 & _ & _ & Hr1).
      assert (E1 : whosts w1 r = whosts w r ++ [h]).
      { rewrite (whosts_ext w0 w1 r [ToBackend k s r] Hw0 (proj2 (fr_conns _ _ _ F)) Ho), E0. f_equal.
        cbn. rewrite N.eqb_refl. cbn. unfold host_of. rewrite Hk1, Hh1. reflexivity. }
      unfold InvR. rewrite Hr1, Hq1, E1. split; [exact Hnn|]. exists (used ++ [h]), (hs' ++ [h]), m.
      split; [exact Hm|]. split; [exact Hp'|]. split; [apply subseq_app; [exact Hs|apply subseq_refl]|].
      split; [apply st_snoc; exact Hdf|]. intros _. exists used, h, hs'. auto.
    + destruct C as (Ho & Hr1).
      assert (E1 : whosts w1 r = whosts w r).
      { rewrite (whosts_ext w0 w1 r [] Hw0 (proj2 (fr_conns _ _ _ F))), E0 by (rewrite app_nil_r; exact Ho).
        cbn. apply app_nil_r. }
      apply IH.
      * eapply wconn_frame; [exact Hw0|exact F].
      * rewrite Hr1. exact Hq1.
      * exact Hd.
      * exact Hnn.
      * rewrite E1. exists (used ++ [h]), hs', m. split; [exact Hm|]. split; [exact Hp'|]. split; [apply subseq_app_r; exact Hs|exact Hdf].
Qed.

Lemma invR_exec_internal_next orig (r : rid) p n w o :
  wconn w -> InvR r p n w -> InvR r p n (exec_internal orig w r true o).
Proof.
  intros Hw I. unfold exec_internal. unfold InvR in I. destruct (lookupN r (w_reqs w)) as [q|] eqn:Hq.
  2:{ unfold InvR. rewrite Hq. exact I. }
  destruct (q_done q) eqn:Hd.
  { unfold InvR. rewrite Hq. exact I. }
  destruct I as (Hnn & R). apply invR_exec_next; [exact Hw|exact Hq|exact Hd|exact Hnn|apply Rest_Mid; exact R].
Qed.

(** re-sending to the same host (Execute(false)) costs one unit of the budget *)
Lemma invR_exec_internal_same orig (r : rid) p n B w o q :
  wconn w -> lookupN r (w_reqs w) = Some q -> q_done q = false -> (0 <= q_retry q)%Z ->
  Rest p B q (whosts w r) -> (S B <= n + rbit q)%nat ->
  InvR r p n (exec_internal orig w r false o).
Proof.
  intros Hw Hq Hd Hnn (used & hs' & m & Hm & Hp & Hss & Hst & Hnd) HB.
  destruct (Hnd Hd) as (u0 & h & hs0 & Hu & Hh & Hhs' & Hs0).
  unfold exec_internal. rewrite Hq, Hd, Hh.
  pose proof (send_to_cases orig w r h (hd None o)) as C.
  pose proof (frame_send_to orig r w h (hd None o)) as F.
  destruct (send_to orig w r h (hd None o)) as [w1 res]. cbn [fst] in F.
  destruct res.
  - destruct C as (k & s & c1 & _ & Ho & Hk1 & Hh1 & _ & _ & Hr1).
    assert (E1 : whosts w1 r = whosts w r ++ [h]).
    { rewrite (whosts_ext w w1 r [ToBackend k s r] Hw (proj2 (fr_conns _ _ _ F)) Ho). f_equal.
      cbn. rewrite N.eqb_refl. cbn. unfold host_of. rewrite Hk1, Hh1. reflexivity. }
    unfold InvR. rewrite Hr1, Hq, E1. split; [exact Hnn|]. exists used, hs', (S m).
    split; [lia|]. split; [exact Hp|]. split; [exact Hss|]. split.
    + rewrite Hhs'. apply stut_dup_last. rewrite <- Hhs'. exact Hst.
    + intros _. exists u0, h, hs0. auto.
  - destruct C as (Ho & Hr1).
    assert (E1 : whosts w1 r = whosts w r).
    { rewrite (whosts_ext w w1 r [] Hw (proj2 (fr_conns _ _ _ F))) by (rewrite app_nil_r; exact Ho).
      cbn. apply app_nil_r. }
    apply invR_exec_next.
    + eapply wconn_frame; [exact Hw|exact F].
    + rewrite Hr1. exact Hq.
    + exact Hd.
    + exact Hnn.
    + rewrite E1. exists used, hs', m. split; [lia|]. auto.
Qed.

Lemma host_of_set_conn w k c c' : lookupN k (w_conns w) = Some c -> b_host c' = b_host c ->
  forall k0, host_of (set_conn w k c') k0 = host_of w k0.
Proof.
  intros Hk Hh k0. unfold host_of. rewrite conns_set_conn, lookupN_updateN.
  destruct (N.eqb_spec k0 k) as [->|Hne]; [rewrite Hk; exact Hh|reflexivity].
Qed.

Lemma whosts_set_conn w k c c' r : lookupN k (w_conns w) = Some c -> b_host c' = b_host c ->
  whosts (set_conn w k c') r = whosts w r.
Proof.
  intros Hk Hh. unfold whosts. change (backend_writes (set_conn w k c') r) with (backend_writes w r).
  apply map_ext. intro k0. eapply host_of_set_conn; eassumption.
Qed.

Lemma wconn_set_conn w k c c' : lookupN k (w_conns w) = Some c -> wconn w -> wconn (set_conn w k c').
Proof.
  intros Hk Hw k0 s r Hin. rewrite conns_set_conn, lookupN_updateN. destruct (k0 =? k); [discriminate|].
  eapply Hw. exact Hin.
Qed.

Lemma wconn_bump w r : wconn w -> wconn (bump_retry w r).
Proof. intros Hw k s r0. rewrite bump_retry_out, bump_retry_conns. apply Hw. Qed.

Lemma whosts_bump w r r0 : whosts (bump_retry w r0) r = whosts w r.
Proof. apply whosts_same; [apply bump_retry_conns|rewrite bump_retry_out; reflexivity]. Qed.

Lemma invR_transport (r : rid) p n w w' :
  lookupN r (w_reqs w') = lookupN r (w_reqs w) -> whosts w' r = whosts w r -> InvR r p n w -> InvR r p n w'.
Proof. intros Hq Hh I. unfold InvR in *. rewrite Hq, Hh. exact I. Qed.

Lemma invR_reply_once (r : rid) p n w what : InvR r p n w -> InvR r p n (reply_once w r what).
Proof.
  intro I. unfold reply_once. destruct (lookupN r (w_reqs w)) as [q|] eqn:Hq; [|exact I].
  destruct (q_done q) eqn:Hd; [exact I|]. unfold InvR in *. rewrite Hq in I.
  rewrite reqs_emit, reqs_set_req, lookupN_updateN_same.
  match goal with |- _ /\ Rest p _ ?qd (whosts ?w' r) => assert (E : whosts w' r = whosts w r) end.
  { apply whosts_same; [reflexivity|]. rewrite out_emit, out_set_req, writes_of_app. cbn. apply app_nil_r. }
  rewrite E. destruct I as (Hnn & used & hs' & m & Hm & Hp & Hs & Hdf & _). split; [exact Hnn|].
  exists used, hs', m. unfold rbit in *. cbn [q_plan q_retry q_done].
  split; [exact Hm|]. split; [exact Hp|]. split; [exact Hs|]. split; [exact Hdf|discriminate].
Qed.

Lemma rbit_bump q : (0 <= q_retry q)%Z ->
  (rbit q <= rbit {| q_client := q_client q; q_cstream := q_cstream q; q_idem := q_idem q; q_plan := q_plan q;
                     q_host := q_host q; q_retry := q_retry q + 1; q_done := q_done q |})%nat /\
  rbit {| q_client := q_client q; q_cstream := q_cstream q; q_idem := q_idem q; q_plan := q_plan q;
          q_host := q_host q; q_retry := q_retry q + 1; q_done := q_done q |} = 1%nat.
Proof.
  intro Hnn. unfold rbit. cbn [q_retry].
  destruct (Z.leb_spec 1 (q_retry q)); destruct (Z.leb_spec 1 (q_retry q + 1)); lia.
Qed.

Lemma invR_bump (r : rid) p n w : InvR r p n w -> InvR r p n (bump_retry w r).
Proof.
  intro I. unfold InvR. rewrite whosts_bump. unfold InvR in I. unfold bump_retry.
  destruct (lookupN r (w_reqs w)) as [q|] eqn:Hq; [|rewrite Hq; exact I].
  rewrite reqs_set_req, lookupN_updateN_same. destruct I as (Hnn & R).
  split; [cbn [q_retry]; lia|]. destruct (rbit_bump q Hnn) as (L & _).
  eapply Rest_mono; [|eapply Rest_ext; [| | |exact R]; reflexivity]. lia.
Qed.

Definition is_prep_result (r : rid) (w : world) (e : event) : bool :=
  match delivered w e with
  | Some (EPrep r' false, FResult) => r' =? r
  | _ => false
  end.

Lemma invR_step orig (r : rid) p n w e :
  wconn w -> InvR r p n w ->
  (forall cl cs i p' o, e = EStart r cl cs i p' o -> lookupN r (w_reqs w) = None -> p' = p) ->
  InvR r p (n + if is_prep_result r w e then 1 else 0) (step_gen orig w e).
Proof.
  intros Hw I Hplan.
  assert (Hm : forall w', InvR r p n w' -> InvR r p (n + if is_prep_result r w e then 1 else 0) w').
  { intros w' I'. eapply InvR_mono; [|exact I']. lia. }
  assert (Hgen : forall d, w_out (step_gen orig w e) = w_out w ++ d -> writes_of r d = [] ->
                           lookupN r (w_reqs (step_gen orig w e)) = lookupN r (w_reqs w) -> InvR r p n (step_gen orig w e)).
  { intros d D Wd Hq. apply (invR_transport r p n w); [exact Hq| |exact I].
    rewrite (whosts_ext w _ r d Hw (gr_conns _ _ (step_grows orig w e)) D), Wd. cbn. apply app_nil_r. }
  destruct (is_connect e) eqn:Hc.
  { apply Hm. apply (Hgen []); [|reflexivity|]; destruct e; try discriminate; rewrite step_connect;
      destruct (lookupN k (w_conns w)); try reflexivity; rewrite app_nil_r; reflexivity. }
  destruct (N.eq_dec (active w e) r) as [Ha|Ha].
  2:{ apply Hm. pose proof (frame_step orig w e Hc) as F. destruct (fr_out _ _ _ F) as (d & D & Fa & _).
      apply (Hgen d D); [apply (writes_of_other r d); eapply Forall_out_other; eassumption|]. apply (fr_other _ _ _ F). congruence. }
  destruct e as [r' cl cs idem p' o|k s f o|k|k ent o|k h n0]; cbn [active] in Ha; try discriminate.
  - (* EStart *) apply Hm. cbn [step_gen]. subst r'. destruct (lookupN r (w_reqs w)) as [q|] eqn:Hq; [exact I|].
    rewrite (Hplan cl cs idem p' o eq_refl eq_refl).
    unfold exec_internal. rewrite reqs_set_req, lookupN_updateN_same. cbn [q_done q_plan].
    apply invR_exec_next; [exact Hw|rewrite reqs_set_req; apply lookupN_updateN_same|reflexivity|cbn [q_retry]; lia|].
    unfold InvR in I. rewrite Hq in I.
    match goal with |- Mid _ _ _ (whosts ?w' r) => assert (E : whosts w' r = whosts w r) by (apply whosts_same; reflexivity) end.
    rewrite E, I. exists [], [], 0%nat. split; [lia|]. split; [reflexivity|]. split; constructor.
  - (* EFrame *)
    unfold is_prep_result in *. cbn [delivered step_gen] in *. unfold live in *.
    destruct (lookupN k (w_conns w)) as [c|] eqn:Hk; [|apply Hm; exact I].
    destruct (b_closing c) eqn:Hcl; [apply Hm; exact I|].
    destruct (lookupN s (b_pending c)) as [ent|] eqn:Hs; [|apply Hm; exact I].
    fold (popped c s). set (w1 := set_conn w k (popped c s)).
    assert (Hw1 : wconn w1) by (eapply wconn_set_conn; eassumption).
    assert (E1 : whosts w1 r = whosts w r) by (eapply whosts_set_conn; [exact Hk|reflexivity]).
    assert (I1 : InvR r p n w1) by (apply (invR_transport r p n w); [reflexivity|exact E1|exact I]).
    assert (IP : forall nested ok,
               InvR r p n (let '(w2, res) := send_prepare w1 k r nested ok in
                           match res with SentOk => w2 | SendErr => exec_internal orig w2 r true o end)).
    { intros nested ok. pose proof (send_prepare_cases w1 k r nested ok) as C.
      pose proof (frame_send_prepare r w1 k nested ok) as F.
      destruct (send_prepare w1 k r nested ok) as [w2 res]. cbn [fst] in F. destruct res.
      - destruct C as (s0 & c1 & _ & Ho & Hr & _). apply (invR_transport r p n w1); [rewrite Hr; reflexivity| |exact I1].
        rewrite (whosts_ext w1 w2 r _ Hw1 (proj2 (fr_conns _ _ _ F)) Ho). cbn. apply app_nil_r.
      - subst w2. apply invR_exec_internal_next; assumption. }
    destruct ent as [r'|r' nested]; cbn [entry_req] in Ha; subst r'.
    + apply Hm. change (w_reqs w1) with (w_reqs w).
      destruct f as [|m|[|] ok]; try apply IP;
        (destruct (lookupN r (w_reqs w)) as [q|] eqn:Hq; [|exact I1]); (destruct (q_done q) eqn:Hd; [exact I1|]);
        try (apply invR_reply_once; exact I1).
      cbv zeta. destruct (handle_error (q_idem q) m (q_retry q) =? dec_RetryNext) eqn:D1.
      { apply invR_exec_internal_next; [apply wconn_bump; exact Hw1|apply invR_bump; exact I1]. }
      destruct (handle_error (q_idem q) m (q_retry q) =? dec_RetrySame) eqn:D2; [|apply invR_reply_once; exact I1].
      apply N.eqb_eq in D2.
      unfold InvR in I1. change (w_reqs w1) with (w_reqs w) in I1. rewrite Hq in I1. destruct I1 as (Hnn & R).
      apply (same_only_at_retry0 _ _ _ Hnn) in D2.
      set (qb := {| q_client := q_client q; q_cstream := q_cstream q; q_idem := q_idem q; q_plan := q_plan q;
                    q_host := q_host q; q_retry := q_retry q + 1; q_done := q_done q |}).
      assert (Hqb : lookupN r (w_reqs (bump_retry w1 r)) = Some qb).
      { unfold bump_retry. change (w_reqs w1) with (w_reqs w). rewrite Hq, reqs_set_req. apply lookupN_updateN_same. }
      eapply (invR_exec_internal_same orig r p n n _ o qb); [apply wconn_bump; exact Hw1|exact Hqb|exact Hd|cbn [qb q_retry]; lia| |].
      * rewrite whosts_bump. eapply Rest_ext; [| | |eapply Rest_mono; [|exact R]]; try reflexivity.
        unfold rbit. rewrite D2. cbn. lia.
      * destruct (rbit_bump q Hnn) as (_ & Eb). fold qb in Eb. rewrite Eb. lia.
    + destruct f as [|m|[|] ok]; try (apply Hm; apply IP); try (apply Hm; apply invR_exec_internal_next; assumption).
      destruct nested; [apply Hm; apply invR_exec_internal_next; assumption|].
      rewrite N.eqb_refl.
      unfold exec_internal. change (w_reqs w1) with (w_reqs w).
      destruct (lookupN r (w_reqs w)) as [q|] eqn:Hq.
      2:{ eapply InvR_mono; [|exact I1]. lia. }
      destruct (q_done q) eqn:Hd.
      { eapply InvR_mono; [|exact I1]. lia. }
      pose proof I1 as I1'. unfold InvR in I1'. change (w_reqs w1) with (w_reqs w) in I1'. rewrite Hq in I1'.
      destruct I1' as (Hnn & R).
      pose proof (invR_exec_internal_same orig r p (n + 1) (n + rbit q) w1 o q Hw1 Hq Hd Hnn R ltac:(lia)) as G.
      unfold exec_internal in G. change (w_reqs w1) with (w_reqs w) in G. rewrite Hq, Hd in G. exact G.
  - (* ECloseBegin *) apply Hm. cbn [step_gen].
    destruct (lookupN k (w_conns w)) as [c|] eqn:Hk; [|exact I]. destruct (b_closing c); [exact I|].
    apply (invR_transport r p n w); [reflexivity| |exact I]. eapply whosts_set_conn; [exact Hk|reflexivity].
  - (* ENotify *) apply Hm. cbn [step_gen].
    destruct (lookupN k (w_conns w)) as [c|] eqn:Hk; [|exact I].
    destruct (negb (existsb (entry_eqb ent) (b_tonotify c))); [exact I|].
    match goal with |- context [set_conn w k ?cc] => set (c' := cc) end. set (w1 := set_conn w k c').
    assert (Hw1 : wconn w1) by (eapply wconn_set_conn; eassumption).
    assert (E1 : whosts w1 r = whosts w r) by (eapply whosts_set_conn; [exact Hk|reflexivity]).
    assert (I1 : InvR r p n w1) by (apply (invR_transport r p n w); [reflexivity|exact E1|exact I]).
    change (w_reqs w1) with (w_reqs w). rewrite Ha.
    destruct (lookupN r (w_reqs w)) as [q|] eqn:Hq; [|exact I1].
    destruct (q_idem q); [apply invR_exec_internal_next; assumption|apply invR_reply_once; exact I1].
Qed.

Lemma invR_run (r : rid) p : forall es w n,
  wconn w -> InvR r p n w ->
  (lookupN r (w_reqs w) = None -> match first_start es r with Some (_, _, _, p') => p' = p | None => True end) ->
  InvR r p (n + count_from (is_prep_result r) w es) (fold_left step es w).
Proof.
  induction es as [|e es IH]; intros w n Hw I Hfs; cbn [fold_left count_from]; [rewrite Nat.add_0_r; exact I|].
  rewrite Nat.add_assoc. apply IH.
  - apply wconn_step. exact Hw.
  - apply invR_step; [exact Hw|exact I|]. intros cl cs i p' o -> Hq. specialize (Hfs Hq).
    cbn [first_start] in Hfs. rewrite N.eqb_refl in Hfs. exact Hfs.
  - intro Hq'. destruct (lookupN r (w_reqs w)) as [q|] eqn:Hq.
    + destruct (gr_reqs _ _ (step_grows false w e) r q Hq) as (q' & E & _). unfold step in Hq'. congruence.
    + specialize (Hfs eq_refl). destruct (starts e r) eqn:Hs.
      * destruct e as [r' cl cs idem p' o| | | |]; try discriminate. cbn [starts] in Hs. apply N.eqb_eq in Hs. subst r'.
        destruct (step_start false w r cl cs idem p' o Hq) as (q' & E & _). unfold step in Hq'. congruence.
      * destruct e; try exact Hfs. cbn [first_start] in Hfs. cbn [starts] in Hs. rewrite Hs in Hfs. exact Hfs.
Qed.

(** the number of successful non-nested re-PREPAREs for [r]: RESULT frames delivered to an [EPrep r false] entry *)
Definition prep_results (es : list event) (r : rid) : nat := count_events (is_prep_result r) es.

Theorem prep_writes_bounded_and_in_plan_order : forall es r cl cs idem p,
  first_start es r = Some (cl, cs, idem, p) ->
  let hs := whosts (run_events es) r in
  (forall h, In h hs -> In h p) /\
  (exists hs' m, subseq hs' p /\ stut m hs hs' /\ (m <= 1 + prep_results es r)%nat) /\
  (length (backend_writes (run_events es) r) <= length p + 1 + prep_results es r)%nat.
Proof.
  intros es r cl cs idem p Hfs hs.
  assert (I : InvR r p (0 + prep_results es r) (run_events es)).
  { apply invR_run; [intros k s r0 []|reflexivity|]. intros _. rewrite Hfs. reflexivity. }
  pose proof (prep_started_record es r) as S. rewrite Hfs in S. destruct S as (q & Hq & _).
  unfold InvR in I. rewrite Hq in I. fold hs in I.
  destruct I as (_ & used & hs' & m & Hm & Hp & Hs & Hdf & _).
  assert (Hsp : subseq hs' p) by (rewrite Hp; apply subseq_app_r; exact Hs).
  assert (Hm' : (m <= 1 + prep_results es r)%nat).
  { unfold rbit in Hm. destruct (1 <=? q_retry q)%Z; lia. }
  split; [|split].
  - intros h Hin. eapply subseq_In; [exact Hsp|]. eapply stut_In; eassumption.
  - exists hs', m. auto.
  - pose proof (stut_length _ _ _ Hdf) as L1. pose proof (subseq_length _ _ Hsp) as L2.
    unfold hs, whosts in L1. rewrite !map_length in L1. lia.
Qed.

(** without re-preparations the bound is the one of the model without the prepared path *)
Corollary prep_writes_bounded_no_reprepare : forall es r cl cs idem p,
  first_start es r = Some (cl, cs, idem, p) -> prep_results es r = 0%nat ->
  (length (backend_writes (run_events es) r) <= length p + 1)%nat.
Proof.
  intros es r cl cs idem p Hfs Hz. destruct (prep_writes_bounded_and_in_plan_order es r cl cs idem p Hfs) as (_ & _ & L).
  rewrite Hz in L. lia.
Qed.

(** ** P8, the other direction: an UNPREPARED frame for a cached statement whose PREPARE can be sent is always
    answered, in the same step, by the proxy's PREPARE on the same connection, which is then registered there
    in place of the request (nested if the frame answered a PREPARE of the proxy) *)
Definition nested_of (ent : entry) : bool := match ent with EReq _ => false | EPrep _ _ => true end.

Theorem prep_cached_unprepared_is_reprepared : forall es k s o ent,
  let w := run_events es in
  let w' := run_events (es ++ [EFrame k s (FUnprepared true true) o]) in
  lookupN s (live w k) = Some ent ->
  exists s0, w_out w' = w_out w ++ [ToBackendPrepare k s0 (entry_req ent)] /\
             In (s0, EPrep (entry_req ent) (nested_of ent)) (live w' k) /\
             lookupN (entry_req ent) (w_reqs w') = lookupN (entry_req ent) (w_reqs w).
Proof.
  intros es k s o ent w w' Hl. destruct (live_lookup_inv _ _ _ _ Hl) as (c & Hk & Hcl & Hs).
  unfold w'. rewrite run_events_app. cbn [fold_left]. fold w. unfold step. cbn [step_gen]. rewrite Hk, Hcl, Hs.
  fold (popped c s).
  assert (G : forall nested, exists s0,
            send_prepare (set_conn w k (popped c s)) k (entry_req ent) nested true =
            (emit (set_conn (set_conn w k (popped c s)) k
                    {| b_host := b_host c; b_closing := false; b_free := tl (b_free c ++ [s]);
                       b_pending := (s0, EPrep (entry_req ent) nested) :: removeN s (b_pending c);
                       b_tonotify := b_tonotify c |}) (ToBackendPrepare k s0 (entry_req ent)), SentOk)).
  { intro nested. unfold send_prepare. rewrite conns_set_conn, lookupN_updateN_same.
    cbn [popped b_closing b_free b_host b_pending b_tonotify orb negb].
    destruct (b_free c ++ [s]) as [|s0 fr] eqn:E; [destruct (b_free c); discriminate|]. exists s0. reflexivity. }
  destruct ent as [r|r n]; cbn [entry_req nested_of] in *.
  - destruct (G false) as (s0 & E). rewrite E. exists s0. rewrite out_emit, !out_set_conn. split; [reflexivity|].
    split; [|reflexivity]. unfold live. rewrite conns_emit, conns_set_conn, lookupN_updateN_same. left. reflexivity.
  - destruct (G true) as (s0 & E). rewrite E. exists s0. rewrite out_emit, !out_set_conn. split; [reflexivity|].
    split; [|reflexivity]. unfold live. rewrite conns_emit, conns_set_conn, lookupN_updateN_same. left. reflexivity.
Qed.

(** ** worked examples (non-vacuity of the hypotheses of the theorems above) *)
Definition quiescentb (w : world) : bool :=
  forallb (fun kc => match b_tonotify (snd kc) with
                     | [] => b_closing (snd kc) || match b_pending (snd kc) with [] => true | _ => false end
                     | _ => false end) (w_conns w).

Lemma quiescentb_sound w : quiescentb w = true -> quiescent w.
Proof.
  intros H k c Hk. apply lookupN_In in Hk. unfold quiescentb in H. rewrite forallb_forall in H.
  specialize (H _ Hk). cbn [snd] in H. destruct (b_tonotify c); [|discriminate]. split; [reflexivity|].
  intro Hcl. rewrite Hcl in H. cbn [orb] in H. destruct (b_pending c); [reflexivity|discriminate].
Qed.

Definition unavailable : err_info := mk_err 4096 0 0 false [].
Definition read_timeout : err_info := mk_err 4608 2 2 false [].
Definition write_timeout : err_info := mk_err 4352 0 0 false [].

(** Run A.  Two connections (hosts 10, 20; two stream ids each).  The NON-idempotent request 7 (plan 10 20) is
    written to connection 1 (stream 0).  Host 10 answers UNPREPARED, the statement is cached: the proxy sends its
    own PREPARE on connection 1 (stream 1; id 0 went to the back of the channel).  The PREPARE succeeds: the
    EXECUTE is re-sent to host 10 (stream 0 again).  Host 10 answers UNPREPARED once more and this time the
    PREPARE cannot be sent: the request moves on to host 20 (connection 2, stream 0), which answers UNPREPARED
    with an id the proxy does not have in its cache: that frame goes to the client. *)
Definition exA : list event :=
  [EConnect 1 10 2; EConnect 2 20 2;
   EStart 7 0 5%Z false [10; 20] [Some (1, true)];
   EFrame 1 0 (FUnprepared true true) [];
   EFrame 1 1 FResult [Some (1, true)];
   EFrame 1 0 (FUnprepared true false) [Some (2, true)];
   EFrame 2 0 (FUnprepared false false) []].

(** Run B.  The idempotent request 7 is written to connection 1; UNPREPARED (cached) -> the proxy's PREPARE on
    stream 1; a misbehaving host answers the PREPARE with UNPREPARED (cached) -> a nested PREPARE on stream 0.
    Connection 1 closes with the nested PREPARE pending; its close notification forwards to request 7, which
    moves on to host 20 (connection 2), which answers. *)
Definition exB : list event :=
  [EConnect 1 10 2; EConnect 2 20 2;
   EStart 7 0 5%Z true [10; 20] [Some (1, true)];
   EFrame 1 0 (FUnprepared true true) [];
   EFrame 1 1 (FUnprepared true true) [];
   ECloseBegin 1; ENotify 1 (EPrep 7 true) [Some (2, true)];
   EFrame 2 0 FResult []].

Example exA_out :
  w_out (run_events exA) =
  [ToBackend 1 0 7; ToBackendPrepare 1 1 7; ToBackend 1 0 7; ToBackend 2 0 7; ToClient 0 5%Z 7 (CFrame 2 0 KUnprepared)].
Proof. vm_compute. reflexivity. Qed.

Example exB_out :
  w_out (run_events exB) =
  [ToBackend 1 0 7; ToBackendPrepare 1 1 7; ToBackendPrepare 1 0 7; ToBackend 2 0 7; ToClient 0 5%Z 7 (CFrame 2 0 KResult)].
Proof. vm_compute. reflexivity. Qed.

(** P1: one reply, on the request's own client and stream; done <-> replied *)
Example ex_replies :
  (client_replies (run_events exA) 7, client_replies (run_events exB) 7,
   option_map q_done (lookupN 7 (w_reqs (run_events exB))), first_start exB 7) =
  ([ToClient 0 5%Z 7 (CFrame 2 0 KUnprepared)], [ToClient 0 5%Z 7 (CFrame 2 0 KResult)], Some true, Some (0, 5%Z, true, [10; 20])).
Proof. vm_compute. reflexivity. Qed.

(** P1: while unanswered, request 7 is registered exactly once -- as itself, as the proxy's PREPARE, as the nested
    PREPARE, as a pending close notification, as itself on the next host -- and nowhere once answered *)
Example ex_registered_once :
  map (fun n => regs (run_events (firstn n exB)) 7) [2; 3; 4; 5; 6; 7; 8]%nat = [0; 1; 1; 1; 1; 1; 0]%nat /\
  live (run_events (firstn 4 exB)) 1 = [(1, EPrep 7 false)] /\
  live (run_events (firstn 5 exB)) 1 = [(0, EPrep 7 true)] /\
  option_map b_tonotify (lookupN 1 (w_conns (run_events (firstn 6 exB)))) = Some [EPrep 7 true] /\
  live (run_events (firstn 7 exB)) 2 = [(0, EReq 7)] /\
  option_map q_done (lookupN 7 (w_reqs (run_events (firstn 7 exB)))) = Some false.
Proof. vm_compute. auto 10. Qed.

(** P1: run B ends quiescent with the request answered; before the last frame it is not quiescent *)
Example ex_quiescent :
  quiescent (run_events exB) /\ quiescentb (run_events (firstn 7 exB)) = false /\
  map (fun rq => (fst rq, q_done (snd rq))) (w_reqs (run_events exB)) = [(7, true)].
Proof. split; [apply quiescentb_sound; vm_compute; reflexivity|]. vm_compute. auto. Qed.

(** P2: ids of connection 1 in run A after reuse; in the middle id 1 carries the proxy's PREPARE while 0 is free *)
Example ex_ids :
  (first_connect exA 1,
   option_map (fun c => (b_free c, b_pending c)) (lookupN 1 (w_conns (run_events exA))),
   option_map (fun c => (b_free c, b_pending c)) (lookupN 1 (w_conns (run_events (firstn 4 exA))))) =
  (Some (10, 2%nat), Some ([1; 0], []), Some ([0], [(1, EPrep 7 false)])).
Proof. vm_compute. reflexivity. Qed.

(** P2: the frame of connection 2 stream 0 forwarded to request 7 is preceded by the write of request 7 there *)
Example ex_route :
  exists pre post, w_out (run_events exA) = pre ++ ToClient 0 5%Z 7 (CFrame 2 0 KUnprepared) :: post /\
                   last_write pre 2 0 = Some (false, 7).
Proof. exists (firstn 4 (w_out (run_events exA))), []. vm_compute. auto. Qed.

(** P2: a live registration of the proxy's PREPARE and its write; stream 0 of connection 1 carried request 7 before *)
Example ex_live_written :
  let w := run_events (firstn 5 exB) in
  In (0, EPrep 7 true) (live w 1) /\ last_write (w_out w) 1 0 = Some (true, 7) /\
  last_write (w_out (run_events (firstn 3 exB))) 1 0 = Some (false, 7).
Proof. vm_compute. auto. Qed.

(** P3: UNPREPARED answers and answers to the re-PREPARE are safe outcomes: the non-idempotent request 7 of run A
    is written three times; a write timeout delivered to it instead of the last frame is final: nothing more is
    written for it whatever follows (here: a late close of connection 2) *)
Example ex_nonidem_safe :
  (option_map q_idem (lookupN 7 (w_reqs (run_events exA))), backend_writes (run_events exA) 7, prepare_writes (run_events exA) 7) =
  (Some false, [(1, 0); (1, 0); (2, 0)], [(1, 1)]).
Proof. vm_compute. reflexivity. Qed.

Example ex_nonidem_final :
  let es1 := firstn 6 exA in
  let e := EFrame 2 0 (FError write_timeout) [Some (1, true)] in
  let es2 := [ECloseBegin 2; ENotify 2 (EReq 7) [Some (1, true)]; EFrame 1 0 FResult []] in
  (lookupN 0 (live (run_events es1) 2), option_map q_idem (lookupN 7 (w_reqs (run_events es1))),
   safe_to_resend (OError write_timeout),
   backend_writes (run_events (es1 ++ e :: es2)) 7, backend_writes (run_events es1) 7,
   prepare_writes (run_events (es1 ++ e :: es2)) 7, prepare_writes (run_events es1) 7,
   client_replies (run_events (es1 ++ [e])) 7) =
  (Some (EReq 7), Some false, false, [(1, 0); (1, 0); (2, 0)], [(1, 0); (1, 0); (2, 0)], [(1, 1)], [(1, 1)],
   [ToClient 0 5%Z 7 (CFrame 2 0 KError)]).
Proof. vm_compute. reflexivity. Qed.

(** P3 (close): a non-idempotent request whose re-PREPARE is pending on a closing connection is answered
    "connection lost" and not written again *)
Example ex_nonidem_close :
  let es1 := firstn 4 exA ++ [ECloseBegin 1] in
  let es := es1 ++ [ENotify 1 (EPrep 7 false) [Some (2, true)]] in
  (option_map b_tonotify (lookupN 1 (w_conns (run_events es1))),
   backend_writes (run_events es) 7, prepare_writes (run_events es) 7, client_replies (run_events es) 7) =
  (Some [EPrep 7 false], [(1, 0)], [(1, 1)], [ToClient 0 5%Z 7 CConnLost]).
Proof. vm_compute. reflexivity. Qed.

(** P4: hosts written for request 7 in run A: 10 twice (the re-EXECUTE after the successful re-PREPARE), then 20:
    the plan [10; 20] with one repetition, one successful non-nested re-PREPARE *)
Example ex_plan_order :
  (whosts (run_events exA) 7, prep_results exA 7, whosts (run_events exB) 7, prep_results exB 7) =
  ([10; 10; 20], 1%nat, [10; 20], 0%nat) /\
  subseq [10; 20] [10; 20] /\ stut 1 [10; 10; 20] [10; 20].
Proof.
  split; [vm_compute; reflexivity|]. split; [apply subseq_refl|].
  exact (st_snoc 1 20 _ _ (st_dup 0 10 [] [] (st_snoc 0 10 [] [] st_nil))).
Qed.

(** P4: the bound hosts + 1 + re-PREPAREs is reached: one host, UNPREPARED, successful re-PREPARE, re-EXECUTE, read
    timeout, RetrySame *)
Example ex_bound_tight :
  let es := [EConnect 1 10 2; EStart 7 0 5%Z true [10] [Some (1, true)];
             EFrame 1 0 (FUnprepared true true) []; EFrame 1 1 FResult [Some (1, true)];
             EFrame 1 0 (FError read_timeout) [Some (1, true)]] in
  (backend_writes (run_events es) 7, prep_results es 7) = ([(1, 0); (1, 0); (1, 1)], 1%nat).
Proof. vm_compute. reflexivity. Qed.

(** P4c: a request whose plan is exhausted gets "no hosts" while registered nowhere *)
Example ex_no_hosts :
  let es := firstn 3 exB ++ [EFrame 1 0 (FUnprepared true false) [None; Some (2, false)]] in
  (client_replies (run_events es) 7, live (run_events es) 1, live (run_events es) 2,
   option_map q_plan (lookupN 7 (w_reqs (run_events es)))) =
  ([ToClient 0 5%Z 7 CNoHosts], [], [], Some []).
Proof. vm_compute. reflexivity. Qed.

(** P5: the UNPREPARED frame the client of run A gets was emitted by the step delivering [FUnprepared false _]
    (an id the proxy's cache does not have) to request 7 itself on connection 2, stream 0; run B, in which every
    UNPREPARED frame is for a cached statement, hands no UNPREPARED frame to a client *)
Example ex_unprepared_to_client :
  exists pre post, w_out (run_events exA) = pre ++ ToClient 0 5%Z 7 (CFrame 2 0 KUnprepared) :: post /\
                   exA = firstn 6 exA ++ EFrame 2 0 (FUnprepared false false) [] :: [] /\
                   lookupN 0 (live (run_events (firstn 6 exA)) 2) = Some (EReq 7).
Proof. exists (firstn 4 (w_out (run_events exA))), []. vm_compute. auto. Qed.

Example ex_all_cached : all_cached exB.
Proof.
  intros k s cached ok o Hin. cbn in Hin.
  repeat (destruct Hin as [E|Hin]; [try discriminate; inversion E; reflexivity|]). destruct Hin.
Qed.

(** P6: the two refusals of the runs above: in run A the PREPARE for request 7 cannot be sent (delivered to the
    request itself); and an ERROR answer to the proxy's PREPARE (delivered to the [EPrep] entry) *)
Example ex_refusal :
  lookupN 0 (live (run_events (firstn 5 exA)) 1) = Some (EReq 7) /\ refusal (EReq 7) (FUnprepared true false) = true /\
  backend_writes (run_events (firstn 6 exA)) 7 = [(1, 0); (1, 0); (2, 0)] /\
  lookupN 1 (live (run_events (firstn 4 exA)) 1) = Some (EPrep 7 false) /\ refusal (EPrep 7 false) (FError unavailable) = true /\
  w_out (run_events (firstn 4 exA ++ [EFrame 1 1 (FError unavailable) [Some (2, true)]])) =
    [ToBackend 1 0 7; ToBackendPrepare 1 1 7; ToBackend 2 0 7].
Proof. vm_compute. auto 10. Qed.

(** P7: in run A the RESULT of the proxy's PREPARE (connection 1, stream 1) re-sends the EXECUTE on connection 1 *)
Example ex_reexecute_same_host :
  lookupN 1 (live (run_events (firstn 4 exA)) 1) = Some (EPrep 7 false) /\
  w_out (run_events (firstn 5 exA)) = w_out (run_events (firstn 4 exA)) ++ [ToBackend 1 0 7] /\
  In (0, EReq 7) (live (run_events (firstn 5 exA)) 1).
Proof. vm_compute. auto. Qed.

(** P8: two PREPAREs of the proxy in run B, for two UNPREPARED (cached, sendable) frames; one and one in run A
    (the second UNPREPARED frame of run A could not be followed by a PREPARE) *)
Example ex_prepares_counted :
  (length (prepare_writes (run_events exB) 7), count_events (is_unprepared_tt 7) exB,
   length (prepare_writes (run_events exA) 7), count_events (is_unprepared_tt 7) exA) = (2, 2, 1, 1)%nat.
Proof. vm_compute. reflexivity. Qed.

Print Assumptions step_out_cases.
Print Assumptions prep_one_output_per_event.
Print Assumptions run_out_emitted.
Print Assumptions prep_never_unprepared_when_cached.
Print Assumptions prep_forwarded_frame_is_the_delivered_one.
Print Assumptions prep_cached_never_unprepared.
Print Assumptions prep_prepares_bounded_by_unprepared_frames.
Print Assumptions prep_prepare_cause.
Print Assumptions prep_cached_unprepared_is_reprepared.
Print Assumptions prep_no_write_after_reply.
Print Assumptions prep_nonidem_never_resent_after_unsafe.
Print Assumptions prep_not_resent_after_result.
Print Assumptions prep_nonidem_not_resent_after_unsafe_error.
Print Assumptions prep_nonidem_not_resent_after_close.
Print Assumptions prep_nonidem_write_cause.
Print Assumptions prep_failed_reprepare_moves_on.
Print Assumptions prep_successful_reprepare_reexecutes_on_same_host.
Print Assumptions prep_started_record.
Print Assumptions prep_reply_to_own_client.
Print Assumptions prep_unstarted_never_written.
Print Assumptions prep_writes_bounded_and_in_plan_order.
Print Assumptions prep_writes_bounded_no_reprepare.
