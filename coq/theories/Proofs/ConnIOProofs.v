(** * Proofs about Model/ConnIO.v: the connection's writer goroutine (bufio.Writer chunking, coalescing,
    flush on empty queue), the acceptor used by the correspondence check, and the reader goroutine.

    W1  one [bufio.Writer.Write]: no byte lost, none invented, order kept; the buffer never exceeds [cap]
    W2  the writer goroutine: socket chunks ++ buffer = everything queued, in order
    W3  once the loop is blocked on the empty queue the buffer is empty: everything queued is on the wire
    W4  compositionality; at every moment the wire is a prefix of what was queued
    W5  the shape of chunks: never empty, at most [cap] bytes unless the tail of ONE Write call; at most
        two chunks per Write call plus one per flush
    W6  the acceptor answers [true] exactly when a quiescent schedule producing the observation exists
    W7  the reader is a function of the byte stream and decodes back the frames that were encoded
    W8  end to end, under any TCP segmentation; a stream cut anywhere shows the peer a prefix of the frames *)
From Coq Require Import List ZArith NArith Bool Lia ZifyN ZifyNat ZifyBool.
From CqlProxy Require Import Lib.Val Lib.Util Lib.Wire Proofs.WireProofs Model.Frame Proofs.FrameProofs
  Proofs.FrameProofs2 Model.ConnIO.
Import ListNotations.

Ltac ex_tac :=
  repeat split; try (vm_compute; reflexivity); try (vm_compute; lia); try (vm_compute; discriminate).

(** ** 0. equations in projection form (the model uses [let '(a, b) := ...]) *)

Lemma send_one_cons cap buf p r :
  send_one cap buf (p :: r) =
  (fst (bw_write cap buf p) ++ fst (send_one cap (snd (bw_write cap buf p)) r),
   snd (send_one cap (snd (bw_write cap buf p)) r)).
Proof.
  cbn [send_one]. destruct (bw_write cap buf p) as [c1 b1]. cbn [fst snd].
  destruct (send_one cap b1 r) as [c2 b2]. reflexivity.
Qed.

(** the buffer the loop continues with after a sender and the queue check *)
Definition after_flag (fl : bool) (b1 : bytes) : bytes := if fl then [] else b1.
Definition flag_chunks (fl : bool) (b1 : bytes) : list bytes := if fl then bw_flush b1 else [].

Lemma run_cons cap buf s fl r :
  run cap buf ((s, fl) :: r) =
  (fst (send_one cap buf s) ++ flag_chunks fl (snd (send_one cap buf s))
     ++ fst (run cap (after_flag fl (snd (send_one cap buf s))) r),
   snd (run cap (after_flag fl (snd (send_one cap buf s))) r)).
Proof.
  cbn [run]. destruct (send_one cap buf s) as [c1 b1]. cbn [fst snd].
  destruct fl; cbn [after_flag flag_chunks];
    match goal with |- context [run cap ?b r] => destruct (run cap b r) as [c3 b3] end; reflexivity.
Qed.

Lemma acc_cons cap buf s r obs :
  acc cap buf (s :: r) obs =
  match strip (fst (send_one cap buf s)) obs with
  | None => false
  | Some obs1 =>
      (match strip (bw_flush (snd (send_one cap buf s))) obs1 with
       | Some obs2 => acc cap [] r obs2
       | None => false
       end)
      || (match r with [] => false | _ :: _ => acc cap (snd (send_one cap buf s)) r obs1 end)
  end.
Proof. cbn [acc]. destruct (send_one cap buf s) as [em b1]. reflexivity. Qed.

Lemma all_bytes_cons s ss : all_bytes (s :: ss) = concat s ++ all_bytes ss.
Proof. reflexivity. Qed.

Lemma concat_bw_flush b : concat (bw_flush b) = b.
Proof. destruct b as [|x b]; cbn [bw_flush concat]; [reflexivity|apply app_nil_r]. Qed.

(** ** W1. bufio.Writer.Write *)

Lemma bw_write_stream cap buf p :
  concat (fst (bw_write cap buf p)) ++ snd (bw_write cap buf p) = buf ++ p.
Proof.
  unfold bw_write. cbv zeta.
  destruct (Nat.leb (length p) (cap - length buf)) eqn:Hfit; [reflexivity|].
  destruct buf as [|b0 buf'].
  - cbn [fst snd concat app]. rewrite !app_nil_r. reflexivity.
  - remember (b0 :: buf') as buf eqn:Hbuf.
    destruct (Nat.leb (length (skipn (cap - length buf) p)) cap) eqn:Hrest; cbn [fst snd concat].
    + rewrite app_nil_r, <- app_assoc, firstn_skipn. reflexivity.
    + rewrite !app_nil_r, <- app_assoc, firstn_skipn. reflexivity.
Qed.

(** holds for every [cap]; the stated hypothesis [0 < cap] is not used *)
Lemma bw_write_bound_gen cap buf p :
  length buf <= cap -> length (snd (bw_write cap buf p)) <= cap.
Proof.
  intro Hb. unfold bw_write. cbv zeta.
  destruct (Nat.leb_spec (length p) (cap - length buf)) as [Hfit|Hfit].
  - cbn [snd]. rewrite app_length. lia.
  - destruct buf as [|b0 buf']; [cbn; lia|].
    remember (b0 :: buf') as buf eqn:Hbuf.
    destruct (Nat.leb_spec (length (skipn (cap - length buf) p)) cap) as [Hr|Hr]; cbn [snd length]; lia.
Qed.

Lemma bw_write_bound cap buf p :
  0 < cap -> length buf <= cap -> length (snd (bw_write cap buf p)) <= cap.
Proof. intros _. apply bw_write_bound_gen. Qed.

Local Open Scope N_scope.
Example bw_write_ex :
  (0 < 8)%nat /\ (length [1; 2; 3] <= 8)%nat /\
  bw_write 8 [1; 2; 3] [4; 5; 6; 7; 8; 9; 10] = ([[1; 2; 3; 4; 5; 6; 7; 8]], [9; 10]) /\
  bw_write 8 [1; 2; 3] [4; 5] = ([], [1; 2; 3; 4; 5]) /\
  bw_write 8 [] [1; 2; 3; 4; 5; 6; 7; 8; 9; 10] = ([[1; 2; 3; 4; 5; 6; 7; 8; 9; 10]], []) /\
  bw_write 8 [1; 2; 3] [4; 5; 6; 7; 8; 9; 10; 11; 12; 13; 14; 15; 16; 17; 18]
    = ([[1; 2; 3; 4; 5; 6; 7; 8]; [9; 10; 11; 12; 13; 14; 15; 16; 17; 18]], []).
Proof. ex_tac. Qed.
Local Close Scope N_scope.

(** [length buf <= cap] is needed: a write that adds nothing leaves an oversized buffer as it is *)
Local Open Scope N_scope.
Example bw_write_bound_needs_buffer_bound :
  exists cap buf p, (0 < cap)%nat /\ ~ (length (snd (bw_write cap buf p)) <= cap)%nat.
Proof. exists 2%nat, [1; 2; 3], []. split; [lia|]. vm_compute. lia. Qed.
Local Close Scope N_scope.

(** ** W2. the stream is conserved *)

Lemma send_one_stream cap s : forall buf,
  concat (fst (send_one cap buf s)) ++ snd (send_one cap buf s) = buf ++ concat s.
Proof.
  induction s as [|p r IH]; intro buf.
  - cbn [send_one fst snd concat]. rewrite app_nil_r. reflexivity.
  - rewrite send_one_cons. cbn [fst snd concat].
    rewrite concat_app, <- app_assoc, IH, app_assoc, bw_write_stream, app_assoc. reflexivity.
Qed.

Lemma send_one_bound cap s : forall buf,
  length buf <= cap -> length (snd (send_one cap buf s)) <= cap.
Proof.
  induction s as [|p r IH]; intros buf Hb.
  - exact Hb.
  - rewrite send_one_cons. cbn [snd]. apply IH. apply bw_write_bound_gen. exact Hb.
Qed.

Lemma after_flag_bound cap fl b : length b <= cap -> length (after_flag fl b) <= cap.
Proof. destruct fl; cbn [after_flag length]; lia. Qed.

Lemma concat_flag_after fl b : concat (flag_chunks fl b) ++ after_flag fl b = b.
Proof.
  destruct fl; cbn [flag_chunks after_flag concat app]; [rewrite concat_bw_flush; apply app_nil_r|reflexivity].
Qed.

Theorem run_stream cap buf sch :
  concat (fst (run cap buf sch)) ++ snd (run cap buf sch) = buf ++ all_bytes (map fst sch).
Proof.
  revert buf. induction sch as [|[s fl] r IH]; intro buf.
  - cbn [run fst snd concat map all_bytes app]. unfold all_bytes. cbn [map concat]. rewrite app_nil_r. reflexivity.
  - rewrite run_cons. cbn [fst snd map]. rewrite all_bytes_cons.
    rewrite !concat_app, <- !app_assoc, IH.
    rewrite (app_assoc (concat (flag_chunks fl _))), concat_flag_after.
    rewrite !app_assoc. f_equal. apply send_one_stream.
Qed.

Lemma run_bound cap sch : forall buf, length buf <= cap -> length (snd (run cap buf sch)) <= cap.
Proof.
  induction sch as [|[s fl] r IH]; intros buf Hb.
  - exact Hb.
  - rewrite run_cons. cbn [snd]. apply IH, after_flag_bound, send_one_bound, Hb.
Qed.

(** the instance asked for: buffer of 8 bytes, three senders of two writes each, one write larger than the
    buffer, the queue looked non-empty after the first sender only *)
Local Open Scope N_scope.
Definition ex_cap : nat := 8.
Local Close Scope N_scope.
Local Open Scope N_scope.
Definition ex_ss : list sender :=
  [ [[1; 2; 3]; [4; 5]];
    [[6; 7]; [8; 9; 10; 11; 12; 13; 14; 15; 16; 17; 18; 19]];
    [[20]; [21; 22; 23]] ].
Local Close Scope N_scope.
Local Open Scope N_scope.
Definition ex_flags : list bool := [false; true; true].
Local Close Scope N_scope.
Local Open Scope N_scope.
Definition ex_sch : list (sender * bool) := combine ex_ss ex_flags.
Local Close Scope N_scope.
Local Open Scope N_scope.
Definition ex_obs : list bytes :=
  [ [1; 2; 3; 4; 5; 6; 7; 8]; [9; 10; 11; 12; 13; 14; 15; 16; 17; 18; 19]; [20; 21; 22; 23] ].
Local Close Scope N_scope.

Local Open Scope N_scope.
Example run_ex : run ex_cap [] ex_sch = (ex_obs, []).
Proof. vm_compute. reflexivity. Qed.
Local Close Scope N_scope.

Local Open Scope N_scope.
Example run_stream_ex :
  concat (fst (run ex_cap [0; 0] ex_sch)) ++ snd (run ex_cap [0; 0] ex_sch)
  = [0; 0] ++ all_bytes (map fst ex_sch)
  /\ fst (run ex_cap [0; 0] ex_sch)
     = [[0; 0; 1; 2; 3; 4; 5; 6]; [7; 8; 9; 10; 11; 12; 13; 14]; [15; 16; 17; 18; 19]; [20; 21; 22; 23]].
Proof. vm_compute. auto. Qed.
Local Close Scope N_scope.

(** ** W3. quiescence *)

Lemma quiescent_cons x r : r <> [] -> quiescent (x :: r) = quiescent r.
Proof.
  intro Hr. unfold quiescent. cbn [rev].
  destruct (rev r) as [|y l] eqn:E.
  - exfalso. apply Hr. rewrite <- (rev_involutive r), E. reflexivity.
  - reflexivity.
Qed.

Lemma quiescent_single s fl : quiescent [(s, fl)] = fl.
Proof. reflexivity. Qed.

Theorem run_quiescent_flushed cap buf sch :
  sch <> [] -> quiescent sch = true -> snd (run cap buf sch) = [].
Proof.
  revert buf. induction sch as [|[s fl] r IH]; intros buf Hne Hq; [congruence|].
  rewrite run_cons. cbn [snd].
  destruct r as [|y r'].
  - rewrite quiescent_single in Hq. subst fl. reflexivity.
  - apply IH; [discriminate|]. rewrite quiescent_cons in Hq by discriminate. exact Hq.
Qed.

Theorem everything_queued_is_on_the_wire_once_in_order cap sch :
  sch <> [] -> quiescent sch = true -> concat (fst (run cap [] sch)) = all_bytes (map fst sch).
Proof.
  intros Hne Hq. pose proof (run_stream cap [] sch) as H.
  rewrite (run_quiescent_flushed cap [] sch Hne Hq), app_nil_r in H. exact H.
Qed.

Local Open Scope N_scope.
Example quiescent_ex :
  ex_sch <> [] /\ quiescent ex_sch = true /\ snd (run ex_cap [0; 0] ex_sch) = []
  /\ concat (fst (run ex_cap [] ex_sch)) = all_bytes (map fst ex_sch).
Proof. ex_tac. Qed.
Local Close Scope N_scope.

(** quiescence is needed: without the final flush bytes stay in the buffer *)
Local Open Scope N_scope.
Example run_not_quiescent_keeps_bytes :
  exists sch, sch <> [] /\ quiescent sch = false /\ snd (run ex_cap [] sch) <> [].
Proof. exists [([[1; 2; 3]], false)]. vm_compute. repeat split; discriminate. Qed.
Local Close Scope N_scope.

(** ** W4. compositionality, prefix *)

Theorem run_app cap buf s1 s2 :
  fst (run cap buf (s1 ++ s2)) = fst (run cap buf s1) ++ fst (run cap (snd (run cap buf s1)) s2)
  /\ snd (run cap buf (s1 ++ s2)) = snd (run cap (snd (run cap buf s1)) s2).
Proof.
  revert buf. induction s1 as [|[s fl] r IH]; intro buf.
  - cbn [app run fst snd]. split; reflexivity.
  - cbn [app]. rewrite !run_cons. cbn [fst snd].
    destruct (IH (after_flag fl (snd (send_one cap buf s)))) as [IH1 IH2].
    rewrite IH1, IH2, <- !app_assoc. split; reflexivity.
Qed.

Theorem wire_is_always_a_prefix cap s1 s2 :
  exists tail, all_bytes (map fst (s1 ++ s2)) = concat (fst (run cap [] s1)) ++ tail.
Proof.
  pose proof (run_stream cap [] (s1 ++ s2)) as H. cbn [app] in H.
  destruct (run_app cap [] s1 s2) as [H1 H2]. rewrite H1, H2, concat_app, <- app_assoc in H.
  eexists. symmetry. exact H.
Qed.

(** the socket may also die in the middle of a sender, of a chunk: every byte prefix of what was handed to the
    socket is a prefix of what was queued *)
Theorem wire_cut_anywhere_is_a_prefix cap sch k :
  exists tail, all_bytes (map fst sch) = firstn k (concat (fst (run cap [] sch))) ++ tail.
Proof.
  pose proof (run_stream cap [] sch) as H. cbn [app] in H.
  exists (skipn k (concat (fst (run cap [] sch))) ++ snd (run cap [] sch)).
  rewrite app_assoc, firstn_skipn. symmetry. exact H.
Qed.

Lemma is_prefix_bytes_app a t : is_prefix_bytes a (a ++ t) = true.
Proof.
  unfold is_prefix_bytes. apply bytes_eqb_eq.
  rewrite firstn_app, Nat.sub_diag, firstn_all. cbn [firstn]. rewrite app_nil_r. reflexivity.
Qed.

(** the check [holds_connio] makes on a closed connection never fails on a run of the model *)
Corollary closed_connection_check_passes cap s1 s2 :
  is_prefix_bytes (concat (fst (run cap [] s1))) (all_bytes (map fst (s1 ++ s2))) = true.
Proof. destruct (wire_is_always_a_prefix cap s1 s2) as [t Ht]. rewrite Ht. apply is_prefix_bytes_app. Qed.

Local Open Scope N_scope.
Example run_app_ex :
  let s1 := firstn 2 ex_sch in let s2 := skipn 2 ex_sch in
  fst (run ex_cap [] s1) = [[1; 2; 3; 4; 5; 6; 7; 8]; [9; 10; 11; 12; 13; 14; 15; 16; 17; 18; 19]]
  /\ all_bytes (map fst (s1 ++ s2)) = concat (fst (run ex_cap [] s1)) ++ [20; 21; 22; 23].
Proof. vm_compute. auto. Qed.
Local Close Scope N_scope.

(** ** W5. the shape of the chunks *)

Lemma bw_write_chunks_nonempty cap buf p : Forall (fun c => c <> []) (fst (bw_write cap buf p)).
Proof.
  unfold bw_write. cbv zeta.
  destruct (Nat.leb_spec (length p) (cap - length buf)) as [Hfit|Hfit]; [constructor|].
  destruct buf as [|b0 buf'].
  - cbn [fst]. constructor; [|constructor]. intro E. subst p. cbn [length] in Hfit. lia.
  - remember (b0 :: buf') as buf eqn:Hbuf.
    assert (Hfull : buf ++ firstn (cap - length buf) p <> []) by (subst buf; discriminate).
    destruct (Nat.leb_spec (length (skipn (cap - length buf) p)) cap) as [Hr|Hr]; cbn [fst].
    + constructor; [exact Hfull|constructor].
    + constructor; [exact Hfull|]. constructor; [|constructor].
      intro E. rewrite E in Hr. cbn [length] in Hr. lia.
Qed.

Lemma send_one_chunks_nonempty cap s : forall buf, Forall (fun c => c <> []) (fst (send_one cap buf s)).
Proof.
  induction s as [|p r IH]; intro buf; [constructor|].
  rewrite send_one_cons. cbn [fst]. apply Forall_app. split; [apply bw_write_chunks_nonempty|apply IH].
Qed.

Lemma bw_flush_nonempty b : Forall (fun c => c <> []) (bw_flush b).
Proof. destruct b as [|x b]; cbn [bw_flush]; [constructor|]. constructor; [discriminate|constructor]. Qed.

(** holds for every [cap] and every [buf] *)
Lemma chunks_nonempty_gen cap sch : forall buf, Forall (fun c => c <> []) (fst (run cap buf sch)).
Proof.
  induction sch as [|[s fl] r IH]; intro buf; [constructor|].
  rewrite run_cons. cbn [fst]. apply Forall_app. split; [apply send_one_chunks_nonempty|].
  apply Forall_app. split; [|apply IH].
  destruct fl; cbn [flag_chunks]; [apply bw_flush_nonempty|constructor].
Qed.

Theorem chunks_nonempty cap buf sch :
  0 < cap -> length buf <= cap -> Forall (fun c => c <> []) (fst (run cap buf sch)).
Proof. intros _ _. apply chunks_nonempty_gen. Qed.

Lemma bw_write_chunk_shape cap buf p c :
  length buf <= cap -> In c (fst (bw_write cap buf p)) -> length c <= cap \/ exists k, c = skipn k p.
Proof.
  intros Hb. unfold bw_write. cbv zeta.
  destruct (Nat.leb_spec (length p) (cap - length buf)) as [Hfit|Hfit]; [intros []|].
  destruct buf as [|b0 buf'].
  - cbn [fst]. intros [E|[]]. subst c. right. exists 0. reflexivity.
  - remember (b0 :: buf') as buf eqn:Hbuf.
    assert (Hfull : length (buf ++ firstn (cap - length buf) p) <= cap)
      by (rewrite app_length, firstn_length; lia).
    destruct (Nat.leb_spec (length (skipn (cap - length buf) p)) cap) as [Hr|Hr]; cbn [fst].
    + intros [E|[]]. subst c. left. exact Hfull.
    + intros [E|[E|[]]]; subst c; [left; exact Hfull|right; eexists; reflexivity].
Qed.

Lemma send_one_chunk_shape cap s : forall buf c,
  length buf <= cap -> In c (fst (send_one cap buf s)) ->
  length c <= cap \/ exists p k, In p s /\ c = skipn k p.
Proof.
  induction s as [|p r IH]; intros buf c Hb Hin; [destruct Hin|].
  rewrite send_one_cons in Hin. cbn [fst] in Hin. apply in_app_or in Hin. destruct Hin as [Hin|Hin].
  - destruct (bw_write_chunk_shape cap buf p c Hb Hin) as [Hl|[k Hk]]; [left; exact Hl|].
    right. exists p, k. split; [left; reflexivity|exact Hk].
  - destruct (IH _ c (bw_write_bound_gen cap buf p Hb) Hin) as [Hl|(q & k & Hq & Hk)]; [left; exact Hl|].
    right. exists q, k. split; [right; exact Hq|exact Hk].
Qed.

(** [0 < cap] is not used; [length buf <= cap] is needed (see [chunk_shape_needs_buffer_bound]) *)
Lemma chunk_is_buffered_or_direct_gen cap sch : forall buf c,
  length buf <= cap -> In c (fst (run cap buf sch)) ->
  length c <= cap \/ (exists s p k, In s (map fst sch) /\ In p s /\ c = skipn k p).
Proof.
  induction sch as [|[s fl] r IH]; intros buf c Hb Hin; [destruct Hin|].
  rewrite run_cons in Hin. cbn [fst] in Hin.
  pose proof (send_one_bound cap s buf Hb) as Hb1.
  apply in_app_or in Hin. destruct Hin as [Hin|Hin].
  - destruct (send_one_chunk_shape cap s buf c Hb Hin) as [Hl|(p & k & Hp & Hk)]; [left; exact Hl|].
    right. exists s, p, k. split; [left; reflexivity|]. split; assumption.
  - apply in_app_or in Hin. destruct Hin as [Hin|Hin].
    + left. destruct fl; cbn [flag_chunks] in Hin; [|destruct Hin].
      destruct (snd (send_one cap buf s)) as [|x b] eqn:E; cbn [bw_flush] in Hin; [destruct Hin|].
      destruct Hin as [E'|[]]. subst c. exact Hb1.
    + destruct (IH _ c (after_flag_bound cap fl _ Hb1) Hin) as [Hl|(s' & p & k & Hs & Hp & Hk)]; [left; exact Hl|].
      right. exists s', p, k. split; [right; exact Hs|]. split; assumption.
Qed.

Theorem chunk_is_buffered_or_direct cap buf sch c :
  0 < cap -> length buf <= cap -> In c (fst (run cap buf sch)) ->
  length c <= cap \/ (exists s p k, In s (map fst sch) /\ In p s /\ c = skipn k p).
Proof. intros _. apply chunk_is_buffered_or_direct_gen. Qed.

Local Open Scope N_scope.
Example chunk_shape_ex :
  (0 < ex_cap)%nat /\ (length (@nil N) <= ex_cap)%nat /\
  fst (run ex_cap [] ex_sch) = ex_obs /\
  (* the one chunk longer than the buffer is the tail of the 12-byte write of the second sender *)
  nth 1 ex_obs [] = skipn 1 (nth 1 (nth 1 ex_ss []) []) /\ length (nth 1 ex_obs []) = 11%nat.
Proof. ex_tac. Qed.
Local Close Scope N_scope.

(** the buffer bound is needed: a buffer that is already too long is flushed as one oversized chunk that is the
    tail of no write *)
Local Open Scope N_scope.
Example chunk_shape_needs_buffer_bound :
  exists cap buf sch c, (0 < cap)%nat /\ In c (fst (run cap buf sch)) /\
    ~ ((length c <= cap)%nat \/ (exists s p k, In s (map fst sch) /\ In p s /\ c = skipn k p)).
Proof.
  exists 2%nat, [1; 2; 3], [([[9]], true)], [1; 2; 3]. split; [lia|]. split; [vm_compute; auto|].
  intros [Hl|(s & p & k & Hs & Hp & Hk)]; [cbn in Hl; lia|].
  cbn in Hs. destruct Hs as [Hs|[]]. subst s. destruct Hp as [Hp|[]]. subst p.
  destruct k as [|[|k]]; discriminate.
Qed.
Local Close Scope N_scope.

Lemma bw_write_count cap buf p : length (fst (bw_write cap buf p)) <= 2.
Proof.
  unfold bw_write. cbv zeta.
  destruct (Nat.leb (length p) (cap - length buf)); [cbn; lia|].
  destruct buf as [|b0 buf']; [cbn; lia|].
  destruct (Nat.leb (length (skipn (cap - length (b0 :: buf')) p)) cap); cbn [fst length]; lia.
Qed.

Lemma send_one_count cap s : forall buf, length (fst (send_one cap buf s)) <= 2 * length s.
Proof.
  induction s as [|p r IH]; intro buf; [cbn; lia|].
  rewrite send_one_cons. cbn [fst length]. rewrite app_length.
  pose proof (bw_write_count cap buf p). pose proof (IH (snd (bw_write cap buf p))). lia.
Qed.

Lemma bw_flush_count b : length (bw_flush b) <= 1.
Proof. destruct b; cbn; lia. Qed.

Theorem no_amplification cap buf sch :
  length (fst (run cap buf sch)) <= 2 * length (concat (map fst sch)) + length (filter snd sch).
Proof.
  revert buf. induction sch as [|[s fl] r IH]; intro buf; [cbn; lia|].
  rewrite run_cons. cbn [fst map concat filter snd]. rewrite !app_length.
  pose proof (send_one_count cap s buf) as H1.
  pose proof (IH (after_flag fl (snd (send_one cap buf s)))) as H2.
  destruct fl; cbn [flag_chunks length].
  - pose proof (bw_flush_count (snd (send_one cap buf s))). lia.
  - lia.
Qed.

Local Open Scope N_scope.
Example no_amplification_ex :
  length (fst (run ex_cap [] ex_sch)) = 3%nat /\
  (2 * length (concat (map fst ex_sch)) + length (filter snd ex_sch) = 14)%nat.
Proof. vm_compute. auto. Qed.
Local Close Scope N_scope.

(** the bound is reached: one write into a non-empty buffer gives two chunks, the flush none *)
Local Open Scope N_scope.
Example no_amplification_tight :
  length (fst (run 2 [1] [([[2; 3; 4; 5; 6]], false)])) = 2%nat.
Proof. reflexivity. Qed.
Local Close Scope N_scope.

(** ** W6. the acceptor answers [true] exactly when a quiescent schedule exists *)

Lemma strip_app em x : strip em (em ++ x) = Some x.
Proof.
  induction em as [|e r IH]; [reflexivity|]. cbn [app strip]. rewrite bytes_eqb_refl. exact IH.
Qed.

Lemma strip_some em : forall obs x, strip em obs = Some x -> obs = em ++ x.
Proof.
  induction em as [|e r IH]; intros obs x H.
  - cbn [strip] in H. inversion H. reflexivity.
  - cbn [strip] in H. destruct obs as [|o obs']; [discriminate|].
    destruct (bytes_eqb e o) eqn:E; [|discriminate].
    apply bytes_eqb_eq in E. subst o. cbn [app]. f_equal. apply IH. exact H.
Qed.

Lemma combine_nonempty (A B : Type) (l : list A) (fl : list B) :
  l <> [] -> length fl = length l -> combine l fl <> [].
Proof. destruct l as [|a l]; [congruence|]. intros _. destruct fl; cbn; [discriminate|]. intros _. discriminate. Qed.

(** no hypothesis on [cap] or [buf] is needed *)
Lemma acc_sound_gen cap ss : forall buf obs,
  acc cap buf ss obs = true ->
  exists flags, length flags = length ss /\ quiescent (combine ss flags) = true
                /\ run cap buf (combine ss flags) = (obs, []).
Proof.
  induction ss as [|s r IH]; intros buf obs H.
  - cbn [acc] in H. destruct buf; [|discriminate]. destruct obs; [|discriminate].
    exists []. repeat split; reflexivity.
  - rewrite acc_cons in H.
    destruct (strip (fst (send_one cap buf s)) obs) as [obs1|] eqn:E1; [|discriminate].
    apply strip_some in E1. apply orb_true_iff in H. destruct H as [H|H].
    + destruct (strip (bw_flush (snd (send_one cap buf s))) obs1) as [obs2|] eqn:E2; [|discriminate].
      apply strip_some in E2. destruct (IH _ _ H) as (flags & Hl & Hq & Hr).
      exists (true :: flags). split; [cbn [length] in *; lia|]. split.
      * cbn [combine]. destruct r as [|y r'] eqn:Er.
        -- reflexivity.
        -- rewrite <- Er in *. rewrite quiescent_cons; [exact Hq|].
           apply combine_nonempty; [rewrite Er; discriminate|exact Hl].
      * cbn [combine]. rewrite run_cons. cbn [flag_chunks after_flag]. rewrite Hr. cbn [fst snd].
        rewrite E1, E2. reflexivity.
    + assert (Hne : r <> []) by (intro; subst r; discriminate).
      assert (H' : acc cap (snd (send_one cap buf s)) r obs1 = true) by (destruct r; [congruence|exact H]).
      destruct (IH _ _ H') as (flags & Hl & Hq & Hr).
      exists (false :: flags). split; [cbn [length] in *; lia|]. split.
      * cbn [combine]. rewrite quiescent_cons; [exact Hq|]. apply combine_nonempty; assumption.
      * cbn [combine]. rewrite run_cons. cbn [flag_chunks after_flag]. rewrite Hr. cbn [fst snd app].
        rewrite E1. reflexivity.
Qed.

Theorem acc_sound cap buf ss obs :
  0 < cap -> length buf <= cap -> acc cap buf ss obs = true ->
  exists flags, length flags = length ss /\ quiescent (combine ss flags) = true
                /\ run cap buf (combine ss flags) = (obs, []).
Proof. intros _ _. apply acc_sound_gen. Qed.

Lemma acc_complete_gen cap ss : forall buf flags obs,
  length flags = length ss -> quiescent (combine ss flags) = true ->
  run cap buf (combine ss flags) = (obs, []) -> acc cap buf ss obs = true.
Proof.
  induction ss as [|s r IH]; intros buf flags obs Hl Hq Hr.
  - cbn [combine run] in Hr. inversion Hr. reflexivity.
  - destruct flags as [|fl flags']; [discriminate|]. cbn [length] in Hl.
    cbn [combine] in Hr, Hq. rewrite run_cons in Hr. inversion Hr as [[Hobs Hbuf]]. clear Hr.
    rewrite acc_cons, strip_app.
    assert (Hq' : r <> [] -> quiescent (combine r flags') = true).
    { intro Hne. rewrite quiescent_cons in Hq; [exact Hq|]. apply combine_nonempty; [exact Hne|lia]. }
    assert (Hq'' : quiescent (combine r flags') = true).
    { destruct r as [|y r'] eqn:Er; [reflexivity|]. apply Hq'. discriminate. }
    destruct fl; cbn [flag_chunks after_flag] in *.
    + rewrite strip_app. apply orb_true_iff. left.
      apply (IH [] flags'); [lia|exact Hq''|].
      destruct (run cap [] (combine r flags')) as [c3 b3]. cbn [fst snd] in *. subst b3. reflexivity.
    + apply orb_true_iff. right.
      assert (Hne : r <> []).
      { intro Er. subst r. cbn [combine] in Hq. rewrite quiescent_single in Hq. discriminate. }
      assert (Hacc : acc cap (snd (send_one cap buf s)) r (fst (run cap (snd (send_one cap buf s)) (combine r flags'))) = true).
      { apply (IH _ flags'); [lia|exact Hq''|].
        destruct (run cap (snd (send_one cap buf s)) (combine r flags')) as [c3 b3].
        cbn [fst snd] in *. subst b3. reflexivity. }
      cbn [app]. destruct r; [congruence|exact Hacc].
Qed.

Theorem acc_complete cap buf ss flags obs :
  0 < cap -> length buf <= cap -> length flags = length ss -> quiescent (combine ss flags) = true ->
  run cap buf (combine ss flags) = (obs, []) -> acc cap buf ss obs = true.
Proof. intros _ _. apply acc_complete_gen. Qed.

(** both directions as one equivalence *)
Corollary acc_iff cap buf ss obs :
  acc cap buf ss obs = true <->
  exists flags, length flags = length ss /\ quiescent (combine ss flags) = true
                /\ run cap buf (combine ss flags) = (obs, []).
Proof.
  split; [apply acc_sound_gen|]. intros (flags & Hl & Hq & Hr). exact (acc_complete_gen cap ss buf flags obs Hl Hq Hr).
Qed.

Lemma map_fst_combine (A B : Type) (l : list A) : forall (fl : list B),
  length fl = length l -> map fst (combine l fl) = l.
Proof.
  induction l as [|a l IH]; intros fl H; [reflexivity|].
  destruct fl as [|b fl]; [discriminate|]. cbn [combine map fst]. f_equal. apply IH. cbn in H. lia.
Qed.

Lemma acc_stream_gen cap buf ss obs : acc cap buf ss obs = true -> concat obs = buf ++ all_bytes ss.
Proof.
  intro H. destruct (acc_sound_gen cap ss buf obs H) as (flags & Hl & _ & Hr).
  pose proof (run_stream cap buf (combine ss flags)) as Hs.
  rewrite Hr, map_fst_combine in Hs by exact Hl. cbn [fst snd] in Hs. rewrite app_nil_r in Hs. exact Hs.
Qed.

Theorem acc_stream cap ss obs : 0 < cap -> acc cap [] ss obs = true -> concat obs = all_bytes ss.
Proof. intros _ H. exact (acc_stream_gen cap [] ss obs H). Qed.

Local Open Scope N_scope.
Example acc_ex :
  (0 < ex_cap)%nat /\ length ex_flags = length ex_ss /\ quiescent (combine ex_ss ex_flags) = true /\
  run ex_cap [] (combine ex_ss ex_flags) = (ex_obs, []) /\
  acc ex_cap [] ex_ss ex_obs = true /\ concat ex_obs = all_bytes ex_ss /\
  (* the same bytes cut differently are not a possible chunking: rejected *)
  acc ex_cap [] ex_ss
    [[1; 2; 3; 4; 5; 6; 7]; [8; 9; 10; 11; 12; 13; 14; 15; 16; 17; 18; 19]; [20; 21; 22; 23]] = false /\
  (* another schedule (flush after every sender) is accepted as well *)
  acc ex_cap [] ex_ss (fst (run ex_cap [] (combine ex_ss [true; true; true]))) = true /\
  fst (run ex_cap [] (combine ex_ss [true; true; true]))
    = [[1; 2; 3; 4; 5]; [6; 7; 8; 9; 10; 11; 12; 13]; [14; 15; 16; 17; 18; 19]; [20; 21; 22; 23]].
Proof. ex_tac. Qed.
Local Close Scope N_scope.

(** the corners the brief asked about: empty queue, empty senders, empty writes, empty chunks in [obs] *)
Local Open Scope N_scope.
Example acc_corners :
  acc 8 [] [] [] = true /\ acc 8 [1] [] [[1]] = false /\ run 8 [1] [] = ([], [1]) /\
  acc 8 [] [[]] [] = true /\ run 8 [] [([], true)] = ([], []) /\
  acc 8 [] [[[]; []]; []] [] = true /\
  acc 8 [] [[[1]]] [[]; [1]] = false /\ acc 8 [] [[[1]]] [[1]; []] = false /\
  acc 8 [1] [[[2]]] [[1; 2]] = true.
Proof. ex_tac. Qed.
Local Close Scope N_scope.

(** *** a remark on the cost of [acc], and an equivalent acceptor without the blow-up.
    When a sender leaves the buffer empty (its last write was larger than what the buffer could take), "flush here" and
    "keep coalescing" are the same continuation, and [acc] evaluates it twice whenever the first evaluation answers
    [false]: on a REJECTED observation of n such senders [acc] makes 2^n calls (20 senders: 2 s, 40 senders: weeks).
    [acc_fast] skips the second branch when the buffer is empty and is equal to [acc]. *)
Theorem acc_fast_eq cap ss : forall buf obs, acc_fast cap buf ss obs = acc cap buf ss obs.
Proof.
  induction ss as [|s r IH]; intros buf obs; [reflexivity|].
  rewrite acc_cons. cbn [acc_fast]. destruct (send_one cap buf s) as [em b1]. cbn [fst snd].
  destruct (strip em obs) as [obs1|]; [|reflexivity].
  assert (E1 : match strip (bw_flush b1) obs1 with Some obs2 => acc_fast cap [] r obs2 | None => false end
               = match strip (bw_flush b1) obs1 with Some obs2 => acc cap [] r obs2 | None => false end)
    by (destruct (strip (bw_flush b1) obs1); [apply IH|reflexivity]).
  rewrite E1. clear E1.
  destruct r as [|y r']; [reflexivity|].
  destruct b1 as [|x b1']; cbv beta iota.
  - cbn [bw_flush strip]. destruct (acc cap [] (y :: r') obs1); reflexivity.
  - rewrite IH. reflexivity.
Qed.

Local Open Scope N_scope.
Example acc_fast_ex :
  let big := [1; 2; 3; 4; 5; 6; 7; 8; 9] in
  let ss := repeat [big] 60 in
  acc_fast 8 [] ss (repeat big 60) = true /\
  acc_fast 8 [] ss (repeat big 59 ++ [[1; 2; 3; 4]; [5; 6; 7; 8; 9]]) = false /\
  acc_fast ex_cap [] ex_ss ex_obs = true.
Proof. ex_tac. Qed.
Local Close Scope N_scope.

(** ** W7. the reader *)

Theorem reader_ignores_segmentation s1 s2 : concat s1 = concat s2 -> reader s1 = reader s2.
Proof. intro H. unfold reader. rewrite H. reflexivity. Qed.

Lemma encode_raw_frame_nonempty f : encode_raw_frame f <> [].
Proof. unfold encode_raw_frame, encode_header. cbn [app]. discriminate. Qed.

Lemma encode_raw_frame_length_pos f : 0 < length (encode_raw_frame f).
Proof. pose proof (encode_raw_frame_nonempty f). destruct (encode_raw_frame f); [congruence|cbn; lia]. Qed.

Lemma decode_raw_frame_nil : decode_raw_frame [] = None.
Proof. reflexivity. Qed.

Lemma recv_all_step fuel f x :
  wf_frame f ->
  recv_all (S fuel) (encode_raw_frame f ++ x) = (f :: fst (recv_all fuel x), snd (recv_all fuel x)).
Proof.
  intro Hf. pose proof (decode_encode_raw_frame f x Hf) as Hd.
  cbn [recv_all]. destruct (encode_raw_frame f ++ x) as [|a l] eqn:E.
  - rewrite decode_raw_frame_nil in Hd. discriminate.
  - rewrite Hd. destruct (recv_all fuel x) as [l' lo]. reflexivity.
Qed.

Lemma recv_all_encoded fs : forall fuel,
  Forall wf_frame fs -> length (concat (map encode_raw_frame fs)) < fuel ->
  recv_all fuel (concat (map encode_raw_frame fs)) = (fs, []).
Proof.
  induction fs as [|f fs IH]; intros fuel Hwf Hfuel.
  - destruct fuel; [cbn in Hfuel; lia|reflexivity].
  - inversion Hwf as [|? ? Hf Hfs]; subst. cbn [map concat] in *.
    destruct fuel as [|fuel]; [lia|]. rewrite recv_all_step by exact Hf.
    rewrite app_length in Hfuel. pose proof (encode_raw_frame_length_pos f).
    rewrite IH by (try assumption; lia). reflexivity.
Qed.

Theorem reader_of_encoded_frames fs :
  Forall wf_frame fs -> reader [concat (map encode_raw_frame fs)] = (fs, []).
Proof.
  intro Hwf. unfold reader. cbn [concat]. rewrite app_nil_r. apply recv_all_encoded; [exact Hwf|lia].
Qed.

(** three well-formed frames: a v4 QUERY with a 3-byte body, a v2 (one-byte stream id) OPTIONS with an empty
    body, a v4 RESULT response with a 12-byte body *)
Local Open Scope N_scope.
Definition ex_f1 : raw_frame :=
  {| rf_header := {| h_version := 4; h_resp := false; h_flags := 6; h_stream := 9; h_opcode := 7; h_len := 3 |};
     rf_body := [1; 2; 3] |}.
Local Close Scope N_scope.
Local Open Scope N_scope.
Definition ex_f2 : raw_frame :=
  {| rf_header := {| h_version := 2; h_resp := false; h_flags := 0; h_stream := 5; h_opcode := 5; h_len := 0 |};
     rf_body := [] |}.
Local Close Scope N_scope.
Local Open Scope N_scope.
Definition ex_f3 : raw_frame :=
  {| rf_header := {| h_version := 4; h_resp := true; h_flags := 0; h_stream := 513; h_opcode := 8; h_len := 12 |};
     rf_body := [0; 0; 0; 1; 255; 254; 253; 252; 251; 250; 249; 248] |}.
Local Close Scope N_scope.
Local Open Scope N_scope.
Definition ex_fs : list raw_frame := [ex_f1; ex_f2; ex_f3].
Local Close Scope N_scope.

Local Open Scope N_scope.
Lemma ex_fs_wf : Forall wf_frame ex_fs.
Proof.
  repeat constructor; unfold wf_frame, wf_header; cbn; repeat split; lia.
Qed.
Local Close Scope N_scope.

Local Open Scope N_scope.
Example reader_ex :
  Forall wf_frame ex_fs /\
  concat (map encode_raw_frame ex_fs)
    = [4; 6; 0; 9; 7; 0; 0; 0; 3; 1; 2; 3] ++ [2; 0; 5; 5; 0; 0; 0; 0]
      ++ [132; 0; 2; 1; 8; 0; 0; 0; 12; 0; 0; 0; 1; 255; 254; 253; 252; 251; 250; 249; 248] /\
  reader [concat (map encode_raw_frame ex_fs)] = (ex_fs, []) /\
  reader [[4; 6; 0; 9; 7]; [0; 0; 0; 3; 1; 2; 3; 2; 0; 5; 5; 0]; [];
          [0; 0; 0; 132; 0; 2; 1; 8; 0; 0; 0; 12; 0; 0; 0; 1; 255; 254; 253; 252; 251; 250; 249]; [248]]
    = (ex_fs, []).
Proof. split; [exact ex_fs_wf|]. vm_compute. auto. Qed.
Local Close Scope N_scope.

(** ** W8. end to end *)

Theorem wire_end_to_end cap fs (sch : list (sender * bool)) :
  0 < cap -> Forall wf_frame fs -> map (@concat N) (map fst sch) = map encode_raw_frame fs ->
  sch <> [] -> quiescent sch = true ->
  forall segs, concat segs = concat (fst (run cap [] sch)) -> reader segs = (fs, []).
Proof.
  intros _ Hwf Hmap Hne Hq segs Hsegs.
  rewrite (everything_queued_is_on_the_wire_once_in_order cap sch Hne Hq) in Hsegs.
  assert (E : all_bytes (map fst sch) = concat (map encode_raw_frame fs))
    by (unfold all_bytes; f_equal; exact Hmap).
  rewrite E in Hsegs.
  rewrite <- (reader_of_encoded_frames fs Hwf). apply reader_ignores_segmentation.
  cbn [concat]. rewrite app_nil_r. exact Hsegs.
Qed.

(** EncodeRawFrame makes two Write calls per frame: the header, then the body *)
Local Open Scope N_scope.
Definition ex_wire_sch : list (sender * bool) :=
  [ ([[4; 6; 0; 9; 7; 0; 0; 0; 3]; [1; 2; 3]], false);
    ([[2; 0; 5; 5; 0; 0; 0; 0]; []], true);
    ([[132; 0; 2; 1; 8; 0; 0; 0; 12]; [0; 0; 0; 1; 255; 254; 253; 252; 251; 250; 249; 248]], true) ].
Local Close Scope N_scope.

Local Open Scope N_scope.
Example wire_end_to_end_ex :
  map (@concat N) (map fst ex_wire_sch) = map encode_raw_frame ex_fs /\
  ex_wire_sch <> [] /\ quiescent ex_wire_sch = true /\
  fst (run 8 [] ex_wire_sch)
    = [[4; 6; 0; 9; 7; 0; 0; 0; 3]; [1; 2; 3; 2; 0; 5; 5; 0]; [0; 0; 0];
       [132; 0; 2; 1; 8; 0; 0; 0; 12]; [0; 0; 0; 1; 255; 254; 253; 252; 251; 250; 249; 248]] /\
  reader (fst (run 8 [] ex_wire_sch)) = (ex_fs, []).
Proof. ex_tac. Qed.
Local Close Scope N_scope.

(** ** Stretch: a stream cut anywhere shows the peer a prefix of the frames, never an altered or half frame *)

(** decoding looks only at the bytes it consumes: more bytes behind do not change the result *)
Lemma read_int_app b x n r : read_int b = Some (n, r) -> read_int (b ++ x) = Some (n, r ++ x).
Proof.
  unfold read_int, read_u32. destruct b as [|a [|b1 [|c [|d r']]]]; try discriminate.
  cbn [app]. intro H. inversion H. reflexivity.
Qed.

Lemma decode_header_app b x h r :
  decode_header b = inr (h, r) -> decode_header (b ++ x) = inr (h, r ++ x).
Proof.
  unfold decode_header. destruct b as [|vd [|fl r0]]; try discriminate. cbn [app].
  destruct (negb (version_supported (vd mod 128))); [discriminate|].
  destruct (3 <=? vd mod 128)%N.
  - destruct r0 as [|s1 [|s2 [|op r'']]]; try discriminate. cbn [app].
    destruct (read_int r'') as [[len body]|] eqn:E; [|discriminate].
    rewrite (read_int_app _ x _ _ E).
    destruct (negb (opcode_is_request op || opcode_is_response op)); [discriminate|].
    destruct ((128 <=? vd)%N && negb (opcode_is_response op)); [discriminate|].
    destruct (negb (128 <=? vd)%N && negb (opcode_is_request op)); [discriminate|].
    intro H. inversion H. reflexivity.
  - destruct r0 as [|s1 [|op r'']]; try discriminate. cbn [app].
    destruct (read_int r'') as [[len body]|] eqn:E; [|discriminate].
    rewrite (read_int_app _ x _ _ E).
    destruct (negb (opcode_is_request op || opcode_is_response op)); [discriminate|].
    destruct ((128 <=? vd)%N && negb (opcode_is_response op)); [discriminate|].
    destruct (negb (128 <=? vd)%N && negb (opcode_is_request op)); [discriminate|].
    intro H. inversion H. reflexivity.
Qed.

Lemma get_z_app_more n r x s t : get_z n r = Some (s, t) -> get_z n (r ++ x) = Some (s, t ++ x).
Proof.
  unfold get_z, get_n. rewrite app_length.
  destruct (Z.ltb_spec (Z.of_nat (length r)) n) as [H|H]; [discriminate|].
  destruct (Nat.leb_spec (Z.to_nat n) (length r)) as [H1|H1]; [|discriminate].
  intro E. inversion E; subst; clear E.
  destruct (Z.ltb_spec (Z.of_nat (length r + length x)) n) as [H2|H2]; [lia|].
  destruct (Nat.leb_spec (Z.to_nat n) (length r + length x)) as [H3|H3]; [|lia].
  rewrite firstn_app, skipn_app.
  replace (Z.to_nat n - length r) with 0 by lia. cbn [firstn skipn]. rewrite app_nil_r. reflexivity.
Qed.

Theorem decode_raw_frame_app b x f rest :
  decode_raw_frame b = Some (f, rest) -> decode_raw_frame (b ++ x) = Some (f, rest ++ x).
Proof.
  unfold decode_raw_frame.
  destruct (decode_header b) as [e|[h r]] eqn:Hd; [discriminate|].
  rewrite (decode_header_app _ x _ _ Hd).
  destruct (h_len h <? 0)%Z; [discriminate|].
  destruct (get_z (h_len h) r) as [[body rest']|] eqn:Hg; [|discriminate].
  rewrite (get_z_app_more _ _ x _ _ Hg). intro H. inversion H. reflexivity.
Qed.

(** a strict prefix of an encoded frame does not decode *)
Theorem strict_prefix_of_a_frame_does_not_decode f j :
  wf_frame f -> j < length (encode_raw_frame f) -> decode_raw_frame (firstn j (encode_raw_frame f)) = None.
Proof.
  intros Hf Hj. destruct (decode_raw_frame (firstn j (encode_raw_frame f))) as [[g rest]|] eqn:D; [|reflexivity].
  exfalso. apply (decode_raw_frame_app _ (skipn j (encode_raw_frame f))) in D.
  rewrite firstn_skipn in D.
  pose proof (decode_encode_raw_frame f [] Hf) as D'. rewrite app_nil_r, D in D'.
  inversion D' as [[Hg Hrest]]. apply app_eq_nil in Hrest. destruct Hrest as [_ Hs].
  apply (f_equal (@length N)) in Hs. rewrite skipn_length in Hs. cbn [length] in Hs. lia.
Qed.

Lemma recv_all_prefix fs : forall fuel k,
  Forall wf_frame fs -> length (firstn k (concat (map encode_raw_frame fs))) < fuel ->
  exists i, recv_all fuel (firstn k (concat (map encode_raw_frame fs)))
            = (firstn i fs, snd (recv_all fuel (firstn k (concat (map encode_raw_frame fs))))).
Proof.
  induction fs as [|f fs IH]; intros fuel k Hwf Hfuel.
  - exists 0. cbn [map concat]. rewrite firstn_nil. destruct fuel; reflexivity.
  - inversion Hwf as [|? ? Hf Hfs]; subst. cbn [map concat] in *.
    destruct fuel as [|fuel]; [lia|].
    rewrite firstn_app in *.
    destruct (Nat.lt_ge_cases k (length (encode_raw_frame f))) as [Hk|Hk].
    + replace (k - length (encode_raw_frame f)) with 0 by lia. cbn [firstn]. rewrite app_nil_r.
      exists 0. cbn [recv_all firstn].
      destruct (firstn k (encode_raw_frame f)) as [|a l] eqn:E; [reflexivity|].
      rewrite <- E, (strict_prefix_of_a_frame_does_not_decode f k Hf Hk). reflexivity.
    + rewrite firstn_all2 in * by exact Hk.
      rewrite app_length in Hfuel. pose proof (encode_raw_frame_length_pos f).
      destruct (IH fuel (k - length (encode_raw_frame f)) Hfs ltac:(lia)) as [i Hi].
      exists (S i). rewrite recv_all_step by exact Hf. rewrite Hi at 1. reflexivity.
Qed.

(** the frames the peer decodes from a cut stream are the first [i] frames that were sent, unaltered *)
Theorem reader_of_a_prefix_sees_the_first_frames fs k :
  Forall wf_frame fs ->
  exists i, fst (reader [firstn k (concat (map encode_raw_frame fs))]) = firstn i fs.
Proof.
  intro Hwf. unfold reader. cbn [concat]. rewrite app_nil_r.
  destruct (recv_all_prefix fs (S (length (firstn k (concat (map encode_raw_frame fs))))) k Hwf ltac:(lia)) as [i Hi].
  exists i. rewrite Hi. reflexivity.
Qed.

(** no [wf_bytes] hypothesis is needed *)
Theorem reader_of_a_prefix_sees_a_prefix_of_the_frames fs :
  Forall wf_frame fs ->
  forall k, exists rest, fs = fst (reader [firstn k (concat (map encode_raw_frame fs))]) ++ rest.
Proof.
  intros Hwf k. destruct (reader_of_a_prefix_sees_the_first_frames fs k Hwf) as [i Hi].
  exists (skipn i fs). rewrite Hi. symmetry. apply firstn_skipn.
Qed.

(** the same for the writer's socket: whatever segments reached the peer before the connection died *)
Corollary dying_connection_shows_a_prefix_of_the_frames cap fs (sch1 sch2 : list (sender * bool)) segs :
  Forall wf_frame fs -> map (@concat N) (map fst (sch1 ++ sch2)) = map encode_raw_frame fs ->
  concat segs = concat (fst (run cap [] sch1)) ->
  exists rest, fs = fst (reader segs) ++ rest.
Proof.
  intros Hwf Hmap Hsegs.
  destruct (wire_is_always_a_prefix cap sch1 sch2) as [tail Ht].
  assert (E : all_bytes (map fst (sch1 ++ sch2)) = concat (map encode_raw_frame fs))
    by (unfold all_bytes; f_equal; exact Hmap).
  rewrite E in Ht.
  assert (Hpre : concat segs = firstn (length (concat segs)) (concat (map encode_raw_frame fs))).
  { rewrite Ht, <- Hsegs, firstn_app, Nat.sub_diag, firstn_all. cbn [firstn]. rewrite app_nil_r. reflexivity. }
  destruct (reader_of_a_prefix_sees_a_prefix_of_the_frames fs Hwf (length (concat segs))) as [rest Hrest].
  exists rest. rewrite Hrest at 1. f_equal. f_equal. apply reader_ignores_segmentation.
  cbn [concat]. rewrite app_nil_r. symmetry. exact Hpre.
Qed.

(** the strongest form: the socket stopped after ANY number of bytes (in the middle of a sender, of a chunk), cut by
    TCP in any way *)
Corollary connection_cut_at_any_byte_shows_a_prefix_of_the_frames cap fs (sch : list (sender * bool)) segs k :
  Forall wf_frame fs -> map (@concat N) (map fst sch) = map encode_raw_frame fs ->
  concat segs = firstn k (concat (fst (run cap [] sch))) ->
  exists rest, fs = fst (reader segs) ++ rest.
Proof.
  intros Hwf Hmap Hsegs.
  destruct (wire_cut_anywhere_is_a_prefix cap sch k) as [tail Ht].
  assert (E : all_bytes (map fst sch) = concat (map encode_raw_frame fs))
    by (unfold all_bytes; f_equal; exact Hmap).
  rewrite E, <- Hsegs in Ht.
  assert (Hpre : concat segs = firstn (length (concat segs)) (concat (map encode_raw_frame fs))).
  { rewrite Ht, firstn_app, Nat.sub_diag, firstn_all. cbn [firstn]. rewrite app_nil_r. reflexivity. }
  destruct (reader_of_a_prefix_sees_a_prefix_of_the_frames fs Hwf (length (concat segs))) as [rest Hrest].
  exists rest. rewrite Hrest at 1. f_equal. f_equal. apply reader_ignores_segmentation.
  cbn [concat]. rewrite app_nil_r. symmetry. exact Hpre.
Qed.

Local Open Scope N_scope.
Example cut_ex :
  (* the writer of [wire_end_to_end_ex] stopped after 17 bytes, inside its second chunk *)
  firstn 17 (concat (fst (run 8 [] ex_wire_sch))) = [4; 6; 0; 9; 7; 0; 0; 0; 3; 1; 2; 3; 2; 0; 5; 5; 0] /\
  reader [[4; 6; 0; 9; 7; 0; 0]; [0; 3; 1; 2; 3; 2; 0; 5; 5; 0]] = ([ex_f1], [2; 0; 5; 5; 0]).
Proof. ex_tac. Qed.
Local Close Scope N_scope.

Local Open Scope N_scope.
Example prefix_ex :
  (* cut inside the third frame's body: two whole frames, the third is not delivered *)
  reader [firstn 30 (concat (map encode_raw_frame ex_fs))]
    = ([ex_f1; ex_f2], [132; 0; 2; 1; 8; 0; 0; 0; 12; 0]) /\
  (* cut inside the first header *)
  reader [firstn 5 (concat (map encode_raw_frame ex_fs))] = ([], [4; 6; 0; 9; 7]) /\
  (* cut exactly at a frame boundary *)
  reader [firstn 12 (concat (map encode_raw_frame ex_fs))] = ([ex_f1], []) /\
  decode_raw_frame (firstn 11 (encode_raw_frame ex_f1)) = None /\ (11 < length (encode_raw_frame ex_f1))%nat.
Proof. ex_tac. Qed.
Local Close Scope N_scope.

(** ** axiom audit *)
Print Assumptions bw_write_stream.
Print Assumptions bw_write_bound.
Print Assumptions run_stream.
Print Assumptions run_quiescent_flushed.
Print Assumptions everything_queued_is_on_the_wire_once_in_order.
Print Assumptions run_app.
Print Assumptions wire_is_always_a_prefix.
Print Assumptions chunks_nonempty.
Print Assumptions chunk_is_buffered_or_direct.
Print Assumptions no_amplification.
Print Assumptions acc_sound.
Print Assumptions acc_complete.
Print Assumptions acc_iff.
Print Assumptions acc_stream.
Print Assumptions acc_fast_eq.
Print Assumptions reader_ignores_segmentation.
Print Assumptions reader_of_encoded_frames.
Print Assumptions wire_end_to_end.
Print Assumptions decode_raw_frame_app.
Print Assumptions strict_prefix_of_a_frame_does_not_decode.
Print Assumptions reader_of_a_prefix_sees_a_prefix_of_the_frames.
Print Assumptions dying_connection_shows_a_prefix_of_the_frames.
Print Assumptions wire_cut_anywhere_is_a_prefix.
Print Assumptions closed_connection_check_passes.
Print Assumptions connection_cut_at_any_byte_shows_a_prefix_of_the_frames.
