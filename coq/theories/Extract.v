(** Extraction of the model runner.  ExtrOcamlBasic only: bool, option, unit, list, prod,
    sumbool map to OCaml's; N, Z, positive, nat stay Coq datatypes.  No Extract Constant /
    Extract Inductive of our own.  Compile with cwd = the directory that receives the .ml. *)
Require Extraction.
Require Import ExtrOcamlBasic.
From CqlProxy Require Import Runner.
Extraction "modelext.ml" process_line.
