(** * CorePrep: Model/Core.v extended with the prepared-statement path -- the three Request
    implementations a backend frame can be delivered to (the client's request, and the proxy's
    own re-PREPARE standing in for it, possibly nested when a backend answers a PREPARE with
    UNPREPARED), ClientConn.maybePrepareAndExecute, prepareRequest.OnResult / OnClose / Execute.
    Properties C01, C02, C04, C05 again over the larger event alphabet, and C08: while the
    statement is in the prepared cache the client is never handed the UNPREPARED frame; a
    re-preparation that fails or cannot even be sent makes the request move on.

    Differences from Core.v: a pending entry is [EReq r] (request r itself) or [EPrep r nested]
    (a prepareRequest whose original request is r; [nested] = its direct original is itself a
    prepareRequest, which only a misbehaving backend can cause); a backend frame is a result, an
    error, or UNPREPARED with [cached] saying whether the connection's pool has the prepared cache,
    recognises the frame and finds the id in the cache; the environment also decides whether
    the Send of the proxy's PREPARE succeeds ([prep_ok]: other goroutines may have taken the
    stream id the answered request just freed, or the connection may be closing).
    Go code: proxycore/clientconn.go Receive (288-331), maybePrepareAndExecute (333-372),
    prepareRequest (602-632) as repaired by fixes 31d9c83, 90a69b1, 864854b. *)
From Coq Require Import List ZArith NArith Bool Lia.
From CqlProxy Require Import Lib.Val Lib.Util Gen.Tables Model.Retry.
Import ListNotations.
Local Open Scope N_scope.

Definition rid := N.
Definition cid := N.

Inductive fkind := KResult | KError | KUnprepared.

Inductive creply :=
| CFrame (k : cid) (s : N) (what : fkind)   (* the backend frame that arrived on connection k, stream s, forwarded *)
| CNoHosts                   (* "Proxy exhausted query plan ..." *)
| CConnLost.                 (* "Proxy is unable to retry non-idempotent query ..." *)

Inductive output :=
| ToBackend (k : cid) (s : N) (r : rid)               (* request r written to connection k under stream s *)
| ToBackendPrepare (k : cid) (s : N) (r : rid)        (* the proxy's PREPARE for request r's statement, on k under s *)
| ToClient (c : N) (s : Z) (r : rid) (w : creply).    (* one frame to client c on stream s, answering r *)

Record creq := {
  q_client : N; q_cstream : Z; q_idem : bool;
  q_plan : list N;        (* hosts the query plan has not yielded yet *)
  q_host : option N;      (* request.host *)
  q_retry : Z;            (* request.retryCount *)
  q_done : bool
}.

Inductive entry :=
| EReq (r : rid)                    (* the client's request *)
| EPrep (r : rid) (nested : bool).  (* a prepareRequest for r's statement; nested: its origRequest is another prepareRequest *)

Definition entry_req (e : entry) : rid := match e with EReq r => r | EPrep r _ => r end.
Definition entry_eqb (a b : entry) : bool :=
  match a, b with
  | EReq r, EReq r' => r =? r'
  | EPrep r n, EPrep r' n' => (r =? r') && Bool.eqb n n'
  | _, _ => false
  end.

Record bconn := {
  b_host : N;
  b_closing : bool;
  b_free : list N;                (* the stream-id channel, head = next id handed out *)
  b_pending : list (N * entry);   (* the pending map *)
  b_tonotify : list entry         (* snapshot taken by Closing, still to be notified *)
}.

Record world := {
  w_reqs : list (rid * creq);
  w_conns : list (cid * bconn);
  w_out : list output             (* everything written so far, oldest first *)
}.

Fixpoint lookupN {A} (k : N) (l : list (N * A)) : option A :=
  match l with
  | [] => None
  | (k', v) :: r => if k =? k' then Some v else lookupN k r
  end.
Fixpoint updateN {A} (k : N) (v : A) (l : list (N * A)) : list (N * A) :=
  match l with
  | [] => [(k, v)]
  | (k', v') :: r => if k =? k' then (k, v) :: r else (k', v') :: updateN k v r
  end.
Fixpoint removeN {A} (k : N) (l : list (N * A)) : list (N * A) :=
  match l with
  | [] => []
  | (k', v') :: r => if k =? k' then r else (k', v') :: removeN k r
  end.
Fixpoint remove_first (r : entry) (l : list entry) : list entry :=
  match l with
  | [] => []
  | x :: t => if entry_eqb x r then t else x :: remove_first r t
  end.

Definition set_req (w : world) (r : rid) (q : creq) : world :=
  {| w_reqs := updateN r q (w_reqs w); w_conns := w_conns w; w_out := w_out w |}.
Definition set_conn (w : world) (k : cid) (c : bconn) : world :=
  {| w_reqs := w_reqs w; w_conns := updateN k c (w_conns w); w_out := w_out w |}.
Definition emit (w : world) (o : output) : world :=
  {| w_reqs := w_reqs w; w_conns := w_conns w; w_out := w_out w ++ [o] |}.

(** "if !r.done { r.done = true; r.send(...) }" *)
Definition reply_once (w : world) (r : rid) (what : creply) : world :=
  match lookupN r (w_reqs w) with
  | None => w
  | Some q =>
      if q_done q then w
      else emit (set_req w r {| q_client := q_client q; q_cstream := q_cstream q; q_idem := q_idem q; q_plan := q_plan q;
                                q_host := q_host q; q_retry := q_retry q; q_done := true |})
                (ToClient (q_client q) (q_cstream q) r what)
  end.

(** what the environment decides for one Session.Send: no usable connection, or connection
    [k] with the write succeeding or failing *)
Definition choice := option (cid * bool).

Inductive sent := SentOk | SendErr.

(** Session.Send(host, request) = pool.leastBusyConn ; ClientConn.Send *)
(** [orig = true] is ClientConn.Send as it was before the repair (fix 7dfaea9): a request whose
    Conn.Write failed stayed in the pending table.  The repaired Send removes it again (the id
    goes back to the end of the channel) before the closing lock is released. *)
Definition send_to (orig : bool) (w : world) (r : rid) (h : N) (ch : choice) : world * sent :=
  match ch with
  | None => (w, SendErr)                                           (* no connection to that host *)
  | Some (k, write_ok) =>
      match lookupN k (w_conns w) with
      | None => (w, SendErr)
      | Some c =>
          if negb (b_host c =? h) then (w, SendErr)                 (* the pool only holds its own host's connections *)
          else if b_closing c then (w, SendErr)                     (* addToPending: Closed *)
          else
            match b_free c with
            | [] => (w, SendErr)                                    (* StreamsExhausted *)
            | s :: fr =>
                let c' := {| b_host := b_host c; b_closing := false; b_free := fr;
                             b_pending := (s, EReq r) :: b_pending c; b_tonotify := b_tonotify c |} in
                let w1 := set_conn w k c' in
                if write_ok then (emit w1 (ToBackend k s r), SentOk)
                else if orig then (w1, SendErr)                     (* Conn.Write failed: stayed registered *)
                else (set_conn w k {| b_host := b_host c; b_closing := false; b_free := fr ++ [s];
                                      b_pending := b_pending c; b_tonotify := b_tonotify c |}, SendErr)
            end
      end
  end.

Definition with_host (q : creq) (h : option N) (p : list N) : creq :=
  {| q_client := q_client q; q_cstream := q_cstream q; q_idem := q_idem q; q_plan := p; q_host := h;
     q_retry := q_retry q; q_done := q_done q |}.

(** the loop of executeInternal once [next] is true: walk the rest of the plan *)
Fixpoint exec_next (orig : bool) (w : world) (r : rid) (q : creq) (p : list N) (oracle : list choice) : world :=
  match p with
  | [] => reply_once (set_req w r (with_host q None [])) r CNoHosts
  | h :: p' =>
      let w0 := set_req w r (with_host q (Some h) p') in
      let '(w1, res) := send_to orig w0 r h (hd None oracle) in
      match res with
      | SentOk => w1
      | SendErr => exec_next orig w1 r (with_host q (Some h) p') p' (tl oracle)
      end
  end.

(** request.executeInternal(next) under the request's mutex *)
Definition exec_internal (orig : bool) (w : world) (r : rid) (next : bool) (oracle : list choice) : world :=
  match lookupN r (w_reqs w) with
  | None => w
  | Some q =>
      if q_done q then w
      else if next then exec_next orig w r q (q_plan q) oracle
      else
        match q_host q with
        | None => reply_once w r CNoHosts
        | Some h =>
            let '(w1, res) := send_to orig w r h (hd None oracle) in
            match res with
            | SentOk => w1
            | SendErr => exec_next orig w1 r q (q_plan q) (tl oracle)
            end
        end
  end.

Definition bump_retry (w : world) (r : rid) : world :=
  match lookupN r (w_reqs w) with
  | None => w
  | Some q => set_req w r {| q_client := q_client q; q_cstream := q_cstream q; q_idem := q_idem q; q_plan := q_plan q;
                             q_host := q_host q; q_retry := (q_retry q + 1)%Z; q_done := q_done q |}
  end.

Inductive bframe :=
| FResult
| FError (m : err_info)
| FUnprepared (cached : bool) (prep_ok : bool).
  (* ERROR UNPREPARED.  cached: the pool has the prepared cache, the frame is recognised and the id is in
     the cache; prep_ok: the Send of the proxy's own PREPARE on this connection succeeds *)

(** ClientConn.Send(&prepareRequest{...}) on the connection the frame arrived on *)
Definition send_prepare (w : world) (k : cid) (r : rid) (nested ok : bool) : world * sent :=
  match lookupN k (w_conns w) with
  | None => (w, SendErr)
  | Some c =>
      if b_closing c || negb ok then (w, SendErr)
      else
        match b_free c with
        | [] => (w, SendErr)
        | s :: fr =>
            (emit (set_conn w k {| b_host := b_host c; b_closing := false; b_free := fr;
                                   b_pending := (s, EPrep r nested) :: b_pending c; b_tonotify := b_tonotify c |})
                  (ToBackendPrepare k s r), SentOk)
        end
  end.

Inductive event :=
| EStart (r : rid) (client : N) (cstream : Z) (idem : bool) (plan : list N) (oracle : list choice)
| EFrame (k : cid) (s : N) (f : bframe) (oracle : list choice)
| ECloseBegin (k : cid)
| ENotify (k : cid) (ent : entry) (oracle : list choice)
| EConnect (k : cid) (h : N) (maxstreams : nat).     (* connPool.stayConnected fills a slot *)

Definition step_gen (orig : bool) (w : world) (e : event) : world :=
  match e with
  | EConnect k h n =>
      match lookupN k (w_conns w) with
      | Some _ => w
      | None => set_conn w k {| b_host := h; b_closing := false; b_free := map N.of_nat (seq 0 n); b_pending := []; b_tonotify := [] |}
      end
  | EStart r client cstream idem p oracle =>
      match lookupN r (w_reqs w) with
      | Some _ => w
      | None =>
          let q := {| q_client := client; q_cstream := cstream; q_idem := idem; q_plan := p; q_host := None; q_retry := 0%Z; q_done := false |} in
          exec_internal orig (set_req w r q) r true oracle
      end
  | EFrame k s f oracle =>
      match lookupN k (w_conns w) with
      | None => w
      | Some c =>
          if b_closing c then w                                       (* the reader has stopped *)
          else
            match lookupN s (b_pending c) with
            | None => w                                               (* "invalid stream": the connection is torn down by its reader *)
            | Some ent =>
                (* loadAndDelete: the id goes back to the END of the channel *)
                let c' := {| b_host := b_host c; b_closing := false; b_free := b_free c ++ [s];
                             b_pending := removeN s (b_pending c); b_tonotify := b_tonotify c |} in
                let w1 := set_conn w k c' in
                match ent with
                | EReq r =>
                    (* maybePrepareAndExecute first, then request.OnResult *)
                    match f with
                    | FUnprepared true ok =>
                        let '(w2, res) := send_prepare w1 k r false ok in
                        match res with
                        | SentOk => w2
                        | SendErr => exec_internal orig w2 r true oracle       (* request.Execute(true) *)
                        end
                    | _ =>
                        match lookupN r (w_reqs w1) with
                        | None => w1
                        | Some q =>
                            if q_done q then w1
                            else
                              match f with
                              | FResult => reply_once w1 r (CFrame k s KResult)
                              | FError m =>
                                  let d := handle_error (q_idem q) m (q_retry q) in
                                  if d =? dec_RetryNext then exec_internal orig (bump_retry w1 r) r true oracle
                                  else if d =? dec_RetrySame then exec_internal orig (bump_retry w1 r) r false oracle
                                  else reply_once w1 r (CFrame k s KError)
                              | FUnprepared _ _ =>
                                  (* not in the cache (or no cache): the policy returns UNPREPARED errors to the client *)
                                  reply_once w1 r (CFrame k s KUnprepared)
                              end
                        end
                    end
                | EPrep r nested =>
                    (* the answer to the proxy's own PREPARE: maybePrepareAndExecute, then prepareRequest.OnResult *)
                    match f with
                    | FUnprepared true ok =>
                        let '(w2, res) := send_prepare w1 k r true ok in
                        match res with
                        | SentOk => w2
                        | SendErr => exec_internal orig w2 r true oracle       (* prepareRequest.Execute -> origRequest.Execute(true) *)
                        end
                    | FResult => exec_internal orig w1 r nested oracle         (* origRequest.Execute(false); a nested one forwards Execute(true) *)
                    | _ => exec_internal orig w1 r true oracle                 (* an error: try the next host *)
                    end
                end
            end
      end
  | ECloseBegin k =>
      match lookupN k (w_conns w) with
      | None => w
      | Some c =>
          if b_closing c then w
          else set_conn w k {| b_host := b_host c; b_closing := true; b_free := b_free c; b_pending := b_pending c;
                               b_tonotify := map snd (b_pending c) |}
      end
  | ENotify k ent oracle =>
      match lookupN k (w_conns w) with
      | None => w
      | Some c =>
          if negb (existsb (entry_eqb ent) (b_tonotify c)) then w
          else
            let w1 := set_conn w k {| b_host := b_host c; b_closing := b_closing c; b_free := b_free c; b_pending := b_pending c;
                                      b_tonotify := remove_first ent (b_tonotify c) |} in
            (* request.OnClose; prepareRequest.OnClose forwards to its original request *)
            let r := entry_req ent in
            match lookupN r (w_reqs w1) with
            | None => w1
            | Some q => if q_idem q then exec_internal orig w1 r true oracle else reply_once w1 r CConnLost
            end
      end
  end.

Definition init_world : world := {| w_reqs := []; w_conns := []; w_out := [] |}.
Definition step := step_gen false.
Definition run_events (es : list event) : world := fold_left step es init_world.
Definition run_events_orig (es : list event) : world := fold_left (step_gen true) es init_world.

(** ** observables *)
Definition client_replies (w : world) (r : rid) : list output :=
  filter (fun o => match o with ToClient _ _ r' _ => r' =? r | _ => false end) (w_out w).
Definition backend_writes (w : world) (r : rid) : list (cid * N) :=
  flat_map (fun o => match o with ToBackend k s r' => if r' =? r then [(k, s)] else [] | _ => [] end) (w_out w).

(** a connection's live registrations: (stream, request) pairs of connections whose reader still runs *)
Definition prepare_writes (w : world) (r : rid) : list (cid * N) :=
  flat_map (fun o => match o with ToBackendPrepare k s r' => if r' =? r then [(k, s)] else [] | _ => [] end) (w_out w).

Definition live (w : world) (k : cid) : list (N * entry) :=
  match lookupN k (w_conns w) with
  | Some c => if b_closing c then [] else b_pending c
  | None => []
  end.

(** every attempt has been answered or its connection's close has been fully processed *)
Definition quiescent (w : world) : Prop :=
  forall k c, lookupN k (w_conns w) = Some c ->
    b_tonotify c = [] /\ (b_closing c = false -> b_pending c = []).
