(** * Parser: the idempotency classifier of the proxy (parser/parser.go, parse_insert.go,
    parse_update.go, parse_updateop.go, parse_delete.go, parse_batch.go, parse_term.go,
    parse_relation.go, parser_utils.go, identifier.go), transcribed function by function over
    the token list of Model/Lexer.v.  Property C06.

    The Go lexer re-scans from a byte position; since every [mark]/[rewind] position is a
    token boundary, that is the same as indexing into the token list.  [lid] is the lexer's
    [id] field: the text of the last identifier token returned. *)
From Coq Require Import List NArith Bool Lia.
From CqlProxy Require Import Lib.Val Lib.Util Lib.Regex Gen.LexRules Gen.Tables Model.Lexer.
Import ListNotations.
Local Open Scope N_scope.

Record lstate := { toks : list tok; pos : nat; mpos : nat; lid : bytes; mlid : bytes }.

Definition init_lstate (ts : list tok) : lstate := {| toks := ts; pos := 0; mpos := 0; lid := []; mlid := [] |}.

Definition next (s : lstate) : N * lstate :=
  match nth_error (toks s) (pos s) with
  | None => (tkEOF, s)
  | Some t =>
      (t_code t, {| toks := toks s; pos := S (pos s); mpos := mpos s;
                    lid := if t_code t =? tkIdentifier then t_text t else lid s; mlid := mlid s |})
  end.

(** mark / rewind save and restore the position together with the identifier text *)
Definition mark (s : lstate) : lstate :=
  {| toks := toks s; pos := pos s; mpos := pos s; lid := lid s; mlid := lid s |}.
Definition rewind (s : lstate) : lstate :=
  {| toks := toks s; pos := mpos s; mpos := mpos s; lid := mlid s; mlid := mlid s |}.

(** ** identifiers (identifier.go) *)
Record ident := { i_id : bytes; i_ic : bool }.
Definition empty_ident : ident := {| i_id := []; i_ic := false |}.

(** IdentifierFromString on a string the lexer produced (a quoted identifier has both quotes) *)
Definition ident_of_lexed (s : bytes) : ident :=
  match s with
  | 34 :: r => {| i_id := removelast r; i_ic := false |}
  | _ => {| i_id := s; i_ic := true |}
  end.

(** IdentifierFromString on an arbitrary string: quoted only if it has at least two bytes and
    starts with a double quote (id[1:l-1] is then in range); [res] is kept for the callers *)
Definition ident_of_string (s : bytes) : res ident :=
  match s with
  | c :: _ :: _ => if c =? 34 then Ok (ident_of_lexed s) else Ok {| i_id := s; i_ic := true |}
  | _ => Ok {| i_id := s; i_ic := true |}
  end.

(** strings.EqualFold against an ASCII constant: ASCII letters fold by case; the only other
    runes that fold onto ASCII letters are U+017F (long s) and U+212A (Kelvin sign) *)
Fixpoint fold_units (s : bytes) : list N :=
  match s with
  | [] => []
  | 197 :: 191 :: r => 115 :: fold_units r
  | 226 :: 132 :: 170 :: r => 107 :: fold_units r
  | c :: r => lower_byte c :: fold_units r
  end.
Definition equal_fold (a b : bytes) : bool := list_eqb N.eqb (fold_units a) (fold_units b).

Definition ident_equal (i : ident) (s : bytes) : bool :=
  if i_ic i then equal_fold (i_id i) s else bytes_eqb (i_id i) s.
Definition ident_is_empty (i : ident) : bool := match i_id i with [] => true | _ => false end.

Definition is_non_idempotent_func (i : ident) : bool := existsb (ident_equal i) non_idempotent_funcs.
Definition is_system_table (i : ident) : bool := existsb (ident_equal i) system_tables.

(** ** parser_utils.go *)
Definition is_kw (s : lstate) (t : N) (kw : bytes) : bool :=
  (t =? tkIdentifier) && ident_equal (ident_of_lexed (lid s)) kw.

Definition skip_token (s : lstate) (t toSkip : N) : N * lstate :=
  if t =? toSkip then next s else (t, s).

Definition is_dml_terminator (t : N) : bool :=
  (t =? tkEOF) || (t =? tkEOS) || (t =? tkInsert) || (t =? tkUpdate) || (t =? tkDelete) || (t =? tkApply).

Definition is_operator (t : N) : bool :=
  (t =? tkEqual) || (t =? tkLt) || (t =? tkLtEqual) || (t =? tkGt) || (t =? tkGtEqual) || (t =? tkNotEqual).

(** parseQualifiedIdentifier: (keyspace, target, next token, error, state) *)
Definition parse_qualified (s : lstate) : ident * ident * N * bool * lstate :=
  let temp := ident_of_lexed (lid s) in
  let '(t, s1) := next s in
  if t =? tkDot then
    let '(t2, s2) := next s1 in
    if negb (t2 =? tkIdentifier) then (empty_ident, empty_ident, tkInvalid, true, s2)
    else
      let target := ident_of_lexed (lid s2) in
      let '(t3, s3) := next s2 in (temp, target, t3, false, s3)
  else (empty_ident, temp, t, false, s1).

(** parseIdentifiers(l, t): error flag and state *)
Fixpoint parse_identifiers (n : nat) (s : lstate) (t : N) : bool * lstate :=
  if (t =? tkRparen) || (t =? tkEOF) then (negb (t =? tkRparen), s)
  else
    match n with
    | O => (true, s)
    | S n' =>
        if negb (t =? tkIdentifier) then (true, s)
        else
          let '(t1, s1) := next s in
          let '(t2, s2) := skip_token s1 t1 tkComma in
          parse_identifiers n' s2 t2
    end.

(** parseBindMarker: error flag *)
Definition parse_bind_marker (s : lstate) (t : N) : bool * lstate :=
  if t =? tkColon then let '(t1, s1) := next s in (negb (t1 =? tkIdentifier), s1)
  else if t =? tkQMark then (false, s)
  else (true, s).

(** ** terms (parse_term.go) *)
Definition tInvalid : N := 0.
Definition tInteger : N := 1.
Definition tPrimitive : N := 2.
Definition tList : N := 3.
Definition tSetMapUdt : N := 4.
Definition tTuple : N := 5.
Definition tBind : N := 6.
Definition tFunc : N := 7.
Definition tCast : N := 8.

(** result of a term parse: idempotent, term type, error (0 none, 1 error, 2 out of fuel), state *)
Definition TRes := (bool * N * N * lstate)%type.
Definition PT := lstate -> N -> TRes.

Definition eN (b : bool) : N := if b then 1 else 0.

(** for t != close && t != EOF { parseTerm(t) or fail; t = skipToken(l, l.next(), ',') }
    result: inl failing-result | inr (t, state) *)
Fixpoint loop_terms (n : nat) (pt : PT) (close : N) (s : lstate) (t : N) : TRes + (N * lstate) :=
  if (t =? close) || (t =? tkEOF) then inr (t, s)
  else
    match n with
    | O => inl (false, tInvalid, 2, s)
    | S n' =>
        let '(idem, typ, err, s1) := pt s t in
        if negb idem then inl (idem, typ, err, s1)
        else
          let '(t1, s2) := next s1 in
          let '(t2, s3) := skip_token s2 t1 tkComma in
          loop_terms n' pt close s3 t2
    end.

Definition parse_list_term (n : nat) (pt : PT) (s : lstate) : TRes :=
  let '(t, s1) := next s in
  match loop_terms n pt tkRsquare s1 t with
  | inl (idem, _, err, s2) => (idem, tList, err, s2)
  | inr (t', s2) => if negb (t' =? tkRsquare) then (false, tList, 1, s2) else (true, tList, 0, s2)
  end.

Definition parse_tuple_term (n : nat) (pt : PT) (s : lstate) (t : N) : TRes :=
  match loop_terms n pt tkRparen s t with
  | inl (idem, _, err, s2) => (idem, tTuple, err, s2)
  | inr (t', s2) => if negb (t' =? tkRparen) then (false, tTuple, 1, s2) else (true, tTuple, 0, s2)
  end.

Fixpoint parse_udt_term (n : nat) (pt : PT) (s : lstate) (t : N) : TRes :=
  if (t =? tkRcurly) || (t =? tkEOF) then
    (if negb (t =? tkRcurly) then (false, tSetMapUdt, 1, s) else (true, tSetMapUdt, 0, s))
  else
    match n with
    | O => (false, tSetMapUdt, 2, s)
    | S n' =>
        if negb (t =? tkIdentifier) then (false, tSetMapUdt, 1, s)
        else
          let '(_, _, tq, err, s1) := parse_qualified s in
          if err then (false, tSetMapUdt, 1, s1)
          else if negb (tq =? tkColon) then (false, tSetMapUdt, 1, s1)
          else
            let '(t2, s3) := next s1 in
            let '(idem, _, e, s4) := pt s3 t2 in
            if negb idem then (idem, tSetMapUdt, e, s4)
            else
              let '(t3, s5) := next s4 in
              let '(t4, s6) := skip_token s5 t3 tkComma in
              parse_udt_term n' pt s6 t4
    end.

Fixpoint parse_set_or_map_term (n : nat) (pt : PT) (s : lstate) (t : N) : TRes :=
  if (t =? tkRcurly) || (t =? tkEOF) then
    (if negb (t =? tkRcurly) then (false, tSetMapUdt, 1, s) else (true, tSetMapUdt, 0, s))
  else
    match n with
    | O => (false, tSetMapUdt, 2, s)
    | S n' =>
        let '(idem, _, e, s1) := pt s t in
        if negb idem then (idem, tSetMapUdt, e, s1)
        else
          let '(t1, s2) := next s1 in
          if t1 =? tkColon then
            let '(t2, s3) := next s2 in
            let '(idem2, _, e2, s4) := pt s3 t2 in
            if negb idem2 then (idem2, tSetMapUdt, e2, s4)
            else
              let '(t3, s5) := next s4 in
              let '(t4, s6) := skip_token s5 t3 tkComma in
              parse_set_or_map_term n' pt s6 t4
          else
            let '(t4, s6) := skip_token s2 t1 tkComma in
            parse_set_or_map_term n' pt s6 t4
    end.

(** parseType: (next token, error) *)
Fixpoint parse_type_params (n : nat) (s : lstate) (t : N) : N * bool * lstate :=
  if (t =? tkGt) || (t =? tkEOF) then (t, false, s)
  else
    match n with
    | O => (t, true, s)
    | S n' =>
        if negb (t =? tkIdentifier) then (tkInvalid, true, s)
        else
          let '(t1, s1) := next s in
          let '(t2, s2) := skip_token s1 t1 tkComma in
          parse_type_params n' s2 t2
    end.

Definition parse_type (n : nat) (s : lstate) : N * bool * lstate :=
  let '(t, s1) := next s in
  if t =? tkLt then
    let '(t1, s2) := next s1 in
    let '(t2, err, s3) := parse_type_params n s2 t1 in
    if err then (tkInvalid, true, s3)
    else if negb (t2 =? tkGt) then (tkInvalid, true, s3)
    else let '(t3, s4) := next s3 in (t3, false, s4)
  else (t, false, s1).

Definition parse_cast_term (n : nat) (pt : PT) (s : lstate) : TRes :=
  let '(t, err, s1) := parse_type n s in
  if err then (false, tCast, 1, s1)
  else if negb (t =? tkRparen) then (false, tCast, 1, s1)
  else
    let '(t1, s2) := next s1 in
    let '(idem, _, e, s3) := pt s2 t1 in
    if negb idem then (idem, tCast, e, s3) else (true, tCast, e, s3).

(** the argument loop of parseFunctionTerm *)
Fixpoint loop_func_args (n : nat) (pt : PT) (s : lstate) (t : N) : TRes + (N * lstate) :=
  if (t =? tkRparen) || (t =? tkEOF) then inr (t, s)
  else
    match n with
    | O => inl (false, tFunc, 2, s)
    | S n' =>
        let sm := mark s in
        let '(maybe, s1) := next sm in
        let sr := rewind s1 in
        let after (s' : lstate) :=
          let '(t1, s2) := next s' in
          let '(t2, s3) := skip_token s2 t1 tkComma in
          loop_func_args n' pt s3 t2 in
        if (t =? tkIdentifier) && ((maybe =? tkComma) || (maybe =? tkRparen)) then after sr
        else
          let '(idem, _, e, s2) := pt sr t in
          if negb idem then inl (idem, tFunc, e, s2) else after s2
    end.

Definition parse_function_term (n : nat) (pt : PT) (s : lstate) : TRes :=
  let '(keyspace, target, t, err, s1) := parse_qualified s in
  if err then (false, tFunc, 1, s1)
  else if negb (t =? tkLparen) then (false, tFunc, 1, s1)
  else
    let '(t1, s2) := next s1 in
    match loop_func_args n pt s2 t1 with
    | inl r => r
    | inr (t2, s3) =>
        if negb (t2 =? tkRparen) then (false, tFunc, 1, s3)
        else
          (negb (is_non_idempotent_func target && (ident_is_empty keyspace || ident_equal keyspace (str "system"))),
           tFunc, 0, s3)
    end.

(** parseTerm.  [fuel] is the nesting depth still allowed (lexer.enter: maxNestingDepth minus the
    depth reached; exhausting it is the "nested too deeply" error); every inner loop is bounded by [n]. *)
Fixpoint parse_term (fuel : nat) (n : nat) (s : lstate) (t : N) : TRes :=
  match fuel with
  | O => (false, tInvalid, 1, s)
  | S f =>
      let pt := parse_term f n in
      if t =? tkInteger then (true, tInteger, 0, s)
      else if (t =? tkFloat) || (t =? tkBool) || (t =? tkNull) || (t =? tkStringLiteral) || (t =? tkHexNumber)
              || (t =? tkUuid) || (t =? tkDuration) || (t =? tkNan) || (t =? tkInfinity) then (true, tPrimitive, 0, s)
      else if t =? tkColon then
        let '(t1, s1) := next s in
        if negb (t1 =? tkIdentifier) then (false, tBind, 1, s1) else (true, tBind, 0, s1)
      else if t =? tkQMark then (true, tBind, 0, s)
      else if t =? tkLsquare then parse_list_term n pt s
      else if t =? tkLcurly then
        let '(t1, s1) := next s in
        if t1 =? tkIdentifier then
          let sm := mark s1 in
          let '(_, _, maybeColon, err, s2) := parse_qualified sm in
          if err then (false, tSetMapUdt, 1, s2)
          else
            let sr := rewind s2 in
            if maybeColon =? tkColon then parse_udt_term n pt sr t1 else parse_set_or_map_term n pt sr t1
        else parse_set_or_map_term n pt s1 t1
      else if t =? tkLparen then
        let '(t1, s1) := next s in
        if t1 =? tkIdentifier then parse_cast_term n pt s1 else parse_tuple_term n pt s1 t1
      else if t =? tkIdentifier then parse_function_term n pt s
      else (false, tInvalid, 1, s)
  end.

(** ** relations (parse_relation.go): (idempotent, error, state) *)
Definition RRes := (bool * N * lstate)%type.

Definition term_then (r : TRes) (k : lstate -> RRes) : RRes :=
  let '(idem, _, e, s) := r in if negb idem then (idem, e, s) else k s.

Definition paren_terms (n : nat) (pt : PT) (s : lstate) : RRes :=
  let '(t, s1) := next s in
  match loop_terms n pt tkRparen s1 t with
  | inl (idem, _, e, s2) => (idem, e, s2)
  | inr (t', s2) => if negb (t' =? tkRparen) then (false, 1, s2) else (true, 0, s2)
  end.

Definition parse_identifiers_relation (n : nat) (pt : PT) (s : lstate) : RRes :=
  let '(t, s1) := next s in
  if (t =? tkIn) || (t =? tkEqual) || (t =? tkLt) || (t =? tkLtEqual) || (t =? tkGt) || (t =? tkGtEqual) || (t =? tkNotEqual) then
    let '(t1, s2) := next s1 in
    if (t1 =? tkColon) || (t1 =? tkQMark) then
      let '(err, s3) := parse_bind_marker s2 t1 in if err then (false, 1, s3) else (true, 0, s3)
    else if t1 =? tkLparen then paren_terms n pt s2
    else (false, 1, s2)
  else (false, 1, s1).

(** parseRelation shares the nesting counter with parseTerm: a term inside a relation entered at
    depth d may nest maxNestingDepth - d deeper, which is what is left of [fuel] here. *)
Fixpoint parse_relation (fuel : nat) (n : nat) (s : lstate) (t : N) : RRes :=
  match fuel with
  | O => (false, 1, s)
  | S f =>
      let pt := parse_term f n in
      if t =? tkIdentifier then
        let '(t1, s1) := next s in
        if t1 =? tkIdentifier then
          if is_kw s1 t1 (str "contains") then
            let '(t2, s2) := next s1 in
            let '(t3, s3) := if is_kw s2 t2 (str "key") then next s2 else (t2, s2) in
            term_then (pt s3 t3) (fun s4 => (true, 0, s4))
          else if is_kw s1 t1 (str "like") then
            let '(t2, s2) := next s1 in term_then (pt s2 t2) (fun s4 => (true, 0, s4))
          else (false, 1, s1)
        else if is_operator t1 then
          let '(t2, s2) := next s1 in term_then (pt s2 t2) (fun s4 => (true, 0, s4))
        else if t1 =? tkIs then
          let '(t2, s2) := next s1 in
          if negb (t2 =? tkNot) then (false, 1, s2)
          else let '(t3, s3) := next s2 in if negb (t3 =? tkNull) then (false, 1, s3) else (true, 0, s3)
        else if t1 =? tkLsquare then
          let '(t2, s2) := next s1 in
          term_then (pt s2 t2) (fun s3 =>
            let '(t3, s4) := next s3 in
            if negb (t3 =? tkRsquare) then (false, 1, s4)
            else
              let '(t4, s5) := next s4 in
              if negb (is_operator t4) then (false, 1, s5)
              else let '(t5, s6) := next s5 in term_then (pt s6 t5) (fun s7 => (true, 0, s7)))
        else if t1 =? tkIn then
          let '(t2, s2) := next s1 in
          if t2 =? tkLparen then paren_terms n pt s2
          else if (t2 =? tkColon) || (t2 =? tkQMark) then
            let '(err, s3) := parse_bind_marker s2 t2 in if err then (false, 1, s3) else (true, 0, s3)
          else (false, 1, s2)
        else (false, 1, s1)
      else if t =? tkToken then
        let '(t1, s1) := next s in
        if negb (t1 =? tkLparen) then (false, 1, s1)
        else
          let '(t2, s2) := next s1 in
          let '(err, s3) := parse_identifiers n s2 t2 in
          if err then (false, 1, s3)
          else
            let '(t3, s4) := next s3 in
            if negb (is_operator t3) then (false, 1, s4)
            else let '(t4, s5) := next s4 in term_then (pt s5 t4) (fun s6 => (true, 0, s6))
      else if t =? tkLparen then
        let sm := mark s in
        let '(maybeId, s1) := next sm in
        let '(maybeCR, s2) := next s1 in
        if (maybeId =? tkIdentifier) && ((maybeCR =? tkComma) || (maybeCR =? tkRparen)) then
          let '(t1, s3) := skip_token s2 maybeCR tkComma in
          let '(err, s4) := parse_identifiers n s3 t1 in
          if err then (false, 1, s4) else parse_identifiers_relation n pt s4
        else
          let sr := rewind s2 in
          let '(t1, s3) := next sr in
          let '(idem, e, s4) := parse_relation f n s3 t1 in
          if negb idem then (idem, e, s4)
          else let '(t2, s5) := next s4 in if negb (t2 =? tkRparen) then (false, 1, s5) else (true, 0, s5)
      else (false, 1, s)
  end.

(** parseWhereClause: (idempotent, next token, error, state) *)
Fixpoint parse_where_loop (n : nat) (fuel : nat) (pt : PT) (s : lstate) (t : N) : bool * N * N * lstate :=
  if (t =? tkIf) || is_dml_terminator t then (true, t, 0, s)
  else
    match n with
    | O => (false, tkInvalid, 2, s)
    | S n' =>
        let '(idem, e, s1) := parse_relation fuel n s t in
        if negb idem then (idem, tkInvalid, e, s1)
        else
          let '(t1, s2) := next s1 in
          let '(t2, s3) := skip_token s2 t1 tkAnd in
          parse_where_loop n' fuel pt s3 t2
    end.

Definition parse_where_clause (n fuel : nat) (pt : PT) (s : lstate) : bool * N * N * lstate :=
  let '(t, s1) := next s in parse_where_loop n fuel pt s1 t.

(** ** USING clause (parse_update.go) *)
Definition parse_ttl_or_timestamp (s : lstate) : bool * lstate :=
  let '(t, s1) := next s in
  if negb (is_kw s1 t (str "ttl")) && negb (is_kw s1 t (str "timestamp")) then (true, s1)
  else
    let '(t1, s2) := next s1 in
    if t1 =? tkInteger then (false, s2)
    else if (t1 =? tkColon) || (t1 =? tkQMark) then parse_bind_marker s2 t1
    else (true, s2).

(** parseUsingClause(l, t): (next token, error, state) *)
Definition parse_using_clause (s : lstate) (t : N) : N * bool * lstate :=
  if t =? tkUsing then
    let '(err, s1) := parse_ttl_or_timestamp s in
    if err then (tkInvalid, true, s1)
    else
      let '(t1, s2) := next s1 in
      if t1 =? tkAnd then
        let '(err2, s3) := parse_ttl_or_timestamp s2 in
        if err2 then (tkInvalid, true, s3)
        else let '(t2, s4) := next s3 in (t2, false, s4)
      else (t1, false, s2)
  else (t, false, s).

(** "for ; !isDMLTerminator(t); t = l.next() { if tkIf == t { return false } }" *)
Fixpoint scan_for_if (n : nat) (s : lstate) (t : N) : bool * N * N * lstate :=
  if is_dml_terminator t then (true, t, 0, s)
  else if t =? tkIf then (false, tkInvalid, 0, s)
  else
    match n with
    | O => (false, tkInvalid, 2, s)
    | S n' => let '(t1, s1) := next s in scan_for_if n' s1 t1
    end.

(** statement results: (idempotent, terminating token, error, state) *)
Definition SRes := (bool * N * N * lstate)%type.

(** ** INSERT (parse_insert.go) *)
Definition insert_stmt (n : nat) (pt : PT) (s : lstate) : SRes :=
  let '(t, s1) := next s in
  if negb (t =? tkInto) then (false, tkInvalid, 1, s1)
  else
    let '(t1, s2) := next s1 in
    if negb (t1 =? tkIdentifier) then (false, tkInvalid, 1, s2)
    else
      let '(_, _, t2, err, s3) := parse_qualified s2 in
      if err then (false, tkInvalid, 1, s3)
      else
        let tail (s' : lstate) := let '(t', s'') := next s' in scan_for_if n s'' t' in
        if is_kw s3 t2 (str "json") then tail s3
        else if negb (t2 =? tkLparen) then (false, tkInvalid, 1, s3)
        else
          let '(t3, s4) := next s3 in
          let '(err2, s5) := parse_identifiers n s4 t3 in
          if err2 then (false, tkInvalid, 1, s5)
          else
            let '(t4, s6) := next s5 in
            if negb (is_kw s6 t4 (str "values")) then (false, tkInvalid, 1, s6)
            else
              let '(t5, s7) := next s6 in
              (* "if t != l.next()": t still holds the '(' seen after the table name *)
              if negb (t2 =? t5) then (false, tkInvalid, 1, s7)
              else
                let '(t6, s8) := next s7 in
                match loop_terms n pt tkRparen s8 t6 with
                | inl (idem, _, e, s9) => (idem, tkInvalid, e, s9)
                | inr (t7, s9) => if negb (t7 =? tkRparen) then (false, tkInvalid, 1, s9) else tail s9
                end.

(** ** UPDATE operations (parse_updateop.go) *)
Definition idem_update_op_type (typ : N) : bool := (typ =? tSetMapUdt) || (typ =? tTuple).

Definition parse_update_op (pt : PT) (s : lstate) (t : N) : bool * N * lstate :=
  if negb (t =? tkIdentifier) then (false, 1, s)
  else
    let '(t1, s1) := next s in
    if t1 =? tkEqual then
      let sm := mark s1 in
      let '(maybeId, s2) := next sm in
      let '(maybeOp, s3) := next s2 in
      if (maybeId =? tkIdentifier) && ((maybeOp =? tkAdd) || (maybeOp =? tkSub)) then
        let '(t2, s4) := next s3 in
        let '(idem, typ, e, s5) := pt s4 t2 in
        if negb idem then (idem, e, s5) else (idem_update_op_type typ, 0, s5)
      else
        let sr := rewind s3 in
        let '(t2, s4) := next sr in
        let '(idem, typ, e, s5) := pt s4 t2 in
        if idem then
          let sm2 := mark s5 in
          let '(t3, s6) := next sm2 in
          if t3 =? tkAdd then
            let '(t4, s7) := next s6 in
            if negb (t4 =? tkIdentifier) then (false, 1, s7) else (idem_update_op_type typ, 0, s7)
          else (true, 0, rewind s6)
        else (idem, e, s5)
    else if (t1 =? tkAddEqual) || (t1 =? tkSubEqual) then
      let '(t2, s2) := next s1 in
      let '(idem, typ, e, s3) := pt s2 t2 in
      if negb idem then (idem, e, s3) else (idem_update_op_type typ, 0, s3)
    else if t1 =? tkLsquare then
      let '(t2, s2) := next s1 in
      let '(idem, _, e, s3) := pt s2 t2 in
      if negb idem then (idem, e, s3)
      else
        let '(t3, s4) := next s3 in
        if negb (t3 =? tkRsquare) then (false, 1, s4)
        else
          let '(t4, s5) := next s4 in
          if negb (t4 =? tkEqual) then (false, 1, s5)
          else
            let '(t5, s6) := next s5 in
            let '(idem2, _, e2, s7) := pt s6 t5 in
            if negb idem2 then (idem2, e2, s7) else (true, 0, s7)
    else if t1 =? tkDot then
      let '(t2, s2) := next s1 in
      if negb (t2 =? tkIdentifier) then (false, 1, s2)
      else
        let '(t3, s3) := next s2 in
        if negb (t3 =? tkEqual) then (false, 1, s3)
        else
          let '(t4, s4) := next s3 in
          let '(idem, _, e, s5) := pt s4 t4 in
          if negb idem then (idem, e, s5) else (true, 0, s5)
    else (false, 1, s1).

(** ** UPDATE (parse_update.go) *)
Fixpoint update_ops_loop (n : nat) (pt : PT) (s : lstate) (t : N) : (bool * N * lstate) + (N * lstate) :=
  if (t =? tkIf) || (t =? tkWhere) || is_dml_terminator t then inr (t, s)
  else
    match n with
    | O => inl (false, 2, s)
    | S n' =>
        let '(idem, e, s1) := parse_update_op pt s t in
        if negb idem then inl (idem, e, s1)
        else
          let '(t1, s2) := next s1 in
          let '(t2, s3) := skip_token s2 t1 tkComma in
          update_ops_loop n' pt s3 t2
    end.

Definition where_and_if (n fuel : nat) (pt : PT) (s : lstate) (t : N) : SRes :=
  if t =? tkWhere then
    let '(idem, t1, e, s1) := parse_where_clause n fuel pt s in
    if negb idem then (idem, tkInvalid, e, s1) else scan_for_if n s1 t1
  else scan_for_if n s t.

Definition update_stmt (n fuel : nat) (pt : PT) (s : lstate) : SRes :=
  let '(t, s1) := next s in
  if negb (t =? tkIdentifier) then (false, tkInvalid, 1, s1)
  else
    let '(_, _, t1, err, s2) := parse_qualified s1 in
    if err then (false, tkInvalid, 1, s2)
    else
      let '(t2, err2, s3) := parse_using_clause s2 t1 in
      if err2 then (false, tkInvalid, 1, s3)
      else if negb (is_kw s3 t2 (str "set")) then (false, tkInvalid, 1, s3)
      else
        let '(t3, s4) := next s3 in
        match update_ops_loop n pt s4 t3 with
        | inl (idem, e, s5) => (idem, tkInvalid, e, s5)
        | inr (t4, s5) => where_and_if n fuel pt s5 t4
        end.

(** ** DELETE (parse_delete.go) *)
Definition idem_delete_element_type (typ : N) : bool :=
  negb (typ =? tInteger) && negb (typ =? tBind) && negb (typ =? tFunc) && negb (typ =? tCast).

Fixpoint delete_ops_loop (n : nat) (pt : PT) (s : lstate) (t : N) : (bool * N * lstate) + (N * lstate) :=
  if (t =? tkFrom) || (t =? tkEOF) then inr (t, s)
  else
    match n with
    | O => inl (false, 2, s)
    | S n' =>
        if negb (t =? tkIdentifier) then inl (false, 1, s)
        else
          let sm := mark s in
          let '(t1, s1) := next sm in
          let continue (s' : lstate) :=
            let '(t2, s2) := next s' in
            let '(t3, s3) := skip_token s2 t2 tkComma in
            delete_ops_loop n' pt s3 t3 in
          if t1 =? tkLsquare then
            let '(t2, s2) := next s1 in
            let '(idem, typ, e, s3) := pt s2 t2 in
            if negb idem then inl (idem, e, s3)
            else
              let '(t3, s4) := next s3 in
              if negb (t3 =? tkRsquare) then inl (false, 1, s4)
              else if negb (idem_delete_element_type typ) then inl (false, 0, s4)
              else continue s4
          else if t1 =? tkDot then
            let '(t2, s2) := next s1 in
            if negb (t2 =? tkIdentifier) then inl (false, 1, s2) else continue s2
          else continue (rewind s1)
    end.

Definition delete_stmt (n fuel : nat) (pt : PT) (s : lstate) : SRes :=
  let '(t, s1) := next s in
  match delete_ops_loop n pt s1 t with
  | inl (idem, e, s2) => (idem, tkInvalid, e, s2)
  | inr (t1, s2) =>
      if negb (t1 =? tkFrom) then (false, tkInvalid, 1, s2)
      else
        let '(t2, s3) := next s2 in
        if negb (t2 =? tkIdentifier) then (false, tkInvalid, 1, s3)
        else
          let '(_, _, t3, err, s4) := parse_qualified s3 in
          if err then (false, tkInvalid, 1, s4)
          else
            let '(t4, err2, s5) := parse_using_clause s4 t3 in
            if err2 then (false, tkInvalid, 1, s5) else where_and_if n fuel pt s5 t4
  end.

(** ** BATCH (parse_batch.go): (idempotent, error) *)
Fixpoint batch_children (n fuel : nat) (pt : PT) (s : lstate) (t : N) : (bool * N) + (N * lstate) :=
  if (t =? tkApply) || (t =? tkEOF) then inr (t, s)
  else
    match n with
    | O => inl (false, 2)
    | S n' =>
        let r :=
          if t =? tkInsert then Some (insert_stmt n pt s)
          else if t =? tkUpdate then Some (update_stmt n fuel pt s)
          else if t =? tkDelete then Some (delete_stmt n fuel pt s)
          else None in
        match r with
        | None => inl (false, 1)
        | Some (idem, t1, e, s1) =>
            let '(t2, s2) := if t1 =? tkEOS then next s1 else (t1, s1) in
            if negb idem then inl (idem, e) else batch_children n' fuel pt s2 t2
        end
    end.

Definition batch_stmt (n fuel : nat) (pt : PT) (s : lstate) : bool * N :=
  let '(t, s1) := next s in
  if is_kw s1 t (str "counter") && negb (is_kw s1 t (str "unlogged")) then (false, 0)
  else
    let '(t1, s2) := if is_kw s1 t (str "unlogged") then next s1 else (t, s1) in
    if negb (t1 =? tkBatch) then (false, 1)
    else
      let '(t2, s3) := next s2 in
      let '(t3, err, s4) := parse_using_clause s3 t2 in
      if err then (false, 1)
      else
        match batch_children n fuel pt s4 t3 with
        | inl r => r
        | inr (t4, s5) =>
            if negb (t4 =? tkApply) then (false, 1)
            else let '(t5, _) := next s5 in if negb (t5 =? tkBatch) then (false, 1) else (true, 0)
        end.

(** ** IsQueryIdempotent: (idempotent, error kind: 0 none, 1 error, 2 a loop bound of the model ran out) *)
Definition is_idempotent_tokens (ts : list tok) : bool * N :=
  let n := S (length ts) in
  let fuel := N.to_nat max_nesting_depth in
  let pt := parse_term fuel n in
  let s0 := init_lstate ts in
  let '(t, s) := next s0 in
  let finish (r : SRes) : bool * N := let '(idem, t', e, _) := r in (idem && ((t' =? tkEOF) || (t' =? tkEOS)), e) in
  if t =? tkSelect then (true, 0)
  else if (t =? tkUse) || (t =? tkCreate) || (t =? tkAlter) || (t =? tkDrop) then (false, 0)
  else if t =? tkInsert then finish (insert_stmt n pt s)
  else if t =? tkUpdate then finish (update_stmt n fuel pt s)
  else if t =? tkDelete then finish (delete_stmt n fuel pt s)
  else if t =? tkBegin then batch_stmt n fuel pt s
  else (false, 1).

Definition is_query_idempotent (q : bytes) : bool * N := is_idempotent_tokens (tokenize q).
