(** * Sessions: which backend session a client's request runs on (proxy.go: client.keyspace /
    compression, Proxy.findSession / maybeCreateSession, interceptSystemQuery's USE branch;
    proxycore/connpool.go connect: STARTUP with the session's compression, then USE of the
    session's keyspace on every (re)established connection).  Property C07. *)
From Coq Require Import List ZArith NArith Bool Lia.
From CqlProxy Require Import Lib.Val Lib.Util Model.Lexer Model.Parser Model.Handled.
Import ListNotations.
Local Open Scope N_scope.

Record client := { cl_keyspace : bytes; cl_compression : bytes }.   (* c.keyspace as written in the USE; c.compression *)
Definition fresh_client (compression : bytes) : client := {| cl_keyspace := []; cl_compression := compression |}.

(** the key of the session a request of this client is executed on *)
Record session_key := { sk_version : N; sk_keyspace : bytes; sk_compression : bytes }.

Definition session_for (c : client) (version : N) : session_key :=
  {| sk_version := version; sk_keyspace := cl_keyspace c; sk_compression := cl_compression c |}.

(** what the backend connections of a session look like: STARTUP with the (lower-cased by the
    backend) compression of the key, protocol version of the key, and USE of the key's keyspace *)
Record backend_view := { bv_keyspace : bytes; bv_version : N; bv_compression : bytes }.
Definition view_of_session (k : session_key) : backend_view :=
  {| bv_keyspace := sk_keyspace k; bv_version := sk_version k; bv_compression := lower (sk_compression k) |}.

Inductive op :=
| OUse (c : nat) (keyspace_text : bytes) (backend_accepts : bool)
| ORequest (c : nat) (version : N).

Inductive obs :=
| UseOk (name : bytes)          (* RESULT set_keyspace with the name as the backend would print it *)
| UseFailed
| RanOn (v : backend_view).

Definition set_client (cs : list client) (i : nat) (c : client) : list client :=
  firstn i cs ++ match skipn i cs with [] => [] | _ :: r => c :: r end.

Definition step (cs : list client) (o : op) : list client * obs :=
  match o with
  | OUse i ks ok =>
      match nth_error cs i with
      | None => (cs, UseFailed)
      | Some c =>
          if ok then (set_client cs i {| cl_keyspace := ks; cl_compression := cl_compression c |}, UseOk (ident_ID (ident_of_lexed ks)))
          else (cs, UseFailed)
      end
  | ORequest i v =>
      match nth_error cs i with
      | None => (cs, UseFailed)
      | Some c => (cs, RanOn (view_of_session (session_for c v)))
      end
  end.

Fixpoint run_ops (cs : list client) (ops : list op) : list obs :=
  match ops with
  | [] => []
  | o :: r => let '(cs', ob) := step cs o in ob :: run_ops cs' r
  end.

(** the specification: the keyspace in force for client [i] after a history is the text of its
    last accepted USE *)
Fixpoint last_use (i : nat) (ops : list op) (acc : bytes) : bytes :=
  match ops with
  | [] => acc
  | OUse j ks true :: r => last_use i r (if Nat.eqb i j then ks else acc)
  | _ :: r => last_use i r acc
  end.

(** ** correspondence entry
    input  ((compression...) (op...))    op: (0 client keyspace_text accepted) | (1 client version)
    output (obs...)  (0 name) use ok | (1) use failed | (2 keyspace version compression) ran on *)
Definition op_of_val (v : val) : op :=
  if Z.eqb (vZ (nthv 0 v)) 0 then OUse (Z.to_nat (vZ (nthv 1 v))) (vB (nthv 2 v)) (vbool (nthv 3 v))
  else ORequest (Z.to_nat (vZ (nthv 1 v))) (vN (nthv 2 v)).

Definition obs_val (o : obs) : val :=
  match o with
  | UseOk n => L [I 0; B n]
  | UseFailed => L [I 1]
  | RanOn v => L [I 2; B (bv_keyspace v); IN (bv_version v); B (bv_compression v)]
  end.

Definition run_c07 (input : val) : val :=
  let cs := map (fun c => fresh_client (vB c)) (vL (nthv 0 input)) in
  L (map obs_val (run_ops cs (map op_of_val (vL (nthv 1 input))))).

Definition holds_c07 (input output : val) : val :=
  if val_eqb output (run_c07 input) then B []
  else if Nat.eqb (length (vL output)) (length (vL (nthv 1 input))) then B (str "request-ran-in-wrong-keyspace-version-or-compression-or-use-answered-wrongly")
  else B (str "history-not-completed").
