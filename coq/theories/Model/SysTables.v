(** * SysTables: the virtual system.local / system.peers (proxy.go buildNodes, buildLocalRow,
    interceptSystemQuery, filterSystem*Values; parser.FilterColumns / FilterValues and the
    selectors of parser.go).  Property C10.

    MD5 is outside the model: every address comes with the digest of its textual form
    (supplied by the harness, cross-checked there); the model derives the version-3 UUID. *)
From Coq Require Import List ZArith NArith Bool Lia.
From CqlProxy Require Import Lib.Val Lib.Util Lib.Wire Gen.LexRules Gen.Tables Model.Lexer Model.Parser Model.Handled.
Import ListNotations.
Local Open Scope N_scope.

Record node := {
  n_ip : bytes;            (* 16 bytes, as net.ResolveIPAddr returns it *)
  n_zone : bytes;
  n_dc : bytes;
  n_tokens : list bytes;
  n_md5 : bytes;           (* MD5 of the address text used for the host id *)
  n_local : bool
}.

Record config := {
  c_has_rpc : bool;
  c_local : node;          (* address and digest of this proxy (dc/tokens as configured, possibly empty) *)
  c_peers : list node;     (* as configured: dc and tokens possibly empty; an empty ip = missing rpc-address *)
  c_cluster_dc : bytes;
  c_release : bytes;
  c_partitioner : bytes;
  c_cql : bytes;
  c_dse : bytes;
  c_version : N
}.

(** bytes.Compare, then strings.Compare on the zone *)
Fixpoint bytes_cmp (a b : bytes) : comparison :=
  match a, b with
  | [], [] => Eq
  | [], _ => Lt
  | _, [] => Gt
  | x :: a', y :: b' => match N.compare x y with Eq => bytes_cmp a' b' | c => c end
  end.

Definition addr_cmp (a b : node) : comparison :=
  match bytes_cmp (n_ip a) (n_ip b) with Eq => bytes_cmp (n_zone a) (n_zone b) | c => c end.

Definition addr_ltb (a b : node) : bool := match addr_cmp a b with Lt => true | _ => false end.

Fixpoint insert_sorted (x : node) (l : list node) : list node :=
  match l with
  | [] => [x]
  | y :: r => if addr_ltb y x then y :: insert_sorted x r else x :: y :: r
  end.
Definition sort_nodes (l : list node) : list node := fold_right insert_sorted [] l.

Definition min_token : Z := (-9223372036854775808)%Z.
Definition max_uint64 : Z := 18446744073709551615%Z.

Definition token_step (num_peers : nat) : Z := (max_uint64 / (Z.of_nat num_peers + 1) + 1)%Z.
Definition nth_token (num_peers : nat) (i : nat) : Z := (min_token + Z.of_nat i * token_step num_peers)%Z.

Fixpoint assign_tokens (num_peers : nat) (i : nat) (l : list node) : list node :=
  match l with
  | [] => []
  | n :: r =>
      {| n_ip := n_ip n; n_zone := n_zone n; n_dc := n_dc n; n_tokens := [print_Z (nth_token num_peers i)];
         n_md5 := n_md5 n; n_local := n_local n |} :: assign_tokens num_peers (S i) r
  end.

Definition with_dc_tokens (n : node) (dc : bytes) (tokens : list bytes) (loc : bool) : node :=
  {| n_ip := n_ip n; n_zone := n_zone n; n_dc := dc; n_tokens := tokens; n_md5 := n_md5 n; n_local := loc |}.

(** Proxy.buildNodes *)
Fixpoint build_peers (c : config) (local_dc : bytes) (calc : bool) (ps : list node) : res (list node) :=
  match ps with
  | [] => Ok []
  | p :: r =>
      match n_ip p with
      | [] => Err (str "no rpc-address for peer")
      | _ =>
          if match addr_cmp (c_local c) p with Eq => true | _ => false end then build_peers c local_dc calc r
          else if negb calc && match n_tokens p with [] => true | _ => false end then Err (str "tokens must be provided for all peers")
          else
            match build_peers c local_dc calc r with
            | Ok rest => Ok (with_dc_tokens p (match n_dc p with [] => local_dc | d => d end) (n_tokens p) false :: rest)
            | e => e
            end
      end
  end.

Definition build_nodes (c : config) : res (list node) :=
  if negb (c_has_rpc c) && negb (match c_peers c with [] => true | _ => false end) then Err (str "peers provided, but RPC address is not set")
  else
    let local_dc := match n_dc (c_local c) with [] => c_cluster_dc c | d => d end in
    let calc := match n_tokens (c_local c) with [] => true | _ => false end in
    let local_tokens := if calc then [print_Z min_token] else n_tokens (c_local c) in
    let local := with_dc_tokens (c_local c) local_dc local_tokens true in
    match build_peers c local_dc calc (c_peers c) with
    | Ok peers =>
        let nodes := local :: peers in
        if calc && Nat.ltb 1 (length nodes) then Ok (assign_tokens (length (c_peers c)) 0 (sort_nodes nodes))
        else Ok nodes
    | Err e => Err e | Panic e => Panic e | OutOfFuel => OutOfFuel
    end.

(** ** value encodings (codecs.EncodeType / datacodec) *)
Definition is_v4_mapped (ip : bytes) : bool :=
  match ip with
  | [0; 0; 0; 0; 0; 0; 0; 0; 0; 0; 255; 255; _; _; _; _] => true
  | _ => false
  end.
Definition enc_inet (ip : bytes) : bytes := if is_v4_mapped ip then skipn 12 ip else ip.

Definition enc_varchar_list (l : list bytes) : bytes :=
  enc_int (Z.of_nat (length l)) ++ concat (map (fun s => enc_int (Z.of_nat (length s)) ++ s) l).

(** nameBasedUUID: version nibble 3, variant 10 *)
Definition uuid_of_md5 (d : bytes) : bytes :=
  match d with
  | b0 :: b1 :: b2 :: b3 :: b4 :: b5 :: b6 :: b7 :: b8 :: r =>
      b0 :: b1 :: b2 :: b3 :: b4 :: b5 :: (N.lor (N.land b6 15) 48) :: b7 :: (N.lor (N.land b8 63) 128) :: r
  | _ => d
  end.

Definition schema_version_uuid : bytes :=
  [79; 43; 41; 230; 89; 181; 78; 45; 143; 214; 1; 227; 46; 103; 240; 215].

(** ** selectors (parser.go): columns and values *)
Definition col := (bytes * coltype)%type.

Fixpoint find_col (cols : list col) (name : bytes) : option col :=
  match cols with
  | [] => None
  | c :: r => if bytes_eqb (fst c) name then Some c else find_col r name
  end.

Definition ct (s : String.string) : coltype := CT (str s).

Fixpoint selector_columns (table : bytes) (cols : list col) (s : selector) : option (list col) :=
  match s with
  | SelId name => option_map (fun c => [c]) (find_col cols name)
  | SelStar => Some cols
  | SelCount arg =>
      Some [(if bytes_eqb arg (str "*") then str "count" else str "system.count(" ++ lower arg ++ str ")", ct "int")]
  | SelNow => Some [(str "system.now()", ct "timeuuid")]
  | SelAlias inner alias => option_map (map (fun c => (alias, snd c))) (selector_columns table cols inner)
  end.

Fixpoint filter_columns (table : bytes) (cols : list col) (sels : list selector) : option (list col) :=
  match sels with
  | [] => Some []
  | s :: r =>
      match selector_columns table cols s, filter_columns table cols r with
      | Some a, Some b => Some (a ++ b)
      | _, _ => None
      end
  end.

(** a cell: Some bytes, or None for the time-dependent now() *)
Definition cell := option bytes.

Fixpoint star_values (value : bytes -> option bytes) (cols : list col) : option (list cell) :=
  match cols with
  | [] => Some []
  | c :: r =>
      match value (fst c), star_values value r with
      | Some v, Some l => Some (Some v :: l)
      | _, _ => None
      end
  end.

Fixpoint selector_values (cols : list col) (value : bytes -> option bytes) (s : selector) : option (list cell) :=
  match s with
  | SelId name => option_map (fun v => [Some v]) (value name)
  | SelStar => star_values value cols
  | SelCount _ => option_map (fun v => [Some v]) (value (str "count(*)"))
  | SelNow => Some [None]
  | SelAlias inner _ => selector_values cols value inner
  end.

Fixpoint filter_values (cols : list col) (value : bytes -> option bytes) (sels : list selector) : option (list cell) :=
  match sels with
  | [] => Some []
  | s :: r =>
      match selector_values cols value s, filter_values cols value r with
      | Some a, Some b => Some (a ++ b)
      | _, _ => None
      end
  end.

(** Proxy.systemLocalValues *)
Definition system_local_value (c : config) (local : node) (name : bytes) : option bytes :=
  if bytes_eqb name (str "key") then Some (str "local")
  else if bytes_eqb name (str "data_center") then Some (n_dc local)
  else if bytes_eqb name (str "rack") then Some (str "rack1")
  else if bytes_eqb name (str "tokens") then Some (enc_varchar_list (n_tokens local))
  else if bytes_eqb name (str "release_version") then Some (c_release c)
  else if bytes_eqb name (str "partitioner") then Some (c_partitioner c)
  else if bytes_eqb name (str "cluster_name") then Some (str "cql-proxy")
  else if bytes_eqb name (str "cql_version") then Some (c_cql c)
  else if bytes_eqb name (str "schema_version") then Some schema_version_uuid
  else if bytes_eqb name (str "native_protocol_version") then Some (print_N (c_version c))
  else if bytes_eqb name (str "dse_version") then Some (c_dse c)
  else None.

Definition local_value (c : config) (local : node) (name : bytes) : option bytes :=
  if bytes_eqb name (str "rpc_address") then Some (enc_inet (n_ip local))
  else if bytes_eqb name (str "host_id") then Some (uuid_of_md5 (n_md5 local))
  else match system_local_value c local name with
       | Some v => Some v
       | None => if bytes_eqb name (str "count(*)") then Some (enc_int 1) else None
       end.

Definition peer_value (c : config) (local peer : node) (peer_count : nat) (name : bytes) : option bytes :=
  if bytes_eqb name (str "data_center") then Some (n_dc peer)
  else if bytes_eqb name (str "host_id") then Some (uuid_of_md5 (n_md5 peer))
  else if bytes_eqb name (str "tokens") then Some (enc_varchar_list (n_tokens peer))
  else if bytes_eqb name (str "peer") then Some (enc_inet (n_ip peer))
  else if bytes_eqb name (str "rpc_address") then Some (enc_inet (n_ip peer))
  else match system_local_value c local name with
       | Some v => Some v
       | None => if bytes_eqb name (str "count(*)") then Some (enc_int (Z.of_nat peer_count)) else None
       end.

Inductive answer :=
| ARows (cols : list col) (rows : list (list cell))
| AInvalid                       (* an INVALID error: unknown column, unknown table, JSON/DISTINCT, ... *)
| ANotHandled.

Fixpoint all_some {A} (l : list (option A)) : option (list A) :=
  match l with
  | [] => Some []
  | Some x :: r => option_map (cons x) (all_some r)
  | None :: _ => None
  end.

Definition lookup_table (name : bytes) : option (list col) := assoc name system_columns_by_name.

(** client.interceptSystemQuery for a handled SELECT *)
Definition answer_select (c : config) (nodes : list node) (table : bytes) (sels : list selector) : answer :=
  let local := hd (c_local c) (filter n_local nodes) in
  if bytes_eqb table (str "local") then
    let cols := if match c_dse c with [] => false | _ => true end then cols_DseSystemLocalColumns else cols_SystemLocalColumns in
    match filter_columns table cols sels with
    | None => AInvalid
    | Some out =>
        match filter_values cols (local_value c local) sels with
        | None => AInvalid
        | Some row => ARows out [row]
        end
    end
  else if bytes_eqb table (str "peers") then
    let cols := if match c_dse c with [] => false | _ => true end then cols_DseSystemPeersColumns else cols_SystemPeersColumns in
    match filter_columns table cols sels with
    | None => AInvalid
    | Some out =>
        let peers := filter (fun n => negb (n_local n)) nodes in
        match all_some (map (fun p => filter_values cols (peer_value c local p (length nodes - 1)) sels) peers) with
        | None => AInvalid
        | Some rows => ARows out rows
        end
    end
  else
    match lookup_table table with
    | Some cols => ARows cols []
    | None => AInvalid
    end.

Definition answer_query (c : config) (q : bytes) : res answer :=
  match build_nodes c with
  | Ok nodes =>
      match is_query_handled empty_ident q with
      | (true, StSelect table sels, false) => Ok (answer_select c nodes table sels)
      | (true, _, true) => Ok AInvalid
      | _ => Ok ANotHandled
      end
  | Err e => Err e | Panic e => Panic e | OutOfFuel => OutOfFuel
  end.

(** ** rendering for the correspondence check *)
Fixpoint type_name (t : coltype) : bytes :=
  match t with
  | CT n => n
  | CSet e => str "set<" ++ type_name e ++ str ">"
  | CList e => str "list<" ++ type_name e ++ str ">"
  | CMap k v => str "map<" ++ type_name k ++ str "," ++ type_name v ++ str ">"
  end.

Definition node_of_val (v : val) : node :=
  {| n_ip := vB (nthv 0 v); n_zone := vB (nthv 1 v); n_dc := vB (nthv 2 v); n_tokens := map vB (vL (nthv 3 v));
     n_md5 := vB (nthv 4 v); n_local := false |}.

(** input  (has_rpc local_node (peer...) (cluster_dc release partitioner cql dse) version query)
    output (0) start-up refused | (1 ((name type)...) ((cell...)...)) | (2) invalid | (3) not handled
    a now() cell is rendered as the empty list *)
Definition config_of_val (input : val) : config :=
  let info := nthv 3 input in
  {| c_has_rpc := vbool (nthv 0 input); c_local := node_of_val (nthv 1 input); c_peers := map node_of_val (vL (nthv 2 input));
     c_cluster_dc := vB (nthv 0 info); c_release := vB (nthv 1 info); c_partitioner := vB (nthv 2 info);
     c_cql := vB (nthv 3 info); c_dse := vB (nthv 4 info); c_version := vN (nthv 4 input) |}.

(** the ring as one proxy presents it: (address, zone, data center, tokens, host id) of its own
    node and of its peers, in address order *)
Definition presented (nodes : list node) : list (bytes * bytes * bytes * list bytes * bytes) :=
  map (fun n => (n_ip n, n_zone n, n_dc n, n_tokens n, uuid_of_md5 (n_md5 n))) (sort_nodes nodes).

Definition view_of (shared : list node) (info : config) (self : node) : option (list (bytes * bytes * bytes * list bytes * bytes)) :=
  match build_nodes {| c_has_rpc := true; c_local := self; c_peers := shared; c_cluster_dc := c_cluster_dc info; c_release := c_release info;
                       c_partitioner := c_partitioner info; c_cql := c_cql info; c_dse := c_dse info; c_version := c_version info |} with
  | Ok nodes => Some (presented nodes)
  | _ => None
  end.

Fixpoint view_eqb (a b : list (bytes * bytes * bytes * list bytes * bytes)) : bool :=
  match a, b with
  | [], [] => true
  | (i1, z1, d1, t1, h1) :: a', (i2, z2, d2, t2, h2) :: b' =>
      bytes_eqb i1 i2 && bytes_eqb z1 z2 && bytes_eqb d1 d2 && list_eqb bytes_eqb t1 t2 && bytes_eqb h1 h2 && view_eqb a' b'
  | _, _ => false
  end.

(** do all members of a shared peer list present the same ring? *)
Definition views_agree (shared : list node) (info : config) : bool :=
  match map (view_of shared info) shared with
  | Some v :: rest => forallb (fun o => match o with Some w => view_eqb v w | None => false end) rest
  | _ => false
  end.

Definition cell_val (c : cell) : val := match c with Some b => B b | None => L [] end.

Definition run_c10 (input : val) : val :=
  if Z.eqb (vZ (nthv 0 input)) 10 then
    (* (10 (node...)): every member of the list runs a proxy whose peer list is the whole list *)
    let shared := map node_of_val (vL (nthv 1 input)) in
    L [Ibool (views_agree shared {| c_has_rpc := true; c_local := hd (node_of_val (L [])) shared; c_peers := []; c_cluster_dc := str "dc1";
                                    c_release := []; c_partitioner := []; c_cql := []; c_dse := []; c_version := 4 |})]
  else
  match answer_query (config_of_val input) (vB (nthv 5 input)) with
  | Ok (ARows cols rows) =>
      L [I 1; L (map (fun c => L [B (fst c); B (type_name (snd c))]) cols); L (map (fun r => L (map cell_val r)) rows)]
  | Ok AInvalid => L [I 2]
  | Ok ANotHandled => L [I 3]
  | _ => L [I 0]
  end.

(** property predicate: the model above *is* the statement of the configured / backend-derived
    facts, so for a handled SELECT any difference in metadata or cells is a violation; row
    count and row width are checked separately so that the message says what is wrong. *)
Definition holds_c10 (input output : val) : val :=
  if Z.eqb (vZ (nthv 0 input)) 10 then
    (if Z.eqb (vZ (nthv 0 output)) 1 then B [] else B (str "proxies-sharing-a-peer-list-present-different-rings"))
  else
  let c := config_of_val input in
  let q := vB (nthv 5 input) in
  let kind := vZ (nthv 0 output) in
  match build_nodes c, is_query_handled empty_ident q with
  | Ok nodes, (true, StSelect table sels, false) =>
      if negb (Z.eqb kind 1) then
        (if val_eqb output (run_c10 input) then B [] else B (str "handled-system-read-answered-differently"))
      else
        let cols := vL (nthv 1 output) in
        let rows := vL (nthv 2 output) in
        let expect_rows := if bytes_eqb table (str "local") then Some 1%nat
                           else if bytes_eqb table (str "peers") then Some (length nodes - 1)%nat else None in
        match expect_rows with
        | Some n =>
            if negb (Nat.eqb (length rows) n) then B (str "wrong-number-of-rows")
            else if negb (forallb (fun r => Nat.eqb (length (vL r)) (length cols)) rows) then B (str "row-width-differs-from-metadata")
            else if negb (val_eqb output (run_c10 input)) then B (str "columns-or-values-differ-from-the-configured-facts")
            else B []
        | None => if val_eqb output (run_c10 input) then B [] else B (str "columns-differ-from-the-table-definition")
        end
  | Ok _, _ => B []
  | _, _ => if Z.eqb kind 0 then B [] else B (str "inconsistent-configuration-accepted")
  end.
