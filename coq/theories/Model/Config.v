(** * Config: model of option-name parsing and start-up validation (property C20).

    Mirrors proxy/run.go: [parseProtocolVersion] (if-chain over the lower-cased string),
    [clWrapper.UnmarshalText] (switch over the lower-cased string) -- both tables are
    GENERATED from the Go source into [Gen.Tables] -- and the validation sequence of [Run]
    followed by [Proxy.buildNodes]. *)
From Coq Require Import List ZArith NArith Bool.
From CqlProxy Require Import Lib.Val Lib.Util Gen.Tables.
Import ListNotations.
Local Open Scope N_scope.

Definition parse_version (s : bytes) : option N := assoc (lower s) version_table.
Definition parse_consistency (s : bytes) : option N := assoc (lower s) consistency_table.

(** The documented spellings (README.md / flag help: "options: v3, v4, v5, DSEv1, DSEv2",
    numeric forms 3 4 5 65 66) and the native-protocol consistency codes. Hand-written from
    the documentation, NOT from the code: this is the specification side of C20. *)
Definition documented_versions : list (bytes * N) :=
  [ (str "3", 3); (str "v3", 3); (str "4", 4); (str "v4", 4); (str "5", 5); (str "v5", 5);
    (str "65", 65); (str "DSEv1", 65); (str "66", 66); (str "DSEv2", 66) ].

Definition documented_consistencies : list (bytes * N) :=
  [ (str "ANY", 0); (str "ONE", 1); (str "TWO", 2); (str "THREE", 3); (str "QUORUM", 4);
    (str "ALL", 5); (str "LOCAL_QUORUM", 6); (str "EACH_QUORUM", 7); (str "SERIAL", 8);
    (str "LOCAL_SERIAL", 9); (str "LOCAL_ONE", 10) ].

(** ** Start-up validation *)
Record peer_cfg := { p_has_rpc : bool; p_is_self : bool; p_has_tokens : bool }.

Record cfg := {
  c_backend : bool;            (* bundle, token or contact points given *)
  c_heartbeat : Z;             (* ns *)
  c_idle : Z;                  (* ns *)
  c_numconns : Z;
  c_version : bytes;
  c_maxversion : bytes;
  c_cls : list bytes;          (* unsupported-write-consistencies, as spelled *)
  c_override : bytes;          (* unsupported-write-consistency-override, as spelled *)
  c_rpc : bool;                (* rpc-address set *)
  c_tokens : bool;             (* tokens set for this proxy *)
  c_peers : list peer_cfg
}.

Record effective := {
  e_version : N; e_maxversion : N; e_numconns : Z; e_heartbeat : Z; e_idle : Z;
  e_cls : list N; e_override : N
}.

Fixpoint parse_cls (l : list bytes) : option (list N) :=
  match l with
  | [] => Some []
  | s :: r =>
      match parse_consistency s, parse_cls r with
      | Some v, Some t => Some (v :: t)
      | _, _ => None
      end
  end.

(** buildNodes: peers need an rpc-address for this proxy; every peer needs its own
    rpc-address; if this proxy has explicit tokens every non-self peer needs tokens.
    The loop returns at the first offending peer. *)
Fixpoint peers_ok (tokens : bool) (ps : list peer_cfg) : bool :=
  match ps with
  | [] => true
  | p :: r =>
      if negb (p_has_rpc p) then false
      else if p_is_self p then peers_ok tokens r
      else if tokens && negb (p_has_tokens p) then false
      else peers_ok tokens r
  end.

Definition build_nodes_ok (c : cfg) : bool :=
  (if negb (c_rpc c) then match c_peers c with [] => true | _ => false end else true)
  && peers_ok (c_tokens c) (c_peers c).

Definition validate (c : cfg) : option effective :=
  match parse_cls (c_cls c), parse_consistency (c_override c) with
  | Some cls, Some ov =>
      if negb (c_backend c) then None
      else if (c_heartbeat c >=? c_idle c)%Z then None
      else if (c_numconns c <? 1)%Z then None
      else match parse_version (c_version c), parse_version (c_maxversion c) with
           | Some v, Some m =>
               if m <? v then None
               else if negb (build_nodes_ok c) then None
               else Some {| e_version := v; e_maxversion := m; e_numconns := c_numconns c;
                            e_heartbeat := c_heartbeat c; e_idle := c_idle c;
                            e_cls := cls; e_override := ov |}
           | _, _ => None
           end
  | _, _ => None
  end.

(** ** Case decoding for the correspondence check.
    kinds:  (0 name)            -> parseProtocolVersion name      => (ok value)
            (1 name)            -> UnmarshalText name             => (ok value)
            (2 cfg...)          -> Run                            => (0) refused | (1 v m numconns cls ov) *)
Definition dec_peer (v : val) : peer_cfg :=
  {| p_has_rpc := vbool (nthv 0 v); p_is_self := vbool (nthv 1 v); p_has_tokens := vbool (nthv 2 v) |}.

Definition dec_cfg (v : val) : cfg :=
  {| c_backend := vbool (nthv 1 v);
     c_heartbeat := vZ (nthv 2 v);
     c_idle := vZ (nthv 3 v);
     c_numconns := vZ (nthv 4 v);
     c_version := vB (nthv 5 v);
     c_maxversion := vB (nthv 6 v);
     c_cls := map vB (vL (nthv 7 v));
     c_override := vB (nthv 8 v);
     c_rpc := vbool (nthv 9 v);
     c_tokens := vbool (nthv 10 v);
     c_peers := map dec_peer (vL (nthv 11 v)) |}.

(** What the harness can observe of an accepted configuration from outside: the backend
    protocol version, the largest version the gate accepts, the connections per host, and
    -- by sending one write per consistency level 0..10 -- which levels arrive changed and
    to what. *)
Definition observed_cls (cls : list N) (ov : N) : list N :=
  filter (fun l => existsb (N.eqb l) cls && negb (N.eqb l ov)) [0;1;2;3;4;5;6;7;8;9;10].

Definition eff_out (e : effective) : val :=
  let oc := observed_cls (e_cls e) (e_override e) in
  L [I 1; IN (e_version e); IN (e_maxversion e); I (e_numconns e); L (map IN oc);
     IN (match oc with [] => 0 | _ => e_override e end)].

(** (3 rpc tokens peers): buildNodes called directly *)
Definition dec_bn (v : val) : cfg :=
  {| c_backend := true; c_heartbeat := 0; c_idle := 1; c_numconns := 1; c_version := []; c_maxversion := [];
     c_cls := []; c_override := []; c_rpc := vbool (nthv 1 v); c_tokens := vbool (nthv 2 v);
     c_peers := map dec_peer (vL (nthv 3 v)) |}.

Definition opt_out (o : option N) : val :=
  match o with Some v => L [I 1; IN v] | None => L [I 0; I 0] end.

Definition run_c20 (input : val) : val :=
  match vZ (nthv 0 input) with
  | 0%Z => opt_out (parse_version (vB (nthv 1 input)))
  | 1%Z => opt_out (parse_consistency (vB (nthv 1 input)))
  | 3%Z => L [Ibool (build_nodes_ok (dec_bn input))]
  | _ =>
      match validate (dec_cfg input) with
      | None => L [I 0]
      | Some e => eff_out e
      end
  end.

(** The property predicate on an observed implementation output (independent of the
    generated tables): a documented spelling must select the documented value, an
    undocumented one must be refused; for [Run] cases the observed output must be what the
    *documented* tables prescribe. Returns [B []] when it holds, a reason key otherwise. *)
Definition doc_version (s : bytes) : option N := assoc (lower s) (map (fun '(k, v) => (lower k, v)) documented_versions).
Definition doc_consistency (s : bytes) : option N := assoc (lower s) (map (fun '(k, v) => (lower k, v)) documented_consistencies).

Definition validate_doc (c : cfg) : option effective :=
  let fix pcls (l : list bytes) : option (list N) :=
    match l with
    | [] => Some []
    | s :: r => match doc_consistency s, pcls r with Some v, Some t => Some (v :: t) | _, _ => None end
    end in
  match pcls (c_cls c), doc_consistency (c_override c) with
  | Some cls, Some ov =>
      if negb (c_backend c) then None
      else if (c_heartbeat c >=? c_idle c)%Z then None
      else if (c_numconns c <? 1)%Z then None
      else match doc_version (c_version c), doc_version (c_maxversion c) with
           | Some v, Some m =>
               if m <? v then None
               else if negb (build_nodes_ok c) then None
               else Some {| e_version := v; e_maxversion := m; e_numconns := c_numconns c;
                            e_heartbeat := c_heartbeat c; e_idle := c_idle c;
                            e_cls := cls; e_override := ov |}
           | _, _ => None
           end
  | _, _ => None
  end.

Definition holds_c20 (input output : val) : val :=
  let expect :=
    match vZ (nthv 0 input) with
    | 0%Z => opt_out (doc_version (vB (nthv 1 input)))
    | 1%Z => opt_out (doc_consistency (vB (nthv 1 input)))
    | 3%Z => L [Ibool (build_nodes_ok (dec_bn input))]
    | _ => match validate_doc (dec_cfg input) with
           | None => L [I 0]
           | Some e => eff_out e
           end
    end in
  if val_eqb expect output then B []
  else match vZ (nthv 0 input) with
       | 0%Z => B (str "version-name:" ++ lower (vB (nthv 1 input)))
       | 1%Z => B (str "consistency-name:" ++ lower (vB (nthv 1 input)))
       | 3%Z => B (str "build-nodes")
       | _ => B (str "run-config")
       end.
