(** * Locksets: lock discipline and data-race freedom.  Property C18.

    Traces of lock acquisitions, releases and variable accesses by threads (goroutines).
    Locks have two modes, shared (RLock) and exclusive (Lock; a plain Mutex only has this one).
    Happens-before is program order plus the edges the Go memory model gives for sync.Mutex
    and sync.RWMutex: a release happens before a later acquisition of the same lock unless
    both are shared. *)
From Coq Require Import List Arith Bool Lia.
Import ListNotations.

Inductive mode := Sh | Ex.
Definition compatible (m1 m2 : mode) : bool := match m1, m2 with Sh, Sh => true | _, _ => false end.

Definition hold := (nat * nat * mode)%type.   (* thread, lock, mode *)

Inductive ev :=
| Acq (h : hold)
| Rel (h : hold)
| Acc (t : nat) (x : nat) (w : bool).   (* w = true: a write *)

Definition thread_of (e : ev) : nat :=
  match e with Acq (t, _, _) | Rel (t, _, _) => t | Acc t _ _ => t end.

Definition mode_eqb (a b : mode) : bool := match a, b with Sh, Sh | Ex, Ex => true | _, _ => false end.
Definition hold_eqb (a b : hold) : bool :=
  let '(t1, l1, m1) := a in let '(t2, l2, m2) := b in (t1 =? t2) && (l1 =? l2) && mode_eqb m1 m2.

Definition lock_of (h : hold) : nat := snd (fst h).
Definition mode_of (h : hold) : mode := snd h.

(** a lock can be taken in mode m when every current hold of it is compatible with m *)
Definition can_acquire (hs : list hold) (h : hold) : bool :=
  forallb (fun h' => if lock_of h' =? lock_of h then compatible (mode_of h) (mode_of h') else true) hs.

Fixpoint remove_one (h : hold) (hs : list hold) : list hold :=
  match hs with
  | [] => []
  | h' :: r => if hold_eqb h h' then r else h' :: remove_one h r
  end.

Definition step (hs : list hold) (e : ev) : option (list hold) :=
  match e with
  | Acq h => if can_acquire hs h then Some (h :: hs) else None
  | Rel h => if existsb (hold_eqb h) hs then Some (remove_one h hs) else None
  | Acc _ _ _ => Some hs
  end.

Fixpoint run (hs : list hold) (tr : list ev) : option (list hold) :=
  match tr with
  | [] => Some hs
  | e :: r => match step hs e with Some hs' => run hs' r | None => None end
  end.

(** happens-before on positions of a trace *)
Inductive hb (tr : list ev) : nat -> nat -> Prop :=
| hb_po i j e1 e2 : i < j -> nth_error tr i = Some e1 -> nth_error tr j = Some e2 -> thread_of e1 = thread_of e2 -> hb tr i j
| hb_sync i j h1 h2 : i < j -> nth_error tr i = Some (Rel h1) -> nth_error tr j = Some (Acq h2) ->
                      lock_of h1 = lock_of h2 -> compatible (mode_of h1) (mode_of h2) = false -> hb tr i j
| hb_trans i j k : hb tr i j -> hb tr j k -> hb tr i k.

(** the discipline: every access to x happens while its thread holds guard x, exclusively for a write *)
Definition disciplined (guard : nat -> nat) (tr : list ev) : Prop :=
  forall i t x w, nth_error tr i = Some (Acc t x w) ->
    exists hs m, run [] (firstn i tr) = Some hs /\ In (t, guard x, m) hs /\ (w = true -> m = Ex).

(** ** the static side: access sites extracted from the source, each with the locks its
    function holds there; the check that every site of a guarded variable holds the guard *)
Record site := { s_var : nat; s_write : bool; s_held : list (nat * mode); s_where : nat }.
Definition site_ok (guard : nat -> nat) (s : site) : bool :=
  existsb (fun lm => (fst lm =? guard (s_var s)) && (if s_write s then mode_eqb (snd lm) Ex else true)) (s_held s).
Definition sites_ok (guard : nat -> nat) (ss : list site) : bool := forallb (site_ok guard) ss.
