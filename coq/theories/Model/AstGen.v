(** * AstGen: a deterministic sampler of the syntax of Model/Ast.v (seed -> statement), a canonical
    text printer for token lists, and the correspondence entry [run_c06ast].  Definitions only. *)
From Coq Require Import List ZArith NArith Bool.
From CqlProxy Require Import Lib.Val Lib.Util Lib.Regex Gen.LexRules Gen.Tables Model.Lexer Model.Parser Model.Ast Model.Layout.
Import ListNotations.
Local Open Scope N_scope.

(** ** canonical spelling of tokens: identifiers print their text, every other token the spelling
    below; tokens are separated by one blank *)
Definition spelling_table : list (N * String.string) :=
  [ (tkSelect, "SELECT"); (tkInsert, "INSERT"); (tkUpdate, "UPDATE"); (tkDelete, "DELETE"); (tkBegin, "BEGIN");
    (tkApply, "APPLY"); (tkBatch, "BATCH"); (tkCreate, "CREATE"); (tkAlter, "ALTER"); (tkDrop, "DROP");
    (tkInto, "INTO"); (tkFrom, "FROM"); (tkUse, "USE"); (tkUsing, "USING"); (tkIf, "IF"); (tkWhere, "WHERE");
    (tkAnd, "AND"); (tkToken, "TOKEN"); (tkIs, "IS"); (tkIn, "IN"); (tkNot, "NOT"); (tkStar, "*"); (tkComma, ",");
    (tkDot, "."); (tkColon, ":"); (tkQMark, "?"); (tkEqual, "="); (tkAdd, "+"); (tkSub, "-"); (tkAddEqual, "+=");
    (tkSubEqual, "-="); (tkNotEqual, "!="); (tkGt, ">"); (tkLt, "<"); (tkLtEqual, "<="); (tkGtEqual, ">=");
    (tkLparen, "("); (tkRparen, ")"); (tkLsquare, "["); (tkRsquare, "]"); (tkLcurly, "{"); (tkRcurly, "}");
    (tkInteger, "42"); (tkFloat, "1.5"); (tkBool, "true"); (tkNull, "null"); (tkStringLiteral, "'it''s'");
    (tkHexNumber, "0xCAFE"); (tkUuid, "01234567-89ab-cdef-0123-456789abcdef"); (tkDuration, "1h30m");
    (tkNan, "NaN"); (tkInfinity, "-Infinity"); (tkEOS, ";") ]%string.

Fixpoint spelling_in (t : list (N * String.string)) (c : N) : bytes :=
  match t with
  | [] => str "\"   (* no spelling: a byte the lexer reports as tkInvalid *)
  | (c', s) :: r => if c =? c' then str s else spelling_in r c
  end.
Definition spelling (c : N) : bytes := spelling_in spelling_table c.

Definition text_of_tok (t : tok) : bytes := if t_code t =? tkIdentifier then t_text t else spelling (t_code t).
Fixpoint text_of_tokens (l : list tok) : bytes :=
  match l with
  | [] => []
  | [a] => text_of_tok a
  | a :: r => text_of_tok a ++ 32 :: text_of_tokens r
  end.

(** ** the sampler: a 64-bit linear congruential generator, choices from the high bits *)
Definition lcg (s : N) : N := (s * 6364136223846793005 + 1442695040888963407) mod 18446744073709551616.
Definition pick (s : N) (k : N) : N := (s / 4294967296) mod k.
Definition pickn (s : N) (k : N) : nat := N.to_nat (pick s k).

Definition nth_str (l : list String.string) (i : nat) : bytes := str (nth i l "x"%string).

Definition col_names : list String.string := ["a"; "b"; "c1"; "Col_2"; """Q q"""; "k"; "v"; "ttl"]%string.
Definition fun_names : list String.string :=
  ["now"; "uuid"; "NOW"; "Uuid"; """now"""; """Now"""; "f"; "toDate"; "key"; "blobAsInt"; "now"; "uuid"]%string.
Definition ks_names : list String.string := ["system"; "SYSTEM"; """system"""; """System"""; "ks"; """"""]%string.
Definition type_names : list String.string := ["int"; "text"; "map"; "frozen"; "list"]%string.

Definition gen_col (s : N) : bytes := nth_str col_names (pickn s 8).
Definition gen_ks (s : N) : option bytes := if pick s 2 =? 0 then None else Some (nth_str ks_names (pickn (lcg s) 6)).
Definition gen_bind (s : N) : bindm := if pick s 2 =? 0 then BQ else BN (gen_col (lcg s)).
Definition gen_prim (s : N) : N := nth (pickn s 9) prim_codes tkNull.

Fixpoint gen_cols (cnt : nat) (s : N) : list bytes :=
  match cnt with O => [] | S c => gen_col s :: gen_cols c (lcg s) end.

Definition gen_ctype (s : N) : ctype :=
  if pick s 2 =? 0 then CSimple (nth_str type_names (pickn (lcg s) 5))
  else CParam (nth_str type_names (pickn (lcg s) 5)) (map (fun c => nth_str type_names (pickn (N.of_nat (length c)) 5)) (gen_cols (pickn (lcg (lcg s)) 3) s)).

Definition gen_atom (s : N) : term :=
  match pick s 4 with
  | 0 => TInt
  | 1 => TPrim (gen_prim (lcg s))
  | 2 => TBind (gen_bind (lcg s))
  | _ => TFun (gen_ks (lcg s)) (nth_str fun_names (pickn (lcg (lcg s)) 12)) ANil
  end.

Fixpoint gen_terms_with (g : N -> term * N) (cnt : nat) (s : N) : terms * N :=
  match cnt with
  | O => (TNil, s)
  | S c => let '(e, s1) := g s in let '(r, s2) := gen_terms_with g c s1 in (TCons e r, s2)
  end.
Fixpoint gen_entries_with (g : N -> term * N) (cnt : nat) (s : N) : entries * N :=
  match cnt with
  | O => (ENil, s)
  | S c => let '(k, s1) := g s in let '(v, s2) := g s1 in let '(r, s3) := gen_entries_with g c s2 in (ECons k v r, s3)
  end.
Fixpoint gen_fields_with (g : N -> term * N) (cnt : nat) (s : N) : fields * N :=
  match cnt with
  | O => (FNil, s)
  | S c => let '(v, s1) := g s in let '(r, s2) := gen_fields_with g c s1 in (FCons (gen_col s) v r, s2)
  end.
Fixpoint gen_fargs_with (g : N -> term * N) (cnt : nat) (s : N) : fargs * N :=
  match cnt with
  | O => (ANil, s)
  | S c =>
      if pick s 3 =? 0 then let '(r, s2) := gen_fargs_with g c (lcg s) in (AIdent (gen_col s) r, s2)
      else let '(e, s1) := g s in let '(r, s2) := gen_fargs_with g c s1 in (ATerm e r, s2)
  end.

(** a tuple whose first element is a function call is not well-formed (W3): repaired 7 times out of 8 *)
Definition fix_tuple (s : N) (es : terms) : terms :=
  match es with
  | TCons (TFun _ _ _) r => if pick s 8 =? 0 then es else TCons TInt es
  | _ => es
  end.

Fixpoint gen_term (fuel : nat) (s0 : N) : term * N :=
  let s := lcg s0 in
  match fuel with
  | O => (gen_atom s, lcg s)
  | S f =>
      let g := gen_term f in
      let cnt := pickn (lcg s) 4 in
      match pick s 12 with
      | 0 | 1 | 2 => (gen_atom (lcg s), lcg (lcg s))
      | 3 => let '(es, s1) := gen_terms_with g cnt (lcg s) in (TList es, s1)
      | 4 => let '(es, s1) := gen_terms_with g cnt (lcg s) in (TSet es, s1)
      | 5 => let '(kvs, s1) := gen_entries_with g cnt (lcg s) in (TMap kvs, s1)
      | 6 => let '(fs, s1) := gen_fields_with g cnt (lcg s) in (TUdt fs, s1)
      | 7 => let '(es, s1) := gen_terms_with g cnt (lcg s) in (TTuple (fix_tuple (lcg (lcg s)) es), s1)
      | 8 => let '(t, s1) := g (lcg s) in (TCast (gen_ctype (lcg (lcg s))) t, s1)
      | _ =>
          let '(a, s1) := gen_fargs_with g cnt (lcg s) in
          (TFun (gen_ks (lcg s)) (nth_str fun_names (pickn (lcg (lcg s)) 12)) a, s1)
      end
  end.

Definition term_fuel (s : N) : nat := pickn s 5.
Definition gen_t (s : N) : term * N := gen_term (term_fuel s) (lcg s).
Definition gen_ts (s : N) : terms * N := gen_terms_with gen_t (pickn s 4) (lcg s).

Definition gen_relop (s : N) : relop :=
  match pick s 6 with 0 => OEq | 1 => OLt | 2 => OLe | 3 => OGt | 4 => OGe | _ => ONe end.
Definition gen_oprel (s : N) : option relop := if pick s 3 =? 0 then None else Some (gen_relop (lcg s)).

Fixpoint gen_relation (fuel : nat) (s0 : N) : relation * N :=
  let s := lcg s0 in
  let c := gen_col s in
  let k := match fuel with O => pick s 10 | S _ => pick s 12 end in
  match k with
  | 0 | 1 => let '(t, s1) := gen_t (lcg s) in (RCmp c (gen_relop (lcg (lcg s))) t, s1)
  | 2 => let '(es, s1) := gen_ts (lcg s) in (RIn c es, s1)
  | 3 => (RInBind c (gen_bind (lcg s)), lcg s)
  | 4 => let '(t, s1) := gen_t (lcg s) in (RContains c (pick (lcg s) 2 =? 0) t, s1)
  | 5 => let '(t, s1) := gen_t (lcg s) in (RLike c t, s1)
  | 6 => (RIsNotNull c, lcg s)
  | 7 => let '(i, s1) := gen_t (lcg s) in let '(t, s2) := gen_t s1 in (RIndex c i (gen_relop (lcg (lcg s))) t, s2)
  | 8 => let '(t, s1) := gen_t (lcg s) in (RToken (gen_cols (pickn (lcg s) 3) s) (gen_relop (lcg (lcg s))) t, s1)
  | 9 =>
      let cols := gen_cols (S (pickn (lcg s) 2)) s in
      if pick (lcg s) 4 =? 0 then (RTupleBind cols (gen_oprel (lcg (lcg s))) (gen_bind (lcg s)), lcg s)
      else let '(es, s1) := gen_ts (lcg s) in (RTuple cols (gen_oprel (lcg (lcg s))) es, s1)
  | _ => match fuel with
         | O => (RIsNotNull c, lcg s)
         | S f => let '(r, s1) := gen_relation f (lcg s) in (RParen r, s1)
         end
  end.

Fixpoint gen_list {A} (g : N -> A * N) (cnt : nat) (s : N) : list A * N :=
  match cnt with
  | O => ([], s)
  | S c => let '(a, s1) := g s in let '(r, s2) := gen_list g c s1 in (a :: r, s2)
  end.

Definition gen_where (s : N) : list relation * N := gen_list (gen_relation 2) (pickn s 3) (lcg s).

Definition gen_update_op (s0 : N) : update_op * N :=
  let s := lcg s0 in
  let c := gen_col s in
  let d := if pick (lcg s) 4 =? 0 then gen_col (lcg s) else c in
  let '(t, s1) := gen_t (lcg s) in
  match pick s 9 with
  | 0 | 1 => (USet c t, s1)
  | 2 => (UAdd c d t, s1)
  | 3 => (USub c d t, s1)
  | 4 => (UPrepend c t d, s1)
  | 5 => (UAddEq c t, s1)
  | 6 => (USubEq c t, s1)
  | 7 => let '(i, s2) := gen_t s1 in (UIndex c i t, s2)
  | _ => (UField c (gen_col (lcg (lcg s))) t, s1)
  end.

Definition gen_delete_op (s0 : N) : delete_op * N :=
  let s := lcg s0 in
  let c := gen_col s in
  match pick s 4 with
  | 0 | 1 => (DCol c, lcg s)
  | 2 => let '(i, s1) := gen_t (lcg s) in (DIndex c i, s1)
  | _ => (DField c (gen_col (lcg s)), lcg s)
  end.

Definition gen_uval (s : N) : uval := if pick s 2 =? 0 then UVInt else UVBind (gen_bind (lcg s)).
Definition gen_uitem (s : N) : using_item := if pick s 2 =? 0 then UTtl (gen_uval (lcg s)) else UTimestamp (gen_uval (lcg s)).
Definition gen_using (s : N) : usingc :=
  match pick s 4 with
  | 0 | 1 => None
  | 2 => Some (gen_uitem (lcg s), None)
  | _ => Some (gen_uitem (lcg s), Some (gen_uitem (lcg (lcg s))))
  end.

Definition gen_if (s : N) : ifclause :=
  match pick s 12 with
  | 0 => Some [tki (str "EXISTS")]
  | 1 => Some [tk tkNot; tki (str "EXISTS")]
  | 2 => Some [tki (str "a"); tk tkEqual; tk tkInteger]
  | _ => None
  end.

Definition gen_qname (s : N) : qname :=
  (if pick s 2 =? 0 then None else Some (str "ks"), nth_str ["t"; "tbl"; """T"""; "json"]%string (pickn (lcg s) 4)).

Definition gen_dml (s0 : N) : dml * N :=
  let s := lcg s0 in
  let q := gen_qname (lcg s) in
  let u := gen_using (lcg (lcg s)) in
  let ifc := gen_if (lcg (lcg (lcg s))) in
  let semi := pick (lcg (lcg (lcg (lcg s)))) 2 =? 0 in
  match pick s 7 with
  | 0 | 1 => let '(vals, s1) := gen_ts (lcg s) in (DInsert q (gen_cols (pickn (lcg s) 4) s) vals ifc u semi, s1)
  | 2 => (DInsertJson q (if pick (lcg s) 2 =? 0 then JString else JBind (gen_bind s)) ifc u semi, lcg (lcg s))
  | 3 | 4 =>
      let '(ops, s1) := gen_list gen_update_op (S (pickn (lcg s) 3)) (lcg s) in
      let '(w, s2) := gen_where s1 in (DUpdate q u ops w ifc semi, s2)
  | _ =>
      let '(ops, s1) := gen_list gen_delete_op (pickn (lcg s) 3) (lcg s) in
      let '(w, s2) := gen_where s1 in (DDelete ops q u w ifc semi, s2)
  end.

Definition gen_stmt (seed : N) : stmt :=
  let s := lcg (lcg (seed + 12345)) in
  match pick s 8 with
  | 0 => SSelect [tk tkStar; tk tkFrom; tki (str "t"); tk tkWhere; tki (str "k"); tk tkEqual; tki (str "now"); tk tkLparen; tk tkRparen]
  | 1 | 2 =>
      let k := match pick (lcg s) 6 with 0 => BCounter | 1 | 2 => BUnlogged | _ => BLogged end in
      let '(ch, s1) := gen_list gen_dml (pickn (lcg (lcg s)) 4) (lcg s) in
      SBatch k (gen_using s1) ch (pick s1 2 =? 0)
  | _ => SDml (fst (gen_dml s))
  end.

Definition Ib (b : bool) : val := I (if b then 1 else 0)%Z.

(** correspondence entry: text, tokens, documented verdict, classifier verdict on syntax, plain, wf *)
Definition run_c06ast (seed : N) : val :=
  let st := gen_stmt seed in
  let ts := tokens_of_stmt st in
  L [B (text_of_tokens ts); L (map tok_val ts); Ib (doc_idem_stmt st); Ib (cls_stmt st); Ib (plain_stmt st); Ib (wf_stmt_b st)].

(** ** correspondence entry for statements generated from the syntax.
    input  (2 seed variant-text)    variant-text: the canonical text or a re-spelling of it
    output ((idem err) ((code text)...))   the implementation's verdict and its token stream
    The model answers with the classifier model run on the variant text and the tokens the
    printer emits; when the lexer model applied to the canonical text does not return the printed
    tokens, or the parser model disagrees with [cls_stmt] on a well-formed statement, the answer is
    a marker (the development is inconsistent with itself). *)
Definition run_c06_ast (input : val) : val :=
  let st := gen_stmt (vN (nthv 1 input)) in
  let ts := tokens_of_stmt st in
  let text := vB (nthv 2 input) in
  let '(idem, err) := is_query_idempotent text in
  let canon := is_idempotent_tokens ts in
  if negb (list_eqb (fun a b => val_eqb (tok_val a) (tok_val b)) (tokenize (text_of_tokens ts)) ts) then L [B (str "printer-and-lexer-model-disagree")]
  else if wf_stmt_b st && negb (Bool.eqb (fst canon) (cls_stmt st)) then L [B (str "parser-model-and-syntax-verdict-disagree")]
  (* the side condition of the layout theorem (Props/C06layout.v) holds for the text the printer emits: every re-layout of
     its lexemes -- any blank runs between, before and after them -- has the same tokens and the same verdict *)
  else if bytes_eqb text (text_of_tokens ts) && negb (layout_ok_text_fast text) then L [B (str "layout-side-condition-fails-for-a-generated-statement")]
  else L [L [Ib idem; Ib (negb (err =? 0))]; L (map tok_val (tokenize text))].

(** a re-spelling may change the letter case of keywords and of unquoted identifiers only *)
Definition tokv_equiv (a b : val) : bool :=
  Z.eqb (vZ (nthv 0 a)) (vZ (nthv 0 b)) &&
  (let x := vB (nthv 1 a) in let y := vB (nthv 1 b) in
   bytes_eqb x y || (match x with 34 :: _ => false | _ => true end && bytes_eqb (lower x) (lower y))).

(** ... and add or drop the trailing semicolon *)
Fixpoint drop_trailing_eos (l : list val) : list val :=
  match l with
  | [] => []
  | x :: r => match drop_trailing_eos r with
              | [] => if Z.eqb (vZ (nthv 0 x)) (Z.of_N tkEOS) then [] else [x]
              | r' => x :: r'
              end
  end.

(** property predicate: sound against the documented ground truth, plain statements accepted *)
Definition holds_c06_ast (input output : val) : val :=
  let st := gen_stmt (vN (nthv 1 input)) in
  let idem := vZ (nthv 0 (nthv 0 output)) in
  if negb (Z.eqb idem 0 || Z.eqb idem 1) then B (str "classifier-crashed-or-hung")
  else if Z.eqb idem 1 && negb (doc_idem_stmt st) then B (str "non-idempotent-statement-classified-idempotent")
  else if Z.eqb idem 0 && wf_stmt_b st && plain_stmt st then B (str "plain-mutation-not-classified-idempotent")
  else if negb (list_eqb tokv_equiv (drop_trailing_eos (vL (nthv 1 output))) (drop_trailing_eos (map tok_val (tokens_of_stmt st)))) then B (str "statement-text-does-not-lex-to-its-tokens-verdict-may-change-with-spelling")
  else B [].
