(** * Adapt: the cached PREPARE frame made ready for a connection of another protocol version
    (proxycore/clientconn.go adaptPrepareFrame, as repaired by e2b8310).

    A frame is what matters of it here: its version, whether it carries a custom payload (legal from version 4 on; the
    DSE versions 65 and 66 count as later ones), whether it asks for tracing, and the statement.  The codec refuses to
    encode a payload in a frame of a version before 4.  [orig = true]: the code before the repair, which re-encoded the
    frame payload and all.

    Property C08: the proxy re-prepares the ORIGINAL statement on whichever connection the EXECUTE was sent on. *)
From Coq Require Import Arith Bool Lia.

Record pframe := { pver : nat; payload : bool; tracing : bool; query : nat }.

Definition encodable (f : pframe) : bool := negb (payload f) || Nat.leb 4 (pver f).

Definition adapt (orig : bool) (v : nat) (f : pframe) : option pframe :=
  if Nat.eqb (pver f) v then Some f
  else
    let g := {| pver := v; payload := (if orig then payload f else payload f && Nat.leb 4 v);
                tracing := tracing f; query := query f |} in
    if encodable g then Some g else None.
