(** * Frame: the native-protocol frame header as go-cassandra-native-protocol's
    frame.DecodeHeader / EncodeHeader / DecodeRawFrame / EncodeRawFrame treat it, and the
    proxy's raw forwarding of requests (requestSender.Send) and responses (request.sendRaw).
    Properties C03 (this file), C12 (Model/Override.v) and C13 (Model/Gate.v) build on it. *)
From Coq Require Import List ZArith NArith Bool Lia.
From CqlProxy Require Import Lib.Val Lib.Util Lib.Wire.
Import ListNotations.
Local Open Scope N_scope.

Record header := {
  h_version : N;     (* 7 bits *)
  h_resp : bool;     (* direction bit *)
  h_flags : N;       (* one byte *)
  h_stream : N;      (* the stream id as the unsigned 16-bit (8-bit for v2) pattern on the wire *)
  h_opcode : N;
  h_len : Z          (* int32 body length *)
}.

(** primitive.SupportedProtocolVersions: 2, 3, 4, 5, DSEv1 (65), DSEv2 (66) *)
Definition version_supported (v : N) : bool :=
  (v =? 2) || (v =? 3) || (v =? 4) || (v =? 5) || (v =? 65) || (v =? 66).

Definition opcode_is_request (o : N) : bool :=
  (o =? 1) || (o =? 5) || (o =? 7) || (o =? 9) || (o =? 10) || (o =? 11) || (o =? 13) || (o =? 15) || (o =? 255).
Definition opcode_is_response (o : N) : bool :=
  (o =? 0) || (o =? 2) || (o =? 3) || (o =? 6) || (o =? 8) || (o =? 12) || (o =? 14) || (o =? 16).

Inductive hdr_err := HBadVersion (v : N) | HShort | HBadOpcode | HWrongDirection.

(** frame.DecodeHeader.  The version check comes right after the flags byte; the opcode
    checks after the whole header has been read. *)
Definition decode_header (b : bytes) : hdr_err + (header * bytes) :=
  match b with
  | vd :: fl :: r =>
      let v := vd mod 128 in
      let resp := 128 <=? vd in
      if negb (version_supported v) then inl (HBadVersion v)
      else
        let after (stream : N) (r' : bytes) :=
          match r' with
          | op :: r'' =>
              match read_int r'' with
              | Some (len, body) =>
                  if negb (opcode_is_request op || opcode_is_response op) then inl HBadOpcode
                  else if resp && negb (opcode_is_response op) then inl HWrongDirection
                  else if negb resp && negb (opcode_is_request op) then inl HWrongDirection
                  else inr ({| h_version := v; h_resp := resp; h_flags := fl; h_stream := stream;
                               h_opcode := op; h_len := len |}, body)
              | None => inl HShort
              end
          | [] => inl HShort
          end in
        if 3 <=? v then
          match r with
          | s1 :: s2 :: r' => after (s1 * 256 + s2) r'
          | _ => inl HShort
          end
        else
          match r with
          | s1 :: r' => after s1 r'
          | _ => inl HShort
          end
  | _ => inl HShort
  end.

Definition encode_header (h : header) : bytes :=
  [h_version h + (if h_resp h then 128 else 0); h_flags h] ++
  (if 3 <=? h_version h then enc_short (h_stream h) else enc_byte (h_stream h)) ++
  [h_opcode h] ++ enc_int (h_len h).

Record raw_frame := { rf_header : header; rf_body : bytes }.

(** frame.DecodeRawFrame: header, then exactly [h_len] body bytes *)
Definition decode_raw_frame (b : bytes) : option (raw_frame * bytes) :=
  match decode_header b with
  | inr (h, r) =>
      if (h_len h <? 0)%Z then None
      else match get_z (h_len h) r with
           | Some (body, rest) => Some ({| rf_header := h; rf_body := body |}, rest)
           | None => None
           end
  | inl _ => None
  end.

(** frame.EncodeRawFrame: the length field is recomputed from the body *)
Definition encode_raw_frame (f : raw_frame) : bytes :=
  let h := rf_header f in
  encode_header {| h_version := h_version h; h_resp := h_resp h; h_flags := h_flags h; h_stream := h_stream h;
                   h_opcode := h_opcode h; h_len := Z.of_nat (length (rf_body f)) |} ++ rf_body f.

Definition with_stream (f : raw_frame) (s : N) : raw_frame :=
  let h := rf_header f in
  {| rf_header := {| h_version := h_version h; h_resp := h_resp h; h_flags := h_flags h; h_stream := s;
                     h_opcode := h_opcode h; h_len := h_len h |};
     rf_body := rf_body f |}.

(** What the proxy writes when it forwards a raw frame: requestSender.Send sets the backend
    stream id and calls EncodeRawFrame; request.sendRaw sets the client's stream id and calls
    EncodeRawFrame.  [s] is the 16-bit pattern of the new stream id. *)
Definition forward (f : raw_frame) (s : N) : bytes := encode_raw_frame (with_stream f s).

(** The bytes of a frame with the stream id bytes replaced (the specification of forwarding). *)
Definition replace_stream (b : bytes) (s : N) : bytes :=
  firstn 2 b ++ enc_short s ++ skipn 4 b.

(** ** correspondence entry point for C03
    input  (frame_bytes new_stream)   one complete v3+ frame as it arrived at the proxy
    output (forwarded_bytes) or () when the frame does not decode *)
Definition run_c03 (input : val) : val :=
  let b := vB (nthv 0 input) in
  let s := vN (nthv 1 input) in
  match decode_raw_frame b with
  | Some (f, []) => L [B (forward f s)]
  | _ => L []
  end.

(** property predicate: what left the proxy equals what arrived, except bytes 2-3 *)
Definition holds_c03 (input output : val) : val :=
  let b := vB (nthv 0 input) in
  let s := vN (nthv 1 input) in
  match vL output with
  | [B out] => if bytes_eqb out (replace_stream b s) then B [] else B (str "forwarded-bytes-differ-beyond-stream-id")
  | _ => B (str "well-formed-frame-not-forwarded")
  end.
