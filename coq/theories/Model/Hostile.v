(** * Hostile: the places where the proxy applies a partial Go operation (indexing, slicing) to
    bytes an untrusted peer controls, written with the partiality explicit.  Property C17.

    A panic on a connection's goroutine is not recovered anywhere: it terminates the process
    for every client.  The decoders of the other models (Codec.v, Frame.v, Gate.v) return
    errors for short or malformed input; what remains is collected here. *)
From Coq Require Import List ZArith NArith Bool Lia.
From CqlProxy Require Import Lib.Val Lib.Util Gen.Tables Model.Lexer Model.Parser.
Import ListNotations.
Local Open Scope Z_scope.

Definition zlen (s : bytes) : Z := Z.of_nat (length s).

(** s[i] *)
Definition go_index (s : bytes) (i : Z) : res N :=
  if (0 <=? i) && (i <? zlen s) then Ok (nth (Z.to_nat i) s 0%N) else Panic (str "index out of range").

(** s[lo:hi] *)
Definition go_slice (s : bytes) (lo hi : Z) : res bytes :=
  if (0 <=? lo) && (lo <=? hi) && (hi <=? zlen s) then Ok (firstn (Z.to_nat (hi - lo)) (skipn (Z.to_nat lo) s))
  else Panic (str "slice bounds out of range").

(** parser.IdentifierFromString as written: l := len(id); if l > guard and id[0] is a double quote
    then Identifier{id[1 : l-1], false} else Identifier{id, true}.  [guard] is read from the source
    (Gen.Tables.identifier_quote_guard). *)
Definition identifier_from_string_with (guard : Z) (id : bytes) : res ident :=
  let l := zlen id in
  if l >? guard then
    do c <- go_index id 0;
    if (c =? 34)%N then do s <- go_slice id 1 (l - 1); Ok {| i_id := s; i_ic := false |}
    else Ok {| i_id := id; i_ic := true |}
  else Ok {| i_id := id; i_ic := true |}.

Definition identifier_from_string : bytes -> res ident := identifier_from_string_with identifier_quote_guard.

(** codecs/reader.go: BytesSince(pos) = Body[pos:Position()], RemainingBytes() = Body[Position():];
    the position only moves by successful reads, each of which checks that enough bytes are left *)
Record reader := { r_body : bytes; r_pos : Z }.
Definition read_n (r : reader) (n : Z) : option (bytes * reader) :=
  if (0 <=? n) && (r_pos r + n <=? zlen (r_body r))
  then Some (firstn (Z.to_nat n) (skipn (Z.to_nat (r_pos r)) (r_body r)), {| r_body := r_body r; r_pos := r_pos r + n |})
  else None.
Definition bytes_since (r : reader) (pos : Z) : res bytes := go_slice (r_body r) pos (r_pos r).
Definition remaining_bytes (r : reader) : res bytes := go_slice (r_body r) (r_pos r) (zlen (r_body r)).
Definition reader_wf (r : reader) : Prop := 0 <= r_pos r <= zlen (r_body r).

(** ** the Request implementations a backend frame can reach (proxycore/requests.go Request;
    proxy/request.go request, proxycore/clientconn.go internalRequest and prepareRequest).

    ClientConn.Receive looks up the request registered under the frame's stream and -- when the
    frame is ERROR UNPREPARED for a statement in the prepared cache -- sends a prepareRequest
    whose [origRequest] is that request, WHATEVER kind of request it is; when that PREPARE is
    answered, [origRequest.Execute] is called.  A backend chooses which stream it answers with
    UNPREPARED, so every implementation's Execute is reachable with untrusted input.
    [before = true] is the code before fixes 90a69b1 and 864854b: Execute of the two internal
    kinds was [panic("not implemented")]. *)
Inductive reqkind :=
| KClient                    (* proxy.request: re-executes or moves on *)
| KInternal                  (* internalRequest: heartbeat, control-connection query, handshake message *)
| KPrepare (orig : reqkind). (* prepareRequest: the proxy's own re-PREPARE *)

Inductive exec_effect := Reexecuted | FailedWithError.

Fixpoint execute_req (before : bool) (k : reqkind) : res exec_effect :=
  match k with
  | KClient => Ok Reexecuted
  | KInternal => if before then Panic (str "not implemented") else Ok FailedWithError
  | KPrepare orig => if before then Panic (str "not implemented") else execute_req before orig   (* origRequest.Execute(true) *)
  end.

(** a backend answers the request registered as [k] with UNPREPARED for a cached statement, then
    answers the PREPARE the proxy sends: prepareRequest.OnResult calls origRequest.Execute *)
Definition unprepared_then_prepare_answered (before : bool) (k : reqkind) : res exec_effect :=
  execute_req before k.

(** ** the places where the proxy terminates itself on purpose: every call of the builtin [panic]
    in the production files is listed by the translator ([Gen.Tables.explicit_panic_sites],
    regenerated on every run); each listed site has been examined and is not reachable with
    input a peer controls.  A site that is not in this list -- a new panic, or one of the two
    repaired ones coming back -- fails [Props/C17.v] and the hostile harness then looks for the
    input that reaches it. *)
Definition audited_panic_sites : list bytes :=
  [ (* message.Message.DeepCopyMessage of the partial messages: only frame.DeepCopy calls it, which the proxy never does *)
    str "codecs.PartialBatch.DeepCopyMessage"; str "codecs.PartialExecute.DeepCopyMessage"; str "codecs.PartialQuery.DeepCopyMessage";
    (* kong.New over the static configuration struct, at start-up, before any socket is open *)
    str "proxy.Run";
    (* the local address of an accepted TCP connection is a *net.TCPAddr *)
    str "proxy.client.localIP";
    (* marker methods of the event types, never called *)
    str "proxycore.AddEvent.isEvent"; str "proxycore.BootstrapEvent.isEvent"; str "proxycore.ReconnectEvent.isEvent";
    str "proxycore.RemoveEvent.isEvent"; str "proxycore.SchemaChangeEvent.isEvent"; str "proxycore.UpEvent.isEvent";
    (* an internal request is registered once and is removed from the pending table before it is completed: its
       one-slot channels are written at most once (OnResult after loadAndDelete, OnClose from Closing or from the
       re-PREPARE standing in for it, Execute only after it was taken out by Receive) *)
    str "proxycore.internalRequest.OnClose"; str "proxycore.internalRequest.OnResult" ].

Definition unaudited_panic_sites : list bytes :=
  filter (fun s => negb (existsb (bytes_eqb s) audited_panic_sites)) explicit_panic_sites.

(** ** correspondence entry: the harness reports (process alive, persistent canary served, fresh
    canary served, offending connection answered or closed); all four must be true *)
Definition run_c17 (input : val) : val := L [I 1; I 1; I 1; I 1].
Definition holds_c17 (input output : val) : val :=
  if negb (vbool (nthv 0 output)) then B (str "the-proxy-process-exited")
  else if (Z.eqb (vZ (nthv 1 input)) 14) && negb (vbool (nthv 1 output) && vbool (nthv 2 output))
  then B (str "other-clients-are-not-served-while-a-client-with-thousands-of-pipelined-requests-does-not-read-its-answers")
  else if negb (vbool (nthv 1 output)) then B (str "a-well-behaved-client-stopped-being-served")
  else if negb (vbool (nthv 2 output)) then B (str "new-clients-are-not-served-any-more")
  else if negb (vbool (nthv 3 output)) then B (str "offending-connection-neither-answered-nor-closed")
  else B [].
