(** Correspondence entry points for C06 (lexer tokens and idempotency verdicts). *)
From Coq Require Import List ZArith NArith Bool.
From CqlProxy Require Import Lib.Val Lib.Util Model.Lexer Model.Parser.
Import ListNotations.
Local Open Scope N_scope.

(** input  (0 text)                       -> ((code text)...)   the token stream
           (1 text spec plain base)       -> (idem err)
      spec: 1/0 the statement is / is not idempotent by construction, 2 unknown
      plain: 1 a plain mutation (must be classified idempotent)
      base: verdict of the base spelling of a re-spelled statement, 2 = none *)
Definition run_c06 (input : val) : val :=
  if Z.eqb (vZ (nthv 0 input)) 0 then run_lex (nthv 1 input)
  else
    let '(idem, err) := is_query_idempotent (vB (nthv 1 input)) in
    if err =? 2 then L [I 7; I 7] else L [Ibool idem; Ibool (negb (err =? 0))].

Definition holds_c06 (input output : val) : val :=
  if Z.eqb (vZ (nthv 0 input)) 0 then B []
  else
    let spec := vZ (nthv 2 input) in
    let plain := vZ (nthv 3 input) in
    let base := vZ (nthv 4 input) in
    let idem := vZ (nthv 0 output) in
    let err := vZ (nthv 1 output) in
    if negb (Z.eqb idem 0 || Z.eqb idem 1) then B (str "classifier-crashed-or-hung")
    else if Z.eqb spec 0 && Z.eqb idem 1 then B (str "non-idempotent-statement-classified-idempotent")
    else if Z.eqb plain 1 && Z.eqb idem 0 then B (str "plain-mutation-not-classified-idempotent")
    else if negb (Z.eqb base 2) && negb (Z.eqb idem base) then B (str "verdict-changes-with-spelling")
    else if Z.eqb err 1 && Z.eqb idem 1 then B (str "unparseable-statement-classified-idempotent")
    else B [].
