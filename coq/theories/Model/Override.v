(** * Override: what the proxy does with a QUERY / EXECUTE / BATCH request frame on its way to
    a backend (client.Receive -> DecodeBody -> handleQuery/handleExecute/execute ->
    maybeOverrideUnsupportedWriteConsistency -> requestSender.Send).  Property C12.

    Bodies are *logical* (decompressed) byte lists; compression is applied outside the model
    by the frame codec and is an oracle of the harness (trusted base). *)
From Coq Require Import List ZArith NArith Bool Lia.
From CqlProxy Require Import Lib.Val Lib.Util Lib.Wire Model.Codec.
Import ListNotations.
Local Open Scope N_scope.

Definition flag_compressed (f : N) : bool := N.testbit f 0.
Definition flag_tracing (f : N) : bool := N.testbit f 1.
Definition flag_payload (f : N) : bool := N.testbit f 2.
Definition flag_warning (f : N) : bool := N.testbit f 3.

(** ** [bytes map]: short n, then n x ([string] key, [bytes] value; negative length = nil) *)
Definition pentry := (bytes * option bytes)%type.

Definition read_string (b : bytes) : option (bytes * bytes) := read_short_bytes b.
Definition read_bytes_val (b : bytes) : option (option bytes * bytes) :=
  match read_int b with
  | None => None
  | Some (n, r) =>
      if (n <? 0)%Z then Some (None, r)
      else match get_z n r with
           | Some (c, r') => Some (Some c, r')
           | None => None
           end
  end.

Fixpoint read_entries (n : nat) (b : bytes) : option (list pentry * bytes) :=
  match n with
  | O => Some ([], b)
  | S n' =>
      match read_string b with
      | None => None
      | Some (k, r) =>
          match read_bytes_val r with
          | None => None
          | Some (v, r') =>
              match read_entries n' r' with
              | None => None
              | Some (es, r'') => Some ((k, v) :: es, r'')
              end
          end
      end
  end.

Definition read_bytes_map (b : bytes) : option (list pentry * bytes) :=
  match read_short b with
  | None => None
  | Some (n, r) => read_entries (N.to_nat n) r
  end.

Definition enc_entry (e : pentry) : bytes :=
  enc_short_bytes (fst e) ++
  match snd e with
  | Some c => enc_int (Z.of_nat (length c)) ++ c
  | None => enc_int (-1)
  end.
Definition enc_bytes_map (m : list pentry) : bytes :=
  enc_short (N.of_nat (length m)) ++ concat (map enc_entry m).

(** ** the partially decoded message, by opcode *)
Inductive pmsg := MQuery (m : pquery) | MExecute (m : pexecute) | MBatch (m : pbatch).

Definition decode_msg (opcode v : N) (b : bytes) : res pmsg :=
  if opcode =? 7 then match decode_query b with Ok m => Ok (MQuery m) | Err e => Err e | Panic e => Panic e | OutOfFuel => OutOfFuel end
  else if opcode =? 10 then match decode_execute v b with Ok m => Ok (MExecute m) | Err e => Err e | Panic e => Panic e | OutOfFuel => OutOfFuel end
  else match decode_batch b with Ok m => Ok (MBatch m) | Err e => Err e | Panic e => Panic e | OutOfFuel => OutOfFuel end.

Definition msg_cl (m : pmsg) : N :=
  match m with MQuery q => q_cl q | MExecute x => x_cl x | MBatch b => b_cl b end.

Definition set_cl (m : pmsg) (cl : N) : pmsg :=
  match m with
  | MQuery q => MQuery {| q_query := q_query q; q_cl := cl; q_params := q_params q |}
  | MExecute x => MExecute {| x_id := x_id x; x_rmid := x_rmid x; x_cl := cl; x_params := x_params x |}
  | MBatch b => MBatch {| b_type := b_type b; b_children := b_children b; b_cl := cl; b_params := b_params b |}
  end.

Definition encode_msg (v : N) (m : pmsg) : bytes :=
  match m with MQuery q => encode_query q | MExecute x => encode_execute v x | MBatch b => encode_batch b end.

Record ocfg := { unsupported : list N; override : N }.

Definition is_unsupported (c : ocfg) (cl : N) : bool := existsb (N.eqb cl) (unsupported c).

Inductive fwd :=
| FwdRaw                                    (* the frame goes out as it came in (C03) *)
| FwdReenc (body : bytes) (len_field : Z)   (* re-encoded logical body and the header's length field (uncompressed case) *)
| FwdReject.                                (* the body does not decode: the client connection is closed *)

(** frame.DecodeBody on a request: only the custom payload precedes the message *)
Definition split_envelope (flags : N) (b : bytes) : option (option (list pentry) * bytes) :=
  if flag_payload flags then
    match read_bytes_map b with
    | Some (m, r) => Some (Some m, r)
    | None => None
    end
  else Some (None, b).

(** the body written by EncodeBody for a request: payload (if flagged), an empty warning list
    when the warning flag is set (the library writes it although requests carry none), message *)
Definition reenc_body (v flags : N) (pl : option (list pentry)) (m : pmsg) : bytes :=
  (match pl with Some p => enc_bytes_map p | None => if flag_payload flags then enc_bytes_map [] else [] end) ++
  (if flag_warning flags then [0; 0] else []) ++
  encode_msg v m.

Definition process_request (c : ocfg) (is_select : bool) (v flags opcode : N) (lbody : bytes) : fwd :=
  match split_envelope flags lbody with
  | None => FwdReject
  | Some (pl, rest) =>
      match decode_msg opcode v rest with
      | Ok m =>
          if negb is_select && is_unsupported c (msg_cl m) then
            let body := reenc_body v flags pl (set_cl m (override c)) in
            FwdReenc body (Z.of_nat (length body))
          else FwdRaw
      | _ => FwdReject
      end
  end.

(** ** correspondence entry point for C12
    input  (version flags opcode logical_body is_select (unsupported...) override)
    output (0) raw | (1 body len_field) re-encoded | (2) rejected *)
Definition run_c12 (input : val) : val :=
  let v := vN (nthv 0 input) in
  let flags := vN (nthv 1 input) in
  let opcode := vN (nthv 2 input) in
  let body := vB (nthv 3 input) in
  let sel := vbool (nthv 4 input) in
  let cfg := {| unsupported := map vN (vL (nthv 5 input)); override := vN (nthv 6 input) |} in
  match process_request cfg sel v flags opcode body with
  | FwdRaw => L [I 0]
  | FwdReenc b l => L [I 1; B b; I l]
  | FwdReject => L [I 2]
  end.

(** property predicate on the implementation's output, stated on the logical content:
    - raw: nothing to check here (byte identity is C03's predicate, evaluated by the harness);
    - re-encoded: only allowed for a non-SELECT whose consistency is in the list; the new body
      must be well framed and decode to the same message with the override consistency. *)
Definition holds_c12 (input output : val) : val :=
  let v := vN (nthv 0 input) in
  let flags := vN (nthv 1 input) in
  let opcode := vN (nthv 2 input) in
  let body := vB (nthv 3 input) in
  let sel := vbool (nthv 4 input) in
  let cfg := {| unsupported := map vN (vL (nthv 5 input)); override := vN (nthv 6 input) |} in
  let kind := vZ (nthv 0 output) in
  match split_envelope flags body with
  | None => B []
  | Some (pl, rest) =>
      match decode_msg opcode v rest with
      | Ok m =>
          let must := negb sel && is_unsupported cfg (msg_cl m) in
          if Z.eqb kind 2 then B (str "well-formed-request-rejected")
          else if Z.eqb kind 3 then B (str "request-not-delivered-intact")
          else if Z.eqb kind 0 then (if must then B (str "consistency-not-overridden") else B [])
          else if negb must then B (str "request-modified-although-no-override-applies")
          else
            let nb := vB (nthv 1 output) in
            if negb (Z.eqb (vZ (nthv 2 output)) (Z.of_nat (length nb))) then B (str "length-field-differs-from-body")
            else
              match split_envelope flags nb with
              | None => B (str "override-damaged-envelope")
              | Some (pl', rest') =>
                  match decode_msg opcode v rest' with
                  | Ok m' =>
                      if negb (N.eqb (msg_cl m') (override cfg)) then B (str "override-consistency-not-applied")
                      else if negb (bytes_eqb (encode_msg v (set_cl m' 0)) (encode_msg v (set_cl m 0))) then B (str "override-changed-more-than-consistency")
                      else if negb (bytes_eqb (match pl' with Some p => enc_bytes_map p | None => [] end)
                                              (match pl with Some p => enc_bytes_map p | None => [] end)) then B (str "override-changed-custom-payload")
                      else B []
                  | _ => B (str "override-produced-undecodable-body")
                  end
              end
      | _ => B []
      end
  end.
