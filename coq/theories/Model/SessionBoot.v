(** * SessionBoot: how a session comes into being (proxycore/session.go ConnectSession and the BootstrapEvent branch of
    Session.OnEvent).  One goroutine per host connects that host's pool; a pool that fails with a critical error (wrong
    protocol version, bad credentials) sends on [failed] (buffered, first error wins) and -- in the code before the repair
    89063f9 -- stores a nil pool; when all goroutines are done [connected] is closed.  ConnectSession waits in a select on
    [connected] and [failed]; when it gets there late, both can be ready and the runtime picks either.

    [orig = true]: the original code.  Property C17 (no input makes the process exit) and C07 (a session that is handed out
    speaks the client's version on every host). *)
From Coq Require Import List NArith Bool Lia.
Import ListNotations.
Local Open Scope N_scope.

(** what the goroutine of one host ended with *)
Inductive pres := POk | PCritical.

Record bstate := {
  done : list (N * pres);     (* goroutines that have finished, in order *)
  todo : list N               (* hosts whose goroutine is still connecting *)
}.

Definition boot (hosts : list N) : bstate := {| done := []; todo := hosts |}.

(** one goroutine finishes *)
Definition finish (b : bstate) (h : N) (r : pres) : bstate :=
  {| done := done b ++ [(h, r)]; todo := filter (fun x => negb (N.eqb x h)) (todo b) |}.

Definition failed_ready (b : bstate) : bool := existsb (fun hr => match snd hr with PCritical => true | POk => false end) (done b).
Definition connected_ready (b : bstate) : bool := match todo b with [] => true | _ => false end.

(** the pool table as the goroutines leave it: [Some true] a pool, [Some false] a nil pool, absent otherwise *)
Definition table (orig : bool) (b : bstate) : list (N * bool) :=
  flat_map (fun hr => match snd hr with
                      | POk => [(fst hr, true)]
                      | PCritical => if orig then [(fst hr, false)] else []
                      end) (done b).

Inductive outcome := Waiting | Error | Session (t : list (N * bool)).

(** ConnectSession's select, run in state [b]; [pick_connected]: what the runtime picks when both are ready *)
Definition select (orig : bool) (b : bstate) (pick_connected : bool) : outcome :=
  match connected_ready b, failed_ready b with
  | false, false => Waiting
  | false, true => Error
  | true, false => Session (table orig b)
  | true, true =>
      if orig then (if pick_connected then Session (table orig b) else Error)
      else Error                                  (* [connected] won: [failed] is looked at first *)
  end.

(** a request through the session for host h: leastBusyConn on the stored pool *)
Inductive sendres := SendOk | SendNoPool | SendPanic.
Fixpoint lookup (h : N) (t : list (N * bool)) : option bool :=
  match t with [] => None | (k, v) :: r => if N.eqb k h then Some v else lookup h r end.
Definition send (t : list (N * bool)) (h : N) : sendres :=
  match lookup h t with Some true => SendOk | Some false => SendPanic | None => SendNoPool end.

(** run the goroutines in the given order, then the select *)
Definition run (orig : bool) (hosts : list N) (results : list (N * pres)) (pick_connected : bool) : outcome :=
  select orig (fold_left (fun b hr => finish b (fst hr) (snd hr)) results (boot hosts)) pick_connected.
