(** * LB: round-robin load balancer and query plans (property C15).

    Mirrors proxycore/lb.go: [roundRobinLoadBalancer.OnEvent] (copy-on-write host slice),
    [NewQueryPlan] (snapshot + atomic fetch-and-increment of a 64-bit counter, wrap written
    out), [roundRobinQueryPlan.Next] ((offset mod len + index) mod len). Hosts are
    identified by their key (a number here; the harness maps keys to endpoints). *)
From Coq Require Import List ZArith NArith Bool Lia.
From CqlProxy Require Import Lib.Val Lib.Util.
Import ListNotations.
Local Open Scope N_scope.

Definition host := N.

Inductive lb_event :=
| Bootstrap (hs : list host)
| Add (h : host)
| Remove (h : host).

Record lb := { lb_hosts : list host; lb_index : N }.

Definition counter_mod : N := 18446744073709551616. (* 2^64 *)

Fixpoint remove_first (h : host) (l : list host) : list host :=
  match l with
  | [] => []
  | x :: r => if x =? h then r else x :: remove_first h r
  end.

Definition on_event (s : lb) (e : lb_event) : lb :=
  match e with
  | Bootstrap hs => {| lb_hosts := hs; lb_index := lb_index s |}
  | Add h => {| lb_hosts := lb_hosts s ++ [h]; lb_index := lb_index s |}
  | Remove h => {| lb_hosts := remove_first h (lb_hosts s); lb_index := lb_index s |}
  end.

Record plan := { p_hosts : list host; p_offset : N; p_index : nat }.

Definition new_plan (s : lb) : plan * lb :=
  ({| p_hosts := lb_hosts s; p_offset := lb_index s; p_index := 0 |},
   {| lb_hosts := lb_hosts s; lb_index := (lb_index s + 1) mod counter_mod |}).

Definition plan_pos (p : plan) (i : nat) : nat :=
  let l := N.of_nat (length (p_hosts p)) in
  N.to_nat ((p_offset p mod l + N.of_nat i) mod l).

Definition plan_next (p : plan) : option host * plan :=
  if Nat.ltb (p_index p) (length (p_hosts p)) then
    (nth_error (p_hosts p) (plan_pos p (p_index p)),
     {| p_hosts := p_hosts p; p_offset := p_offset p; p_index := S (p_index p) |})
  else (None, p).

(** everything a fresh plan yields before exhaustion *)
Definition plan_all (p : plan) : list (option host) :=
  map (fun i => nth_error (p_hosts p) (plan_pos p i)) (seq 0 (length (p_hosts p))).

(** Abstract membership: the set-based specification of the event history. *)
Definition spec_event (m : list host) (e : lb_event) : list host :=
  match e with
  | Bootstrap hs => hs
  | Add h => m ++ [h]
  | Remove h => filter (fun x => negb (x =? h)) m
  end.

(** Histories the cluster can emit: bootstrap lists without duplicates, Add only for
    absent hosts (proxycore/cluster.go mergeHosts; proved there as C16). *)
Definition wf_event (m : list host) (e : lb_event) : Prop :=
  match e with
  | Bootstrap hs => NoDup hs
  | Add h => ~ In h m
  | Remove _ => True
  end.

Fixpoint wf_history (m : list host) (es : list lb_event) : Prop :=
  match es with
  | [] => True
  | e :: r => wf_event m e /\ wf_history (spec_event m e) r
  end.

(** ** Executable interpreter for the correspondence check.
    ops: (0 h...) bootstrap | (1 h) add | (2 h) remove | (3) new plan (ids 0,1,2.. in creation
    order) | (4 pid n) call Next n times on plan pid | (5 v) set the counter (verif hook) |
    (6 ...) concurrent stress (observed only as "no duplicate seen" = 1) |
    (7 total) [total] plans created by concurrent goroutines on stable membership (observed as
    "first-choice counts differ by at most one" = 1; the counter advances by [total]).
    output: one entry per op 4: the list of yielded keys, -1 for nil; op 6 yields (1). *)
Record istate := { i_lb : lb; i_plans : list plan; i_out : list val }.

Fixpoint update_nth {A} (n : nat) (x : A) (l : list A) : list A :=
  match n, l with
  | O, _ :: r => x :: r
  | S n', y :: r => y :: update_nth n' x r
  | _, [] => []
  end.

Fixpoint consume (n : nat) (p : plan) (acc : list val) : list val * plan :=
  match n with
  | O => (rev acc, p)
  | S n' =>
      let '(h, p') := plan_next p in
      consume n' p' (match h with Some k => IN k | None => I (-1) end :: acc)
  end.

Definition step_op (s : istate) (op : val) : istate :=
  match vZ (nthv 0 op) with
  | 0%Z => {| i_lb := on_event (i_lb s) (Bootstrap (map vN (tl (vL op)))); i_plans := i_plans s; i_out := i_out s |}
  | 1%Z => {| i_lb := on_event (i_lb s) (Add (vN (nthv 1 op))); i_plans := i_plans s; i_out := i_out s |}
  | 2%Z => {| i_lb := on_event (i_lb s) (Remove (vN (nthv 1 op))); i_plans := i_plans s; i_out := i_out s |}
  | 3%Z => let '(p, l') := new_plan (i_lb s) in
           {| i_lb := l'; i_plans := i_plans s ++ [p]; i_out := i_out s |}
  | 4%Z => let pid := Z.to_nat (vZ (nthv 1 op)) in
           match nth_error (i_plans s) pid with
           | Some p => let '(o, p') := consume (Z.to_nat (vZ (nthv 2 op))) p [] in
                       {| i_lb := i_lb s; i_plans := update_nth pid p' (i_plans s); i_out := i_out s ++ [L o] |}
           | None => s
           end
  | 5%Z => {| i_lb := {| lb_hosts := lb_hosts (i_lb s); lb_index := vN (nthv 1 op) mod counter_mod |};
              i_plans := i_plans s; i_out := i_out s |}
  | 7%Z => {| i_lb := {| lb_hosts := lb_hosts (i_lb s); lb_index := (lb_index (i_lb s) + vN (nthv 1 op)) mod counter_mod |};
              i_plans := i_plans s; i_out := i_out s ++ [L [I 1]] |}
  | _ => {| i_lb := i_lb s; i_plans := i_plans s; i_out := i_out s ++ [L [I 1]] |}
  end.

Definition run_c15 (input : val) : val :=
  L (i_out (fold_left step_op (vL input) {| i_lb := {| lb_hosts := []; lb_index := 0 |}; i_plans := []; i_out := [] |})).

(** ** Property predicate on an observed output (independent of the model's plans): replay
    the history on the *set-based specification* and check every plan's yields against the
    membership at its creation: no duplicates, only members, everything once when consumed
    to exhaustion, nothing after a nil, and rotation of the first choice between
    back-to-back plans. *)
Record hplan := { h_members : list host; h_yield : list Z; h_seq : nat (* creation stamp of lb events *) }.
Record hstate := { h_m : list host; h_plans : list hplan; h_stamp : nat; h_outs : list val; h_ok : bool;
                   h_why : bytes }.

Fixpoint nodupb (l : list Z) : bool :=
  match l with
  | [] => true
  | x :: r => negb (existsb (Z.eqb x) r) && nodupb r
  end.

Fixpoint index_of (h : host) (l : list host) (i : nat) : option nat :=
  match l with
  | [] => None
  | x :: r => if x =? h then Some i else index_of h r (S i)
  end.

Definition check_plan (p : hplan) : bytes :=
  let ys := h_yield p in
  let real := filter (fun z => negb (Z.eqb z (-1))) ys in
  let fix after_nil (seen : bool) (l : list Z) : bool :=
    match l with
    | [] => true
    | z :: r => if Z.eqb z (-1) then after_nil true r else negb seen && after_nil seen r
    end in
  if negb (nodupb real) then str "duplicate-host-in-plan"
  else if negb (forallb (fun z => existsb (fun m => Z.eqb z (Z.of_N m)) (h_members p)) real) then str "non-member-yielded"
  else if negb (after_nil false ys) then str "host-after-exhaustion"
  else if existsb (Z.eqb (-1)) ys && negb (Nat.eqb (length real) (length (h_members p))) then str "exhausted-before-all-hosts"
  else if Nat.ltb (length (h_members p)) (length real) then str "more-yields-than-hosts"
  else [].

Definition first_real (p : hplan) : option host :=
  match h_yield p with
  | z :: _ => if Z.eqb z (-1) then None else Some (Z.to_N z)
  | [] => None
  end.

(** rotation: plans i and i+1 created with no membership event in between, both with a first
    yield, over NoDup membership: first(i+1) follows first(i) cyclically. *)
Fixpoint check_rotation (ps : list hplan) : bytes :=
  match ps with
  | p :: ((q :: _) as r) =>
      let here :=
        if Nat.eqb (h_seq p) (h_seq q) then
          match first_real p, first_real q with
          | Some a, Some b =>
              match index_of a (h_members p) 0, index_of b (h_members p) 0 with
              | Some i, Some j => if Nat.eqb j (Nat.modulo (S i) (length (h_members p))) then [] else str "rotation-broken"
              | _, _ => []
              end
          | _, _ => []
          end
        else [] in
      match here with [] => check_rotation r | _ => here end
  | _ => []
  end.

Definition hstep (s : hstate) (op : val) : hstate :=
  let ev e := {| h_m := spec_event (h_m s) e; h_plans := h_plans s; h_stamp := S (h_stamp s);
                 h_outs := h_outs s; h_ok := h_ok s; h_why := h_why s |} in
  match vZ (nthv 0 op) with
  | 0%Z => ev (Bootstrap (map vN (tl (vL op))))
  | 1%Z => ev (Add (vN (nthv 1 op)))
  | 2%Z => ev (Remove (vN (nthv 1 op)))
  | 3%Z => {| h_m := h_m s; h_plans := h_plans s ++ [{| h_members := h_m s; h_yield := []; h_seq := h_stamp s |}];
              h_stamp := h_stamp s; h_outs := h_outs s; h_ok := h_ok s; h_why := h_why s |}
  | 4%Z =>
      let pid := Z.to_nat (vZ (nthv 1 op)) in
      match h_outs s, nth_error (h_plans s) pid with
      | o :: rest, Some p =>
          {| h_m := h_m s;
             h_plans := update_nth pid {| h_members := h_members p; h_yield := h_yield p ++ map vZ (vL o); h_seq := h_seq p |} (h_plans s);
             h_stamp := h_stamp s; h_outs := rest;
             h_ok := h_ok s && Nat.eqb (length (vL o)) (Z.to_nat (vZ (nthv 2 op))); h_why := h_why s |}
      | _, _ => {| h_m := h_m s; h_plans := h_plans s; h_stamp := h_stamp s; h_outs := h_outs s; h_ok := false; h_why := str "output-shape" |}
      end
  | 5%Z => (* counter jump: rotation is not expected to continue across it *)
      {| h_m := h_m s; h_plans := h_plans s; h_stamp := S (h_stamp s); h_outs := h_outs s; h_ok := h_ok s; h_why := h_why s |}
  | _ =>
      match h_outs s with
      | o :: rest => {| h_m := h_m s; h_plans := h_plans s; h_stamp := h_stamp s; h_outs := rest;
                        h_ok := h_ok s && val_eqb o (L [I 1]);
                        h_why := if val_eqb o (L [I 1]) then h_why s
                                 else if Z.eqb (vZ (nthv 0 op)) 7 then str "concurrent-first-choice-imbalance"
                                 else str "concurrent-duplicate-or-crash" |}
      | [] => {| h_m := h_m s; h_plans := h_plans s; h_stamp := h_stamp s; h_outs := []; h_ok := false; h_why := str "output-shape" |}
      end
  end.

Definition holds_c15 (input output : val) : val :=
  let s := fold_left hstep (vL input)
             {| h_m := []; h_plans := []; h_stamp := 0; h_outs := vL output; h_ok := true; h_why := [] |} in
  if negb (h_ok s) then B (match h_why s with [] => str "output-shape" | w => w end)
  else
    let fix first_bad (ps : list hplan) : bytes :=
      match ps with
      | [] => []
      | p :: r => match check_plan p with [] => first_bad r | w => w end
      end in
    match first_bad (h_plans s) with
    | [] => B (check_rotation (h_plans s))
    | w => B w
    end.
