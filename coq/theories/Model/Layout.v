(** * Layout: definitions for "the token list does not depend on how much blank space separates
    the tokens" (property C06, clause "the verdict does not change with whitespace, newlines").

    Everything in the first section is generic in the rule list [rules], the action list [acts] and
    the code [inv] of the catch-all token (the real lexer: [rule_res], [rule_acts], [tkInvalid]);
    nothing here looks inside [Gen/LexRules.v].  The proofs are in [Proofs/LayoutProofs.v]. *)
From Coq Require Import List ZArith NArith Bool.
From CqlProxy Require Import Lib.Val Lib.Regex Gen.LexRules Model.Lexer Proofs.RegexProofs.
Import ListNotations.
Local Open Scope N_scope.

(** ** Conservative emptiness tests on regular expressions *)

(** no byte is in any of the ranges *)
Fixpoint empty_ranges (rs : list (N * N)) : bool :=
  match rs with
  | [] => true
  | (lo, hi) :: r => (hi <? lo) && empty_ranges r
  end.

(** [dead r = true] implies that [r] matches no string at all *)
Fixpoint dead (r : re) : bool :=
  match r with
  | Emp => true
  | Eps => false
  | Cls rs => empty_ranges rs
  | Cat a b => dead a || dead b
  | Alt a b => dead a && dead b
  | Star _ => false
  end.

(** [le_eps r = true] implies that [r] matches at most the empty string, hence that every
    derivative of [r] by one byte -- ANY byte, no sweep over 0..255 needed -- is dead *)
Fixpoint le_eps (r : re) : bool :=
  match r with
  | Emp => true
  | Eps => true
  | Cls rs => empty_ranges rs
  | Cat a b => dead a || dead b || (le_eps a && le_eps b)
  | Alt a b => le_eps a && le_eps b
  | Star a => le_eps a
  end.

Definition is_nil {A} (l : list A) : bool := match l with [] => true | _ => false end.

Section Generic.
Variable inv : N.                  (* code of the catch-all token, dropped at the very end of input *)
Variable rules : list re.
Variable acts : list lex_action.

(** ** The lexer over an arbitrary rule list: [Lexer.tokenize_fuel] verbatim *)
Fixpoint tokenize_gen_fuel (fuel : nat) (input : bytes) : list tok :=
  match fuel with
  | O => []
  | S f =>
      match input with
      | [] => []
      | c :: rest1 =>
          match scan_one rules input with
          | None =>
              match rest1 with [] => [] | _ => {| t_code := inv; t_text := [] |} :: tokenize_gen_fuel f rest1 end
          | Some (len, idx) =>
              let rest := skipn len input in
              match nth idx acts Skip with
              | Skip => tokenize_gen_fuel f rest
              | Tok code keep =>
                  if (code =? inv) && (match rest with [] => true | _ => false end) then []
                  else {| t_code := code; t_text := if keep then firstn len input else [] |} :: tokenize_gen_fuel f rest
              end
          end
      end
  end.

Definition tokenize_gen (input : bytes) : list tok := tokenize_gen_fuel (S (length input)) input.

(** the same scan returning the text of each token (its lexeme) instead of the token *)
Fixpoint lexemes_fuel (fuel : nat) (input : bytes) : list bytes :=
  match fuel with
  | O => []
  | S f =>
      match input with
      | [] => []
      | c :: rest1 =>
          match scan_one rules input with
          | None => match rest1 with [] => [] | _ => [c] :: lexemes_fuel f rest1 end
          | Some (len, idx) =>
              let rest := skipn len input in
              match nth idx acts Skip with
              | Skip => lexemes_fuel f rest
              | Tok code keep =>
                  if (code =? inv) && (match rest with [] => true | _ => false end) then []
                  else firstn len input :: lexemes_fuel f rest
              end
          end
      end
  end.

Definition lexemes (input : bytes) : list bytes := lexemes_fuel (S (length input)) input.

(** ** What one token text means on its own *)

(** [single_token t = Some idx]: the text [t], alone, is exactly one token, of rule [idx] *)
Definition single_token (t : bytes) : option nat :=
  match scan_one rules t with
  | Some (len, idx) => if Nat.eqb len (length t) then Some idx else None
  | None => None
  end.

(** the token the lexer makes of the text [t] (code and kept text) *)
Definition token_of (t : bytes) : tok :=
  match scan_one rules t with
  | Some (_, idx) =>
      match nth idx acts Skip with
      | Tok code keep => {| t_code := code; t_text := if keep then t else [] |}
      | Skip => {| t_code := inv; t_text := [] |}
      end
  | None => {| t_code := inv; t_text := [] |}
  end.

(** ** The computable side conditions *)

(** no rule can match anything that starts with [t] followed by the byte [c] *)
Definition closed_before (t : bytes) (c : N) : bool :=
  forallb (fun r => dead (ders (t ++ [c]) r)) rules.

(** the same for several bytes at once, deriving by [t] only once *)
Definition closed_before_all (t : bytes) (cs : list N) : bool :=
  let ds := map (ders t) rules in
  forallb (fun c => forallb (fun r => dead (deriv c r)) ds) cs.

(** [b] is a blank unit: alone it is one token of a [Skip] rule, and after it no rule survives one
    more byte, whatever the byte *)
Definition blank_ok (b : bytes) : bool :=
  match single_token b with
  | Some idx =>
      match nth idx acts Skip with
      | Skip => forallb (fun r => le_eps (ders b r)) rules
      | Tok _ _ => false
      end
  | None => false
  end.

(** [t] is one token with a token action, and nothing that starts with [t] extends over the first
    byte of any blank unit *)
Definition tok_ok (blanks : list bytes) (t : bytes) : bool :=
  match single_token t with
  | Some idx =>
      match nth idx acts Skip with
      | Tok _ _ => closed_before_all t (map (hd 0) blanks)
      | Skip => false
      end
  | None => false
  end.

(** the last token is not the catch-all token (which the lexer drops at the very end of the input
    but keeps when a blank follows) *)
Definition last_not_invalid (ts : list bytes) : bool :=
  match ts with
  | [] => true
  | _ => negb (t_code (token_of (last ts [])) =? inv)
  end.

Definition blanks_ok (blanks : list bytes) : bool := forallb blank_ok blanks.
Definition toks_ok (blanks : list bytes) (ts : list bytes) : bool :=
  forallb (tok_ok blanks) ts && last_not_invalid ts.

Definition layout_ok (blanks : list bytes) (ts : list bytes) : bool :=
  blanks_ok blanks && toks_ok blanks ts.

(** ** Layouts *)

(** a run of blank units (possibly empty) *)
Inductive blank_run (blanks : list bytes) : bytes -> Prop :=
| br_nil : blank_run blanks []
| br_cons b s : In b blanks -> blank_run blanks s -> blank_run blanks (b ++ s).

(** [t1 s1 t2 s2 ... tn]: the separators are taken from [seps] in order *)
Fixpoint interleave (ts : list bytes) (seps : list bytes) : bytes :=
  match ts with
  | [] => []
  | t :: ts' =>
      match ts' with
      | [] => t
      | _ => t ++ hd [] seps ++ interleave ts' (tl seps)
      end
  end.

(** separators as the brief wants them: one per gap, each a NON-EMPTY run of blank units *)
Definition seps_ok (blanks : list bytes) (ts : list bytes) (seps : list bytes) : Prop :=
  length seps = pred (length ts) /\ Forall (fun s => blank_run blanks s /\ s <> []) seps.

(** more generous: a gap may also be EMPTY where the left token is closed before the first byte
    of the right token ([a=1], [f(x)], [t;]) *)
Fixpoint gaps_ok (blanks : list bytes) (ts : list bytes) (gaps : list bytes) : Prop :=
  match ts with
  | [] => True
  | t :: ts' =>
      match ts' with
      | [] => True
      | t' :: _ =>
          match gaps with
          | [] => False
          | g :: gaps' =>
              blank_run blanks g /\ (g = [] -> closed_before t (hd 0 t') = true) /\ gaps_ok blanks ts' gaps'
          end
      end
  end.

(** the whole text *)
Definition layout (ts : list bytes) (seps : list bytes) (lead trail : bytes) : bytes :=
  lead ++ interleave ts seps ++ trail.

End Generic.

(** ** A one-pass version of the check (for the extracted runner)

    [munch2] is [Regex.munch] that also returns the derivatives of all rules by the accepted prefix,
    so that the closedness test needs no second pass over the token text. *)
Section Fast.
Variable inv : N.
Variable rules : list re.
Variable acts : list lex_action.

Fixpoint munch2 (rs : list re) (input : list N) (len : nat) (best : option (nat * nat * list re))
  : option (nat * nat * list re) :=
  let best' := match first_nullable rs 0 with
               | Some i => if Nat.eqb len 0 then best else Some (len, i, rs)
               | None => best
               end in
  match input with
  | [] => best'
  | c :: rest =>
      if forallb is_emp rs then best'
      else munch2 (map (deriv c) rs) rest (S len) best'
  end.

Definition scan_one2 (input : list N) : option (nat * nat * list re) := munch2 rules input 0 None.

(** per token: its code and whether it is closed before every byte of [heads] *)
Fixpoint lexinfo_fuel (heads : list N) (fuel : nat) (input : bytes) : list (N * bool) :=
  match fuel with
  | O => []
  | S f =>
      match input with
      | [] => []
      | c :: rest1 =>
          match scan_one2 input with
          | None => match rest1 with [] => [] | _ => (inv, false) :: lexinfo_fuel heads f rest1 end
          | Some (len, idx, ds) =>
              let rest := skipn len input in
              match nth idx acts Skip with
              | Skip => lexinfo_fuel heads f rest
              | Tok code keep =>
                  if (code =? inv) && (match rest with [] => true | _ => false end) then []
                  else (code, forallb (fun c => forallb (fun r => dead (deriv c r)) ds) heads) :: lexinfo_fuel heads f rest
              end
          end
      end
  end.

Definition lexinfo (heads : list N) (input : bytes) : list (N * bool) := lexinfo_fuel heads (S (length input)) input.

Definition toks_ok_info (l : list (N * bool)) : bool :=
  forallb snd l && match l with [] => true | _ => negb (fst (last l (inv, false)) =? inv) end.
End Fast.

(** ** The real lexer *)

(** the blank units covered: space, tab, "\n" and "\r\n" (a lone "\r" is NOT a blank for
    parser/lexer.rl: it becomes a tkInvalid token) *)
Definition std_blanks : list bytes := [[32]; [9]; [10]; [13; 10]].

(** a byte string made of space, tab, LF and CR LF only *)
Fixpoint is_std_blank_run (s : bytes) : bool :=
  match s with
  | [] => true
  | c :: r =>
      if (c =? 32) || (c =? 9) || (c =? 10) then is_std_blank_run r
      else if c =? 13 then match r with d :: r' => (d =? 10) && is_std_blank_run r' | [] => false end
      else false
  end.

(** executable form of [gaps_ok] for the standard blanks *)
Fixpoint gaps_okb (rules : list re) (ts : list bytes) (gaps : list bytes) : bool :=
  match ts with
  | [] => true
  | t :: ts' =>
      match ts' with
      | [] => true
      | t' :: _ =>
          match gaps with
          | [] => false
          | g :: gaps' =>
              is_std_blank_run g && (negb (is_nil g) || closed_before rules t (hd 0 t')) && gaps_okb rules ts' gaps'
          end
      end
  end.

(** executable form of [seps_ok] for the standard blanks *)
Definition seps_okb (ts : list bytes) (seps : list bytes) : bool :=
  Nat.eqb (length seps) (pred (length ts)) && forallb (fun s => is_std_blank_run s && negb (is_nil s)) seps.

(** evaluated once (a constant of the extracted program) *)
Definition std_blanks_ok : bool := blanks_ok rule_res rule_acts std_blanks.

Definition lexemes_of (q : bytes) : list bytes := lexemes tkInvalid rule_res rule_acts q.

(** the executable entry: the lexemes the lexer itself finds in [q] can be laid out freely *)
Definition layout_ok_text (q : bytes) : bool :=
  std_blanks_ok && toks_ok tkInvalid rule_res rule_acts std_blanks (lexemes_of q).

(** the same in one pass (proved equal in Proofs/LayoutProofs.v) *)
Definition std_heads : list N := map (hd 0) std_blanks.
Definition layout_ok_text_fast (q : bytes) : bool :=
  std_blanks_ok && toks_ok_info tkInvalid (lexinfo tkInvalid rule_res rule_acts std_heads q).

(** correspondence entry:  text -> (ok (lexeme ...)) *)
Definition run_layout (input : val) : val :=
  let q := vB input in
  L [I (if layout_ok_text_fast q then Zpos xH else Z0); L (map B (lexemes_of q))].
