(** * Ast: abstract syntax of the documented CQL DML forms, its printers to token lists, the
    documented ground truth [doc_idem_stmt], the class [plain_stmt] that must be accepted, the
    exact verdict function [cls_stmt] of the classifier on syntax, and the well-formedness
    predicate [wf_stmt].  Definitions only; the proofs are in Proofs/AstProofs.v.

    Tokens are those of Model/Lexer.v: only identifier tokens carry text (the lexer keeps the
    text of [tkIdentifier] only), every other token is its code with an empty text. *)
From Coq Require Import List NArith Bool Lia.
From CqlProxy Require Import Lib.Val Lib.Util Lib.Regex Gen.LexRules Gen.Tables Model.Lexer Model.Parser.
Import ListNotations.
Local Open Scope N_scope.

Definition tk (c : N) : tok := {| t_code := c; t_text := [] |}.
Definition tki (s : bytes) : tok := {| t_code := tkIdentifier; t_text := s |}.

(** keywords the lexer delivers as identifiers *)
Definition kwCONTAINS : bytes := str "CONTAINS".
Definition kwKEY : bytes := str "KEY".
Definition kwLIKE : bytes := str "LIKE".
Definition kwJSON : bytes := str "JSON".
Definition kwVALUES : bytes := str "VALUES".
Definition kwSET : bytes := str "SET".
Definition kwTTL : bytes := str "TTL".
Definition kwTIMESTAMP : bytes := str "TIMESTAMP".
Definition kwCOUNTER : bytes := str "COUNTER".
Definition kwUNLOGGED : bytes := str "UNLOGGED".

(** ** syntax *)
Inductive bindm := BQ | BN (name : bytes).                       (* ?   :name *)
Inductive ctype := CSimple (name : bytes) | CParam (name : bytes) (params : list bytes).   (* int   map<int, text> *)

Inductive term :=
| TInt                                   (* integer literal *)
| TPrim (c : N)                          (* other primitive literal, with its token code *)
| TBind (b : bindm)
| TList (es : terms)                     (* [a, b] *)
| TSet (es : terms)                      (* {a, b} *)
| TMap (kvs : entries)                   (* {k: v, ...} *)
| TUdt (fs : fields)                     (* {f: v, ...} *)
| TTuple (es : terms)                    (* (a, b) *)
| TCast (ty : ctype) (t : term)          (* (type) t *)
| TFun (ks : option bytes) (name : bytes) (args : fargs)   (* [ks.]name(args) *)
with terms := TNil | TCons (t : term) (r : terms)
with entries := ENil | ECons (k v : term) (r : entries)
with fields := FNil | FCons (f : bytes) (v : term) (r : fields)
with fargs := ANil | ATerm (t : term) (r : fargs) | AIdent (c : bytes) (r : fargs).

Inductive relop := OEq | OLt | OLe | OGt | OGe | ONe.

Inductive relation :=
| RCmp (c : bytes) (o : relop) (t : term)                     (* c op t *)
| RIn (c : bytes) (es : terms)                                (* c IN (a, b) *)
| RInBind (c : bytes) (b : bindm)                             (* c IN ? *)
| RContains (c : bytes) (key : bool) (t : term)               (* c CONTAINS [KEY] t *)
| RLike (c : bytes) (t : term)                                (* c LIKE t *)
| RIsNotNull (c : bytes)                                      (* c IS NOT NULL *)
| RIndex (c : bytes) (i : term) (o : relop) (t : term)        (* c[i] op t *)
| RToken (cols : list bytes) (o : relop) (t : term)           (* TOKEN(a, b) op t *)
| RTuple (cols : list bytes) (o : option relop) (es : terms)  (* (a, b) op (x, y)   None = IN *)
| RTupleBind (cols : list bytes) (o : option relop) (b : bindm)   (* (a, b) IN ? *)
| RParen (r : relation).                                      (* ( r ) *)

Inductive update_op :=
| USet (c : bytes) (t : term)                  (* c = t *)
| UAdd (c d : bytes) (t : term)                (* c = d + t *)
| USub (c d : bytes) (t : term)                (* c = d - t *)
| UPrepend (c : bytes) (t : term) (d : bytes)  (* c = t + d *)
| UAddEq (c : bytes) (t : term)                (* c += t *)
| USubEq (c : bytes) (t : term)                (* c -= t *)
| UIndex (c : bytes) (i t : term)              (* c[i] = t *)
| UField (c f : bytes) (t : term).             (* c.f = t *)

Inductive delete_op :=
| DCol (c : bytes)                             (* c *)
| DIndex (c : bytes) (i : term)                (* c[i] *)
| DField (c f : bytes).                        (* c.f *)

Inductive uval := UVInt | UVBind (b : bindm).
Inductive using_item := UTtl (v : uval) | UTimestamp (v : uval).
Definition usingc := option (using_item * option using_item).   (* USING a [AND b] *)

Definition qname := (option bytes * bytes)%type.               (* [ks.]table *)
Inductive jval := JString | JBind (b : bindm).

(** the IF clause is recorded by its presence and the (arbitrary) tokens after the IF keyword *)
Definition ifclause := option (list tok).

Inductive dml :=
| DInsert (q : qname) (cols : list bytes) (vals : terms) (ifc : ifclause) (u : usingc) (semi : bool)
| DInsertJson (q : qname) (j : jval) (ifc : ifclause) (u : usingc) (semi : bool)
| DUpdate (q : qname) (u : usingc) (ops : list update_op) (w : list relation) (ifc : ifclause) (semi : bool)
| DDelete (ops : list delete_op) (q : qname) (u : usingc) (w : list relation) (ifc : ifclause) (semi : bool).

Inductive batch_kind := BLogged | BUnlogged | BCounter.

Inductive stmt :=
| SDml (d : dml)
| SBatch (k : batch_kind) (u : usingc) (children : list dml) (semi : bool)
| SSelect (tail : list tok).

(** ** printers *)
Definition sepc {A} (r : list A) : list tok := match r with [] => [] | _ => [tk tkComma] end.
Fixpoint tokens_of_idents (l : list bytes) : list tok :=
  match l with [] => [] | a :: r => tki a :: sepc r ++ tokens_of_idents r end.

Definition tokens_of_bind (b : bindm) : list tok :=
  match b with BQ => [tk tkQMark] | BN n => [tk tkColon; tki n] end.

Definition tokens_of_ctype (c : ctype) : list tok :=
  match c with
  | CSimple n => [tki n]
  | CParam n ps => tki n :: tk tkLt :: tokens_of_idents ps ++ [tk tkGt]
  end.

Definition tokens_of_qname (q : qname) : list tok :=
  match q with (Some k, n) => [tki k; tk tkDot; tki n] | (None, n) => [tki n] end.

Definition sep_terms (r : terms) : list tok := match r with TNil => [] | _ => [tk tkComma] end.
Definition sep_entries (r : entries) : list tok := match r with ENil => [] | _ => [tk tkComma] end.
Definition sep_fields (r : fields) : list tok := match r with FNil => [] | _ => [tk tkComma] end.
Definition sep_fargs (r : fargs) : list tok := match r with ANil => [] | _ => [tk tkComma] end.

Fixpoint tokens_of_term (t : term) : list tok :=
  match t with
  | TInt => [tk tkInteger]
  | TPrim c => [tk c]
  | TBind b => tokens_of_bind b
  | TList es => tk tkLsquare :: tokens_of_terms es ++ [tk tkRsquare]
  | TSet es => tk tkLcurly :: tokens_of_terms es ++ [tk tkRcurly]
  | TMap kvs => tk tkLcurly :: tokens_of_entries kvs ++ [tk tkRcurly]
  | TUdt fs => tk tkLcurly :: tokens_of_fields fs ++ [tk tkRcurly]
  | TTuple es => tk tkLparen :: tokens_of_terms es ++ [tk tkRparen]
  | TCast ty t => tk tkLparen :: tokens_of_ctype ty ++ tk tkRparen :: tokens_of_term t
  | TFun ks name args => tokens_of_qname (ks, name) ++ tk tkLparen :: tokens_of_fargs args ++ [tk tkRparen]
  end
with tokens_of_terms (es : terms) : list tok :=
  match es with
  | TNil => []
  | TCons e r => tokens_of_term e ++ sep_terms r ++ tokens_of_terms r
  end
with tokens_of_entries (kvs : entries) : list tok :=
  match kvs with
  | ENil => []
  | ECons k v r => tokens_of_term k ++ tk tkColon :: tokens_of_term v ++ sep_entries r ++ tokens_of_entries r
  end
with tokens_of_fields (fs : fields) : list tok :=
  match fs with
  | FNil => []
  | FCons f v r => tki f :: tk tkColon :: tokens_of_term v ++ sep_fields r ++ tokens_of_fields r
  end
with tokens_of_fargs (a : fargs) : list tok :=
  match a with
  | ANil => []
  | ATerm t r => tokens_of_term t ++ sep_fargs r ++ tokens_of_fargs r
  | AIdent c r => tki c :: sep_fargs r ++ tokens_of_fargs r
  end.

Definition relop_code (o : relop) : N :=
  match o with OEq => tkEqual | OLt => tkLt | OLe => tkLtEqual | OGt => tkGt | OGe => tkGtEqual | ONe => tkNotEqual end.
Definition oprel_code (o : option relop) : N := match o with Some o => relop_code o | None => tkIn end.

Fixpoint tokens_of_relation (r : relation) : list tok :=
  match r with
  | RCmp c o t => tki c :: tk (relop_code o) :: tokens_of_term t
  | RIn c es => tki c :: tk tkIn :: tk tkLparen :: tokens_of_terms es ++ [tk tkRparen]
  | RInBind c b => tki c :: tk tkIn :: tokens_of_bind b
  | RContains c key t => tki c :: tki kwCONTAINS :: (if key then [tki kwKEY] else []) ++ tokens_of_term t
  | RLike c t => tki c :: tki kwLIKE :: tokens_of_term t
  | RIsNotNull c => [tki c; tk tkIs; tk tkNot; tk tkNull]
  | RIndex c i o t => tki c :: tk tkLsquare :: tokens_of_term i ++ tk tkRsquare :: tk (relop_code o) :: tokens_of_term t
  | RToken cols o t => tk tkToken :: tk tkLparen :: tokens_of_idents cols ++ tk tkRparen :: tk (relop_code o) :: tokens_of_term t
  | RTuple cols o es =>
      tk tkLparen :: tokens_of_idents cols ++ tk tkRparen :: tk (oprel_code o) :: tk tkLparen :: tokens_of_terms es ++ [tk tkRparen]
  | RTupleBind cols o b => tk tkLparen :: tokens_of_idents cols ++ tk tkRparen :: tk (oprel_code o) :: tokens_of_bind b
  | RParen r => tk tkLparen :: tokens_of_relation r ++ [tk tkRparen]
  end.

Definition sepa {A} (r : list A) : list tok := match r with [] => [] | _ => [tk tkAnd] end.
Fixpoint tokens_of_relations (l : list relation) : list tok :=
  match l with [] => [] | r :: l' => tokens_of_relation r ++ sepa l' ++ tokens_of_relations l' end.
Definition tokens_of_where (w : list relation) : list tok :=
  match w with [] => [] | _ => tk tkWhere :: tokens_of_relations w end.

Definition tokens_of_update_op (o : update_op) : list tok :=
  match o with
  | USet c t => tki c :: tk tkEqual :: tokens_of_term t
  | UAdd c d t => tki c :: tk tkEqual :: tki d :: tk tkAdd :: tokens_of_term t
  | USub c d t => tki c :: tk tkEqual :: tki d :: tk tkSub :: tokens_of_term t
  | UPrepend c t d => tki c :: tk tkEqual :: tokens_of_term t ++ [tk tkAdd; tki d]
  | UAddEq c t => tki c :: tk tkAddEqual :: tokens_of_term t
  | USubEq c t => tki c :: tk tkSubEqual :: tokens_of_term t
  | UIndex c i t => tki c :: tk tkLsquare :: tokens_of_term i ++ tk tkRsquare :: tk tkEqual :: tokens_of_term t
  | UField c f t => tki c :: tk tkDot :: tki f :: tk tkEqual :: tokens_of_term t
  end.
Fixpoint tokens_of_update_ops (l : list update_op) : list tok :=
  match l with [] => [] | o :: l' => tokens_of_update_op o ++ sepc l' ++ tokens_of_update_ops l' end.

Definition tokens_of_delete_op (o : delete_op) : list tok :=
  match o with
  | DCol c => [tki c]
  | DIndex c i => tki c :: tk tkLsquare :: tokens_of_term i ++ [tk tkRsquare]
  | DField c f => [tki c; tk tkDot; tki f]
  end.
Fixpoint tokens_of_delete_ops (l : list delete_op) : list tok :=
  match l with [] => [] | o :: l' => tokens_of_delete_op o ++ sepc l' ++ tokens_of_delete_ops l' end.

Definition tokens_of_uval (v : uval) : list tok :=
  match v with UVInt => [tk tkInteger] | UVBind b => tokens_of_bind b end.
Definition tokens_of_using_item (i : using_item) : list tok :=
  match i with UTtl v => tki kwTTL :: tokens_of_uval v | UTimestamp v => tki kwTIMESTAMP :: tokens_of_uval v end.
Definition tokens_of_using (u : usingc) : list tok :=
  match u with
  | None => []
  | Some (a, None) => tk tkUsing :: tokens_of_using_item a
  | Some (a, Some b) => tk tkUsing :: tokens_of_using_item a ++ tk tkAnd :: tokens_of_using_item b
  end.

Definition tokens_of_if (i : ifclause) : list tok := match i with None => [] | Some tl => tk tkIf :: tl end.
Definition tokens_of_semi (b : bool) : list tok := if b then [tk tkEOS] else [].
Definition tokens_of_jval (j : jval) : list tok :=
  match j with JString => [tk tkStringLiteral] | JBind b => tokens_of_bind b end.

(** a DML statement without its optional trailing ';' *)
Definition tokens_of_dml_body (d : dml) : list tok :=
  match d with
  | DInsert q cols vals ifc u _ =>
      tk tkInsert :: tk tkInto :: tokens_of_qname q ++ tk tkLparen :: tokens_of_idents cols ++ tk tkRparen ::
      tki kwVALUES :: tk tkLparen :: tokens_of_terms vals ++ tk tkRparen :: tokens_of_if ifc ++ tokens_of_using u
  | DInsertJson q j ifc u _ =>
      tk tkInsert :: tk tkInto :: tokens_of_qname q ++ tki kwJSON :: tokens_of_jval j ++ tokens_of_if ifc ++ tokens_of_using u
  | DUpdate q u ops w ifc _ =>
      tk tkUpdate :: tokens_of_qname q ++ tokens_of_using u ++ tki kwSET :: tokens_of_update_ops ops ++
      tokens_of_where w ++ tokens_of_if ifc
  | DDelete ops q u w ifc _ =>
      tk tkDelete :: tokens_of_delete_ops ops ++ tk tkFrom :: tokens_of_qname q ++ tokens_of_using u ++
      tokens_of_where w ++ tokens_of_if ifc
  end.
Definition dml_semi (d : dml) : bool :=
  match d with DInsert _ _ _ _ _ s | DInsertJson _ _ _ _ s | DUpdate _ _ _ _ _ s | DDelete _ _ _ _ _ s => s end.
Definition tokens_of_dml (d : dml) : list tok := tokens_of_dml_body d ++ tokens_of_semi (dml_semi d).

Fixpoint tokens_of_dmls (l : list dml) : list tok :=
  match l with [] => [] | d :: l' => tokens_of_dml d ++ tokens_of_dmls l' end.

Definition tokens_of_batch_kind (k : batch_kind) : list tok :=
  match k with BLogged => [] | BUnlogged => [tki kwUNLOGGED] | BCounter => [tki kwCOUNTER] end.

Definition tokens_of_stmt (s : stmt) : list tok :=
  match s with
  | SDml d => tokens_of_dml d
  | SBatch k u ch semi =>
      tk tkBegin :: tokens_of_batch_kind k ++ tk tkBatch :: tokens_of_using u ++ tokens_of_dmls ch ++
      tk tkApply :: tk tkBatch :: tokens_of_semi semi
  | SSelect tl => tk tkSelect :: tl
  end.

(** ** the documented ground truth
    Written from the property text by recursion on the syntax.

    "now()/uuid() calls anywhere in a term (unqualified or qualified with keyspace system)":
    the name is compared by CQL identifier rules (unquoted: case-insensitively, quoted: exactly). *)
Definition names_nonidem_function (ks : option bytes) (name : bytes) : bool :=
  existsb (ident_equal (ident_of_lexed name)) non_idempotent_funcs &&
  match ks with None => true | Some k => ident_equal (ident_of_lexed k) (str "system") end.

Fixpoint has_nonidem_call (t : term) : bool :=
  match t with
  | TInt | TPrim _ | TBind _ => false
  | TList es | TSet es | TTuple es => has_call_terms es
  | TMap kvs => has_call_entries kvs
  | TUdt fs => has_call_fields fs
  | TCast _ t => has_nonidem_call t
  | TFun ks name args => names_nonidem_function ks name || has_call_fargs args
  end
with has_call_terms (es : terms) : bool :=
  match es with TNil => false | TCons e r => has_nonidem_call e || has_call_terms r end
with has_call_entries (kvs : entries) : bool :=
  match kvs with ENil => false | ECons k v r => has_nonidem_call k || has_nonidem_call v || has_call_entries r end
with has_call_fields (fs : fields) : bool :=
  match fs with FNil => false | FCons _ v r => has_nonidem_call v || has_call_fields r end
with has_call_fargs (a : fargs) : bool :=
  match a with ANil => false | ATerm t r => has_nonidem_call t || has_call_fargs r | AIdent _ r => has_call_fargs r end.

Definition doc_idem_term (t : term) : bool := negb (has_nonidem_call t).

Fixpoint doc_idem_relation (r : relation) : bool :=
  match r with
  | RCmp _ _ t | RContains _ _ t | RLike _ t | RToken _ _ t => doc_idem_term t
  | RIn _ es | RTuple _ _ es => negb (has_call_terms es)
  | RInBind _ _ | RIsNotNull _ | RTupleBind _ _ _ => true
  | RIndex _ i _ t => doc_idem_term i && doc_idem_term t
  | RParen r => doc_idem_relation r
  end.

(** "c = c +/- term is not idempotent unless term is a set/map/UDT/tuple literal" *)
Definition is_curly_or_tuple_literal (t : term) : bool :=
  match t with TSet _ | TMap _ | TUdt _ | TTuple _ => true | _ => false end.

Definition doc_idem_update_op (o : update_op) : bool :=
  match o with
  | USet _ t | UField _ _ t => doc_idem_term t
  | UAdd _ _ t | USub _ _ t | UPrepend _ t _ | UAddEq _ t | USubEq _ t => doc_idem_term t && is_curly_or_tuple_literal t
  | UIndex _ i t => doc_idem_term i && doc_idem_term t
  end.

(** "delete-by-index DELETE l[i] where i is an integer literal, bind marker, function call or cast" *)
Definition is_list_index_like (t : term) : bool :=
  match t with TInt | TBind _ | TFun _ _ _ | TCast _ _ => true | _ => false end.

Definition doc_idem_delete_op (o : delete_op) : bool :=
  match o with
  | DCol _ | DField _ _ => true
  | DIndex _ i => doc_idem_term i && negb (is_list_index_like i)
  end.

Definition no_if (i : ifclause) : bool := match i with None => true | Some _ => false end.

Definition doc_idem_dml (d : dml) : bool :=
  match d with
  | DInsert _ _ vals ifc _ _ => negb (has_call_terms vals) && no_if ifc
  | DInsertJson _ _ ifc _ _ => no_if ifc
  | DUpdate _ _ ops w ifc _ => forallb doc_idem_update_op ops && forallb doc_idem_relation w && no_if ifc
  | DDelete ops _ _ w ifc _ => forallb doc_idem_delete_op ops && forallb doc_idem_relation w && no_if ifc
  end.

Definition doc_idem_stmt (s : stmt) : bool :=
  match s with
  | SDml d => doc_idem_dml d
  | SBatch k _ ch _ => match k with BCounter => false | _ => forallb doc_idem_dml ch end
  | SSelect _ => true
  end.

(** ** the plain class: literals, bind markers, collection/tuple/UDT literals of such, set/map
    additions; no IF, no function call, no cast *)
Fixpoint plain_term (t : term) : bool :=
  match t with
  | TInt | TPrim _ | TBind _ => true
  | TList es | TSet es | TTuple es => plain_terms es
  | TMap kvs => plain_entries kvs
  | TUdt fs => plain_fields fs
  | TCast _ _ | TFun _ _ _ => false
  end
with plain_terms (es : terms) : bool :=
  match es with TNil => true | TCons e r => plain_term e && plain_terms r end
with plain_entries (kvs : entries) : bool :=
  match kvs with ENil => true | ECons k v r => plain_term k && plain_term v && plain_entries r end
with plain_fields (fs : fields) : bool :=
  match fs with FNil => true | FCons _ v r => plain_term v && plain_fields r end.

Fixpoint plain_relation (r : relation) : bool :=
  match r with
  | RCmp _ _ t | RContains _ _ t | RLike _ t | RToken _ _ t => plain_term t
  | RIn _ es | RTuple _ _ es => plain_terms es
  | RInBind _ _ | RIsNotNull _ | RTupleBind _ _ _ => true
  | RIndex _ i _ t => plain_term i && plain_term t
  | RParen r => plain_relation r
  end.

Definition is_set_or_map_literal (t : term) : bool := match t with TSet _ | TMap _ => true | _ => false end.

Definition plain_update_op (o : update_op) : bool :=
  match o with
  | USet _ t | UField _ _ t => plain_term t
  | UAdd _ _ t | UPrepend _ t _ | UAddEq _ t => plain_term t && is_set_or_map_literal t     (* set/map additions *)
  | USub _ _ _ | USubEq _ _ => false
  | UIndex _ i t => plain_term i && plain_term t
  end.

Definition plain_delete_op (o : delete_op) : bool :=
  match o with
  | DCol _ | DField _ _ => true
  | DIndex _ i => plain_term i && negb (is_list_index_like i)       (* a map key, not a list index *)
  end.

Definition plain_dml (d : dml) : bool :=
  match d with
  | DInsert _ _ vals ifc _ _ => plain_terms vals && no_if ifc
  | DInsertJson _ _ ifc _ _ => no_if ifc
  | DUpdate _ _ ops w ifc _ => forallb plain_update_op ops && forallb plain_relation w && no_if ifc
  | DDelete ops _ _ w ifc _ => forallb plain_delete_op ops && forallb plain_relation w && no_if ifc
  end.

Definition plain_stmt (s : stmt) : bool :=
  match s with
  | SDml d => plain_dml d
  | SBatch k _ ch _ => match k with BCounter => false | _ => forallb plain_dml ch end
  | SSelect _ => true
  end.

(** ** the exact verdict of the classifier on syntax (proved equal to the classifier's verdict on
    [tokens_of_stmt] for well-formed statements in AstProofs.v) *)
Definition type_of (t : term) : N :=
  match t with
  | TInt => tInteger | TPrim _ => tPrimitive | TBind _ => tBind | TList _ => tList
  | TSet _ | TMap _ | TUdt _ => tSetMapUdt | TTuple _ => tTuple | TCast _ _ => tCast | TFun _ _ _ => tFunc
  end.

Definition ks_ident (ks : option bytes) : ident := match ks with Some k => ident_of_lexed k | None => empty_ident end.

Fixpoint cls_term (t : term) : bool :=
  match t with
  | TInt | TPrim _ | TBind _ => true
  | TList es | TSet es | TTuple es => cls_terms es
  | TMap kvs => cls_entries kvs
  | TUdt fs => cls_fields fs
  | TCast _ t => cls_term t
  | TFun ks name args =>
      cls_fargs args &&
      negb (is_non_idempotent_func (ident_of_lexed name) &&
            (ident_is_empty (ks_ident ks) || ident_equal (ks_ident ks) (str "system")))
  end
with cls_terms (es : terms) : bool :=
  match es with TNil => true | TCons e r => cls_term e && cls_terms r end
with cls_entries (kvs : entries) : bool :=
  match kvs with ENil => true | ECons k v r => cls_term k && cls_term v && cls_entries r end
with cls_fields (fs : fields) : bool :=
  match fs with FNil => true | FCons _ v r => cls_term v && cls_fields r end
with cls_fargs (a : fargs) : bool :=
  match a with ANil => true | ATerm t r => cls_term t && cls_fargs r | AIdent _ r => cls_fargs r end.

Fixpoint cls_relation (r : relation) : bool :=
  match r with
  | RCmp _ _ t | RContains _ _ t | RLike _ t | RToken _ _ t => cls_term t
  | RIn _ es | RTuple _ _ es => cls_terms es
  | RInBind _ _ | RIsNotNull _ | RTupleBind _ _ _ => true
  | RIndex _ i _ t => cls_term i && cls_term t
  | RParen r => cls_relation r
  end.

Definition cls_update_op (o : update_op) : bool :=
  match o with
  | USet _ t | UField _ _ t => cls_term t
  | UAdd _ _ t | USub _ _ t | UPrepend _ t _ | UAddEq _ t | USubEq _ t => cls_term t && idem_update_op_type (type_of t)
  | UIndex _ i t => cls_term i && cls_term t
  end.

Definition cls_delete_op (o : delete_op) : bool :=
  match o with
  | DCol _ | DField _ _ => true
  | DIndex _ i => cls_term i && idem_delete_element_type (type_of i)
  end.

Definition cls_dml (d : dml) : bool :=
  match d with
  | DInsert _ _ vals ifc _ _ => cls_terms vals && no_if ifc
  | DInsertJson _ _ ifc _ _ => no_if ifc
  | DUpdate _ _ ops w ifc _ => forallb cls_update_op ops && forallb cls_relation w && no_if ifc
  | DDelete ops _ _ w ifc _ => forallb cls_delete_op ops && forallb cls_relation w && no_if ifc
  end.

Definition cls_stmt (s : stmt) : bool :=
  match s with
  | SDml d => cls_dml d
  | SBatch k _ ch _ => match k with BCounter => false | _ => forallb cls_dml ch end
  | SSelect _ => true
  end.

(** ** depth (number of nested parseTerm/parseRelation activations) *)
Fixpoint depth (t : term) : nat :=
  match t with
  | TInt | TPrim _ | TBind _ => 1
  | TList es | TSet es | TTuple es => S (depth_terms es)
  | TMap kvs => S (depth_entries kvs)
  | TUdt fs => S (depth_fields fs)
  | TCast _ t => S (depth t)
  | TFun _ _ args => S (depth_fargs args)
  end
with depth_terms (es : terms) : nat :=
  match es with TNil => 0 | TCons e r => Nat.max (depth e) (depth_terms r) end
with depth_entries (kvs : entries) : nat :=
  match kvs with ENil => 0 | ECons k v r => Nat.max (depth k) (Nat.max (depth v) (depth_entries r)) end
with depth_fields (fs : fields) : nat :=
  match fs with FNil => 0 | FCons _ v r => Nat.max (depth v) (depth_fields r) end
with depth_fargs (a : fargs) : nat :=
  match a with ANil => 0 | ATerm t r => Nat.max (depth t) (depth_fargs r) | AIdent _ r => depth_fargs r end.

Fixpoint depth_relation (r : relation) : nat :=
  match r with
  | RCmp _ _ t | RContains _ _ t | RLike _ t | RToken _ _ t => S (depth t)
  | RIn _ es | RTuple _ _ es => S (depth_terms es)
  | RInBind _ _ | RIsNotNull _ | RTupleBind _ _ _ => 1
  | RIndex _ i _ t => S (Nat.max (depth i) (depth t))
  | RParen r => S (depth_relation r)
  end.

(** ** well-formedness: the restrictions under which the printed token list is read back by the
    classifier as the same syntax.  Each restriction is documented with the statement that makes it
    necessary.

    (W1) a primitive literal carries one of the nine primitive token codes (otherwise [TPrim] could
         print any token at all);
    (W2) nesting depth: every term is at most [max_nesting_depth] deep and every relation (which
         shares the nesting counter, a relation being one level itself) likewise -- deeper input is
         refused with "nested too deeply", e.g. 257 opening brackets "[[[...1...]]]";
    (W3) the first element of a tuple literal is not a function call: "(f(), 1)" starts with
         "( identifier" and is read as a cast "(f) ..." and fails, so
         "INSERT INTO t (a) VALUES ((f(1), 2))" is reported not idempotent by a parse error;
    (W4) the operand of CONTAINS (without KEY) does not start with an identifier spelled "key":
         "WHERE c CONTAINS key(1)" is read as CONTAINS KEY (1), the call's argument list becoming a
         tuple literal;
    (W5) a tuple relation has at least one column: "() = (1)" is read as a parenthesised relation
         and fails. *)
Definition prim_codes : list N :=
  [tkFloat; tkBool; tkNull; tkStringLiteral; tkHexNumber; tkUuid; tkDuration; tkNan; tkInfinity].
Definition is_prim_code (c : N) : bool := existsb (N.eqb c) prim_codes.

Definition is_fun (t : term) : bool := match t with TFun _ _ _ => true | _ => false end.
Definition first_not_fun (es : terms) : bool := match es with TCons e _ => negb (is_fun e) | TNil => true end.

Fixpoint wf_term (t : term) : bool :=
  match t with
  | TInt | TBind _ => true
  | TPrim c => is_prim_code c                                (* W1 *)
  | TList es | TSet es => wf_terms es
  | TTuple es => first_not_fun es && wf_terms es             (* W3 *)
  | TMap kvs => wf_entries kvs
  | TUdt fs => wf_fields fs
  | TCast _ t => wf_term t
  | TFun _ _ args => wf_fargs args
  end
with wf_terms (es : terms) : bool :=
  match es with TNil => true | TCons e r => wf_term e && wf_terms r end
with wf_entries (kvs : entries) : bool :=
  match kvs with ENil => true | ECons k v r => wf_term k && wf_term v && wf_entries r end
with wf_fields (fs : fields) : bool :=
  match fs with FNil => true | FCons _ v r => wf_term v && wf_fields r end
with wf_fargs (a : fargs) : bool :=
  match a with ANil => true | ATerm t r => wf_term t && wf_fargs r | AIdent _ r => wf_fargs r end.

Definition depth_ok (d : nat) : bool := N.of_nat d <=? max_nesting_depth.      (* W2 *)
Definition wf_top_term (t : term) : bool := wf_term t && depth_ok (depth t).
Definition wf_top_terms (es : terms) : bool := wf_terms es && depth_ok (depth_terms es).

Definition head_ident (t : term) : option bytes :=
  match t with TFun (Some k) _ _ => Some k | TFun None n _ => Some n | _ => None end.
Definition not_key_headed (t : term) : bool :=
  match head_ident t with Some i => negb (ident_equal (ident_of_lexed i) (str "key")) | None => true end.

Fixpoint wf_relation (r : relation) : bool :=
  match r with
  | RCmp _ _ t | RLike _ t | RToken _ _ t => wf_term t
  | RContains _ key t => wf_term t && (key || not_key_headed t)            (* W4 *)
  | RIn _ es => wf_terms es
  | RTuple cols _ es => negb (match cols with [] => true | _ => false end) && wf_terms es      (* W5 *)
  | RTupleBind cols _ _ => negb (match cols with [] => true | _ => false end)                  (* W5 *)
  | RInBind _ _ | RIsNotNull _ => true
  | RIndex _ i _ t => wf_term i && wf_term t
  | RParen r => wf_relation r
  end.
Definition wf_top_relation (r : relation) : bool := wf_relation r && depth_ok (depth_relation r).

Definition wf_update_op (o : update_op) : bool :=
  match o with
  | USet _ t | UField _ _ t | UAdd _ _ t | USub _ _ t | UPrepend _ t _ | UAddEq _ t | USubEq _ t => wf_top_term t
  | UIndex _ i t => wf_top_term i && wf_top_term t
  end.
Definition wf_delete_op (o : delete_op) : bool :=
  match o with DCol _ | DField _ _ => true | DIndex _ i => wf_top_term i end.

Definition wf_dml (d : dml) : bool :=
  match d with
  | DInsert _ _ vals _ _ _ => wf_top_terms vals
  | DInsertJson _ _ _ _ _ => true
  | DUpdate _ _ ops w _ _ => forallb wf_update_op ops && forallb wf_top_relation w
  | DDelete ops _ _ w _ _ => forallb wf_delete_op ops && forallb wf_top_relation w
  end.

Definition wf_stmt_b (s : stmt) : bool :=
  match s with
  | SDml d => wf_dml d
  | SBatch _ _ ch _ => forallb wf_dml ch
  | SSelect _ => true
  end.
Definition wf_stmt (s : stmt) : Prop := wf_stmt_b s = true.

(** ** the one corner where the classifier is stricter than the documentation: a call qualified by an
    empty quoted keyspace name ([""]).  [noemptyks_stmt] excludes it; under it the classifier's verdict
    and the documented verdict coincide (AstProofs.classifier_complete). *)
Definition ks_not_empty (ks : option bytes) : bool :=
  match ks with Some k => negb (ident_is_empty (ident_of_lexed k)) | None => true end.

Fixpoint noemptyks_term (t : term) : bool :=
  match t with
  | TInt | TPrim _ | TBind _ => true
  | TList es | TSet es | TTuple es => noemptyks_terms es
  | TMap kvs => noemptyks_entries kvs
  | TUdt fs => noemptyks_fields fs
  | TCast _ t => noemptyks_term t
  | TFun ks _ args => ks_not_empty ks && noemptyks_fargs args
  end
with noemptyks_terms (es : terms) : bool :=
  match es with TNil => true | TCons e r => noemptyks_term e && noemptyks_terms r end
with noemptyks_entries (kvs : entries) : bool :=
  match kvs with ENil => true | ECons k v r => noemptyks_term k && noemptyks_term v && noemptyks_entries r end
with noemptyks_fields (fs : fields) : bool :=
  match fs with FNil => true | FCons _ v r => noemptyks_term v && noemptyks_fields r end
with noemptyks_fargs (a : fargs) : bool :=
  match a with ANil => true | ATerm t r => noemptyks_term t && noemptyks_fargs r | AIdent _ r => noemptyks_fargs r end.

Fixpoint noemptyks_relation (r : relation) : bool :=
  match r with
  | RCmp _ _ t | RContains _ _ t | RLike _ t | RToken _ _ t => noemptyks_term t
  | RIn _ es | RTuple _ _ es => noemptyks_terms es
  | RInBind _ _ | RIsNotNull _ | RTupleBind _ _ _ => true
  | RIndex _ i _ t => noemptyks_term i && noemptyks_term t
  | RParen r => noemptyks_relation r
  end.

Definition noemptyks_update_op (o : update_op) : bool :=
  match o with
  | USet _ t | UField _ _ t | UAdd _ _ t | USub _ _ t | UPrepend _ t _ | UAddEq _ t | USubEq _ t => noemptyks_term t
  | UIndex _ i t => noemptyks_term i && noemptyks_term t
  end.
Definition noemptyks_delete_op (o : delete_op) : bool :=
  match o with DCol _ | DField _ _ => true | DIndex _ i => noemptyks_term i end.

Definition noemptyks_dml (d : dml) : bool :=
  match d with
  | DInsert _ _ vals _ _ _ => noemptyks_terms vals
  | DInsertJson _ _ _ _ _ => true
  | DUpdate _ _ ops w _ _ => forallb noemptyks_update_op ops && forallb noemptyks_relation w
  | DDelete ops _ _ w _ _ => forallb noemptyks_delete_op ops && forallb noemptyks_relation w
  end.

Definition noemptyks_stmt (s : stmt) : bool :=
  match s with
  | SDml d => noemptyks_dml d
  | SBatch _ _ ch _ => forallb noemptyks_dml ch
  | SSelect _ => true
  end.
