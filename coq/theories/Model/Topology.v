(** * Topology: following the backend's peers table, reconnect backoff, control-connection
    failover and the outage clock (proxycore/cluster.go mergeHosts / reconnect / stayConnected /
    OutageDuration, lb.go OnEvent, session.go OnEvent, reconnpolicy.go, proxy/run.go readiness).
    Property C16. *)
From Coq Require Import List ZArith NArith Bool Lia.
From CqlProxy Require Import Lib.Val Lib.Util.
Import ListNotations.
Local Open Scope Z_scope.

(** ** A. the backoff calculator (reconnpolicy.go), on Go's int64 *)
Definition wrap64 (z : Z) : Z := (z + 2 ^ 63) mod 2 ^ 64 - 2 ^ 63.
Definition ms : Z := 1000000.

(** 63 - bits.LeadingZeros64(uint64 base) *)
Definition max_attempts (base : Z) : Z :=
  if base =? 0 then -1 else if base <? 0 then 63 else Z.log2 base.

(** one NextDelay call: the delay and the new attempt counter; [jitter] is rand.Intn(30)+85 *)
Definition next_delay (base max attempts jitter : Z) : Z * Z :=
  if attempts >=? max_attempts base then (max, attempts)
  else
    let exp := wrap64 (ms * 2 ^ attempts) in
    let delay := wrap64 (wrap64 (base + exp) + jitter * ms) in
    ((if (delay >? max) || (delay <? base) then max else delay), attempts + 1).

(** the delays of [n] consecutive calls with the given jitters *)
Fixpoint delays (base max attempts : Z) (jitters : list Z) : list Z :=
  match jitters with
  | [] => []
  | j :: r => let '(d, a) := next_delay base max attempts j in d :: delays base max a r
  end.

Definition jitter_ok (j : Z) : bool := (85 <=? j) && (j <? 115).

(** is the observed delay the result of call number [attempts] for some legal jitter? *)
Definition delay_explained (base max attempts d : Z) : bool :=
  existsb (fun j => fst (next_delay base max attempts j) =? d) (map (fun k => 85 + Z.of_nat k) (seq 0 30)).

Fixpoint delays_explained (base max attempts : Z) (ds : list Z) : list Z :=
  match ds with
  | [] => []
  | d :: r =>
      (if delay_explained base max attempts d then 0 else 1)
        :: delays_explained base max (snd (next_delay base max attempts 85)) r
  end.

(** ** B. following the peers table: mergeHosts emits Add / Remove, the load balancer and every
    session apply them *)
Local Open Scope N_scope.
Definition memh (x : N) (l : list N) : bool := existsb (N.eqb x) l.
Inductive tev := Add (h : N) | Remove (h : N).

Definition merge_events (old new : list N) : list tev :=
  map Add (filter (fun h => negb (memh h old)) new) ++ map Remove (filter (fun h => negb (memh h new)) old).

Fixpoint remove_first (h : N) (l : list N) : list N :=
  match l with
  | [] => []
  | x :: r => if N.eqb x h then r else x :: remove_first h r
  end.

(** lb.go OnEvent: AddEvent appends, RemoveEvent deletes the first host with that key *)
Definition lb_apply (l : list N) (e : tev) : list N :=
  match e with Add h => l ++ [h] | Remove h => remove_first h l end.

Definition follow (lb : list N) (old new : list N) : list N := fold_left lb_apply (merge_events old new) lb.

(** a history of peers tables, each merged in turn; the result is the load balancer's host list *)
Fixpoint follow_all (lb cur : list N) (tables : list (list N)) : list N :=
  match tables with
  | [] => lb
  | t :: r => follow_all (follow lb cur t) t r
  end.

(** hosts that receive requests: those the balancer lists and that are up *)
Definition routed (lb up : list N) : list N := filter (fun h => memh h up) lb.

(** ** C. control-connection failover: reconnect() tries the hosts cyclically from the current index *)
Fixpoint failover (hosts : list N) (up : list N) (idx : nat) (fuel : nat) : option (nat * N) :=
  match fuel with
  | O => None
  | S f =>
      let i := Nat.modulo (idx + 1) (length hosts) in
      match nth_error hosts i with
      | None => None
      | Some h => if memh h up then Some (i, h) else failover hosts up i f
      end
  end.

(** ** D. the outage clock *)
Inductive cev := CLost (t : Z) | CBack | CSample (t : Z).
Record cstate := { control : bool; since : option Z }.
Definition cstep (s : cstate) (e : cev) : cstate * option Z :=
  match e with
  | CLost t => ({| control := false; since := Some t |}, None)
  | CBack => ({| control := true; since := None |}, None)
  | CSample t => (s, Some (match since s with None => 0 | Some t0 => t - t0 end)%Z)
  end.
Fixpoint crun (s : cstate) (es : list cev) : list Z :=
  match es with
  | [] => []
  | e :: r => let '(s', o) := cstep s e in match o with Some d => d :: crun s' r | None => crun s' r end
  end.
Definition ready (outage timeout : Z) : bool := (outage <? timeout)%Z.

(** ** correspondence entries
    (0 base max (delay...))                          -> (0|1 per delay: explained by a legal jitter or not)
    (1 (initial table) ((table) (up)) ...)           -> per step the sorted list of hosts receiving requests
    (2 (hosts in cluster order) (up) idx)            -> (host the control connection lands on | 0)
    (3 ((0 t) | (1) | (2 t)) ...)                    -> per sample 0 (no outage) | 1 (outage)
    (4 timeout ((0 t) | (1) | (5 t)) ...)            -> per sample 0 (ready) | 1 (not ready)
    (5 idle conns)                                   -> (closed-after-idle-timeout served-meanwhile healed) *)
Fixpoint insert_sorted (x : N) (l : list N) : list N :=
  match l with [] => [x] | y :: r => if x <=? y then x :: l else y :: insert_sorted x r end.
Definition sortN (l : list N) : list N := fold_right insert_sorted [] l.

Fixpoint run_tables (lb cur : list N) (steps : list val) : list val :=
  match steps with
  | [] => []
  | s :: r =>
      let t := map vN (vL (nthv 0 s)) in
      let up := map vN (vL (nthv 1 s)) in
      let lb' := follow lb cur t in
      L (map IN (sortN (routed lb' up))) :: run_tables lb' t r
  end.

Definition cev_of_val (e : val) : cev :=
  match vZ (nthv 0 e) with 0%Z => CLost (vZ (nthv 1 e)) | 1%Z => CBack | _ => CSample (vZ (nthv 1 e)) end.

Definition run_c16 (input : val) : val :=
  match vZ (nthv 0 input) with
  | 0%Z => L (map I (delays_explained (vZ (nthv 1 input)) (vZ (nthv 2 input)) 0 (map vZ (vL (nthv 3 input)))))
  | 1%Z => let t0 := map vN (vL (nthv 1 input)) in L (run_tables t0 t0 (vL (nthv 2 input)))
  | 2%Z => let hosts := map vN (vL (nthv 1 input)) in
           match failover hosts (map vN (vL (nthv 2 input))) (Z.to_nat (vZ (nthv 3 input))) (length hosts) with
           | Some (_, h) => L [IN h] | None => L [I 0] end
  | 3%Z => L (map (fun d => I (if (d =? 0)%Z then 0 else 1)) (crun {| control := true; since := None |} (map cev_of_val (vL (nthv 1 input)))))
  | 4%Z => L (map (fun d => I (if ready d (vZ (nthv 1 input)) then 0 else 1)) (crun {| control := true; since := None |} (map cev_of_val (vL (nthv 2 input)))))
  | _ => L [I 1; I 1; I 1]
  end.

Definition holds_c16 (input output : val) : val :=
  match vZ (nthv 0 input) with
  | 0%Z =>
      let base := vZ (nthv 1 input) in let max := vZ (nthv 2 input) in
      let ds := map vZ (vL (nthv 3 input)) in
      if forallb (fun d => (Z.min base max <=? d)%Z && (d <=? max)%Z) ds then B []
      else B (str "reconnect-delay-outside-the-configured-bounds")
  | 1%Z =>
      (* every step: the hosts receiving requests are exactly the listed hosts that are up *)
      let fix go (steps outs : list val) : bool :=
        match steps, outs with
        | [], [] => true
        | s :: r, o :: ro =>
            let t := map vN (vL (nthv 0 s)) in let up := map vN (vL (nthv 1 s)) in
            let want := sortN (filter (fun h => memh h up) t) in
            let got := map vN (vL o) in
            (Nat.eqb (length want) (length got) && forallb (fun p => N.eqb (fst p) (snd p)) (combine want got)) && go r ro
        | _, _ => false
        end in
      if go (vL (nthv 2 input)) (vL output) then B [] else B (str "routing-does-not-follow-the-peers-table")
  | 2%Z =>
      let up := map vN (vL (nthv 2 input)) in
      let got := vN (nthv 0 output) in
      if memh got up || (N.eqb got 0 && match up with [] => true | _ => false end) then B []
      else B (str "control-connection-did-not-fail-over-to-a-known-host-that-is-up")
  | 5%Z =>
      if negb (vbool (nthv 0 output)) then B (str "connection-that-stopped-answering-heartbeats-not-closed-after-the-idle-timeout")
      else if negb (vbool (nthv 1 output)) then B (str "requests-not-served-by-the-other-hosts-while-one-is-silent")
      else if negb (vbool (nthv 2 output)) then B (str "host-not-used-again-after-it-answers-again")
      else B []
  | _ => B []
  end.
