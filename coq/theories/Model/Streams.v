(** * Streams: the backend stream-id allocator and pending table of one backend connection
    (proxycore/requests.go: pendingRequests), at the granularity of its atomic steps, and the
    routing of a backend frame back to the client (ClientConn.Receive -> request.sendRaw).
    Property C02.

    store          = [TakeId]  (receive from the buffered channel of free ids, or fail)
                     then [MapStore] (sync.Map.Store)
    loadAndDelete  = [MapTake] (sync.Map.LoadAndDelete) then [ReturnId] (send to the channel)
    A thread may be pre-empted between the two halves; it then *holds* an id. *)
From Coq Require Import List ZArith NArith Bool Lia Permutation.
From CqlProxy Require Import Lib.Val Lib.Util.
Import ListNotations.
Local Open Scope N_scope.

(** a request as far as routing is concerned: who is waiting for the answer, and a token
    identifying the request's content (the backend's answer echoes it) *)
Record req := { r_client : N; r_stream : N; r_token : N }.

Definition req_eqb (a b : req) : bool :=
  (r_client a =? r_client b) && (r_stream a =? r_stream b) && (r_token a =? r_token b).

Record pstate := {
  free : list N;               (* the channel of free ids, head = next to be handed out *)
  pending : list (N * req);    (* the sync.Map *)
  held : list (N * N)          (* (thread, id): ids taken from one structure and not yet put into the other *)
}.

Definition init_pstate (max : nat) : pstate :=
  {| free := map N.of_nat (seq 0 max); pending := []; held := [] |}.

Fixpoint remove_key {V} (k : N) (m : list (N * V)) : list (N * V) :=
  match m with
  | [] => []
  | (k', v) :: r => if k =? k' then r else (k', v) :: remove_key k r
  end.

Fixpoint lookup {V} (k : N) (m : list (N * V)) : option V :=
  match m with
  | [] => None
  | (k', v) :: r => if k =? k' then Some v else lookup k r
  end.

Inductive event :=
| TakeId (t : N)                 (* stream := <-p.streams  (select default: -1 when empty) *)
| MapStore (t : N) (r : req)     (* p.pending.Store(stream, request) *)
| MapTake (t : N) (s : N)        (* p.pending.LoadAndDelete(stream) *)
| ReturnId (t : N).              (* p.streams <- stream *)

Inductive out :=
| OTook (s : N) | OExhausted     (* result of TakeId *)
| OStored (s : N)
| OFound (r : req) | OAbsent     (* result of MapTake *)
| OReturned (s : N)
| ONotEnabled.                   (* the thread is not at this point of its code *)

Definition step (st : pstate) (e : event) : pstate * out :=
  match e with
  | TakeId t =>
      match lookup t (held st) with
      | Some _ => (st, ONotEnabled)
      | None =>
          match free st with
          | [] => (st, OExhausted)
          | s :: f => ({| free := f; pending := pending st; held := (t, s) :: held st |}, OTook s)
          end
      end
  | MapStore t r =>
      match lookup t (held st) with
      | Some s => ({| free := free st; pending := (s, r) :: pending st; held := remove_key t (held st) |}, OStored s)
      | None => (st, ONotEnabled)
      end
  | MapTake t s =>
      match lookup t (held st) with
      | Some _ => (st, ONotEnabled)
      | None =>
          match lookup s (pending st) with
          | Some r => ({| free := free st; pending := remove_key s (pending st); held := (t, s) :: held st |}, OFound r)
          | None => (st, OAbsent)
          end
      end
  | ReturnId t =>
      match lookup t (held st) with
      | Some s => ({| free := free st ++ [s]; pending := pending st; held := remove_key t (held st) |}, OReturned s)
      | None => (st, ONotEnabled)
      end
  end.

(** A thread that took an id must next store under it; one that took an entry must next
    return the id.  We track which by remembering how the id was obtained. *)
Fixpoint run_events (st : pstate) (es : list event) : pstate * list out :=
  match es with
  | [] => (st, [])
  | e :: r => let '(st', o) := step st e in let '(stf, os) := run_events st' r in (stf, o :: os)
  end.

Definition ids (st : pstate) : list N := free st ++ map fst (pending st) ++ map snd (held st).

(** ** the sequential operations (what a single-threaded caller observes) *)
Definition store (st : pstate) (r : req) : pstate * Z :=
  match free st with
  | [] => (st, (-1)%Z)
  | s :: f => ({| free := f; pending := (s, r) :: pending st; held := held st |}, Z.of_N s)
  end.

Definition load_and_delete (st : pstate) (s : N) : pstate * option req :=
  match lookup s (pending st) with
  | Some r => ({| free := free st ++ [s]; pending := remove_key s (pending st); held := held st |}, Some r)
  | None => (st, None)
  end.

(** ** routing: the frame written to a client for a backend frame on stream [b] *)
Record delivery := { d_client : N; d_stream : N; d_token : N }.

(** ClientConn.Receive + request.OnResult/sendRaw for a frame that echoes [token] on backend
    stream [b]: the request registered under [b] gets it, on its own client and stream. *)
Definition deliver (st : pstate) (b : N) (token : N) : pstate * option delivery :=
  match load_and_delete st b with
  | (st', Some r) => (st', Some {| d_client := r_client r; d_stream := r_stream r; d_token := token |})
  | (st', None) => (st', None)
  end.

(** ** correspondence entry points for C02
    kind 0  (0 max (op...))   op: (0 client stream token) store | (1 id) loadAndDelete
            output: (result...)  store -> stream id or -1; loadAndDelete -> (client stream token) or ()
    kind 1  (1 ((client stream token)...))   requests sent through the proxy, concurrently
            output: ((client stream token_received)...) sorted by (client, stream); model: the same list sorted *)
Fixpoint run_ops (st : pstate) (ops : list val) : list val :=
  match ops with
  | [] => []
  | o :: r =>
      if Z.eqb (vZ (nthv 0 o)) 0 then
        let '(st', s) := store st {| r_client := vN (nthv 1 o); r_stream := vN (nthv 2 o); r_token := vN (nthv 3 o) |} in
        I s :: run_ops st' r
      else
        let '(st', x) := load_and_delete st (vN (nthv 1 o)) in
        match x with
        | Some q => L [IN (r_client q); IN (r_stream q); IN (r_token q)] :: run_ops st' r
        | None => L [] :: run_ops st' r
        end
  end.

Definition run_c02 (input : val) : val :=
  if Z.eqb (vZ (nthv 0 input)) 0 then
    L (run_ops (init_pstate (N.to_nat (vN (nthv 1 input)))) (vL (nthv 2 input)))
  else nthv 1 input.

Definition holds_c02 (input output : val) : val :=
  if Z.eqb (vZ (nthv 0 input)) 0 then
    (if val_eqb output (run_c02 input) then B [] else B (str "stream-allocator-differs-from-specification"))
  else if val_eqb output (nthv 1 input) then B []
  else B (str "answer-delivered-to-another-request").
