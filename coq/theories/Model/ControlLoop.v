(** * ControlLoop: the control connection's reader goroutine and the cluster's event loop
    (proxycore/cluster.go OnEvent / stayConnected / refreshHosts, proxycore/clientconn.go Receive / SendAndReceive).

    Two processes share the control connection.  The READER takes frames off the socket in order; an EVENT frame is
    handed to [Cluster.OnEvent], a RESPONSE frame to the request that waits for it.  The LOOP handles events and, when
    its refresh timer fires, sends the host-refresh query and waits for the response ([refreshHosts] ->
    [queryHosts] -> [SendAndReceive]) -- a response only the reader can deliver.

    [orig = true] is the code before the repair 480d57e: [OnEvent] sends on an unbuffered channel that only the loop
    receives from, and the loop receives only while it is in its select.  [orig = false]: [OnEvent] appends to a queue
    and signals; the loop takes the whole queue when it is in its select.

    The refresh is in two steps: [SRefresh] writes the query and makes the loop wait ([asked]: the query is at the
    backend and not yet answered); [SAnswer] is the backend writing the response.  Between the two the backend may
    write events, which are then AHEAD of the response on the socket.

    Properties C14 (every schema event reaches the listeners once, in order) and C16 (a refresh completes). *)
From Coq Require Import List ZArith NArith Bool Lia.
From CqlProxy Require Import Lib.Val Lib.Util.
Import ListNotations.
Local Open Scope N_scope.

Inductive item := IEvent (id : N) | IResp.

Inductive lstate := LSelect | LWaitResp.     (* in the select of stayConnected / inside refreshHosts *)

Record cstate := {
  socket : list item;          (* frames the backend has written and the reader has not read yet, oldest first *)
  holding : option item;       (* the frame the reader has decoded and is handing over *)
  lp : lstate;
  queue : list N;              (* pendingEvents (repaired code only) *)
  delivered : list N;          (* events the loop has passed to the listeners, oldest first *)
  refreshes : nat;             (* refreshes completed *)
  lost : bool;                 (* the refresh timed out: the connection is closed, what was on it is gone *)
  asked : bool                 (* the refresh query is at the backend and not yet answered *)
}.

Inductive cstep :=
| SBackend (x : item)          (* the backend writes an event (a response is written only to a query, see SAnswer) *)
| SRead                        (* reader: DecodeFrame *)
| SHand                        (* reader: OnEvent / deliver the response *)
| STake                        (* loop: case <-c.events (repaired: take the whole queue) *)
| SRefresh                     (* loop: case <-refreshTimer.C: the query is written, the loop waits for the response *)
| SAnswer                      (* the backend writes the response to the query *)
| STimeout.                    (* loop: SendAndReceive's context expires *)

Definition enabled (orig : bool) (s : cstate) (st : cstep) : bool :=
  negb (lost s) &&
  match st with
  | SBackend (IEvent _) => true
  | SBackend IResp => false
  | SRead => match holding s, socket s with None, _ :: _ => true | _, _ => false end
  | SHand =>
      match holding s with
      | Some IResp => true                                   (* the waiting request's channel is buffered *)
      | Some (IEvent _) => if orig then (match lp s with LSelect => true | LWaitResp => false end) else true
      | None => false
      end
  | STake => (match lp s with LSelect => true | LWaitResp => false end) && negb orig && (match queue s with [] => false | _ => true end)
  | SRefresh => match lp s with LSelect => true | LWaitResp => false end
  | SAnswer => asked s
  | STimeout => match lp s with LWaitResp => true | LSelect => false end
  end.

Definition step (orig : bool) (s : cstate) (st : cstep) : cstate :=
  if negb (enabled orig s st) then s else
  match st with
  | SBackend x => {| socket := socket s ++ [x]; holding := holding s; lp := lp s; queue := queue s; delivered := delivered s; refreshes := refreshes s; lost := false; asked := asked s |}
  | SRead =>
      match socket s with
      | x :: r => {| socket := r; holding := Some x; lp := lp s; queue := queue s; delivered := delivered s; refreshes := refreshes s; lost := false; asked := asked s |}
      | [] => s
      end
  | SHand =>
      match holding s with
      | Some IResp =>
          {| socket := socket s; holding := None; lp := LSelect; queue := queue s; delivered := delivered s;
             refreshes := (match lp s with LWaitResp => S (refreshes s) | LSelect => refreshes s end); lost := false; asked := asked s |}
      | Some (IEvent id) =>
          if orig then {| socket := socket s; holding := None; lp := lp s; queue := queue s; delivered := delivered s ++ [id]; refreshes := refreshes s; lost := false; asked := asked s |}
          else {| socket := socket s; holding := None; lp := lp s; queue := queue s ++ [id]; delivered := delivered s; refreshes := refreshes s; lost := false; asked := asked s |}
      | None => s
      end
  | STake => {| socket := socket s; holding := holding s; lp := lp s; queue := []; delivered := delivered s ++ queue s; refreshes := refreshes s; lost := false; asked := asked s |}
  | SRefresh => {| socket := socket s; holding := holding s; lp := LWaitResp; queue := queue s; delivered := delivered s; refreshes := refreshes s; lost := false; asked := true |}
  | SAnswer => {| socket := socket s ++ [IResp]; holding := holding s; lp := lp s; queue := queue s; delivered := delivered s; refreshes := refreshes s; lost := false; asked := false |}
  | STimeout => {| socket := []; holding := None; lp := LSelect; queue := queue s; delivered := delivered s; refreshes := refreshes s; lost := true; asked := false |}
  end.

Definition cinit : cstate := {| socket := []; holding := None; lp := LSelect; queue := []; delivered := []; refreshes := 0; lost := false; asked := false |}.
Definition crun (orig : bool) (sts : list cstep) : cstate := fold_left (step orig) sts cinit.

(** events the backend has written so far, in order *)
Definition written (sts : list cstep) : list N :=
  flat_map (fun st => match st with SBackend (IEvent id) => [id] | _ => [] end) sts.

(** the events that are somewhere in the system, in the order they will be delivered *)
Definition in_flight (s : cstate) : list N :=
  queue s
  ++ (match holding s with Some (IEvent id) => [id] | _ => [] end)
  ++ flat_map (fun x => match x with IEvent id => [id] | IResp => [] end) (socket s).

(** nothing but waiting for the time-out can happen although work is pending: neither the reader, nor the loop, nor
    the backend answering a query it has been asked *)
Definition stuck (orig : bool) (s : cstate) : bool :=
  negb (lost s)
  && (match holding s, socket s, queue s with None, [], [] => false | _, _, _ => true end)
  && negb (enabled orig s SRead) && negb (enabled orig s SHand) && negb (enabled orig s STake)
  && negb (enabled orig s SAnswer).
