(** * Handled: which statements the proxy answers by itself (parser.IsQueryHandled,
    parse_select.go) and the independent statement of the rule.  Property C09; the parsed
    selectors are used by C10. *)
From Coq Require Import List ZArith NArith Bool Lia.
From CqlProxy Require Import Lib.Val Lib.Util Lib.Regex Gen.LexRules Gen.Tables Model.Lexer Model.Parser.
Import ListNotations.
Local Open Scope N_scope.

Inductive selector :=
| SelId (name : bytes)
| SelStar
| SelCount (arg : bytes)
| SelNow
| SelAlias (sel : selector) (alias : bytes).

Inductive stmt :=
| StSelect (table : bytes) (sels : list selector)   (* handled SELECT on system.<table> *)
| StDefaultSelect                                    (* a SELECT the proxy does not handle *)
| StUse (keyspace : bytes)
| StNone.

(** untilToken *)
Fixpoint until_token (n : nat) (s : lstate) (to t : N) : N * lstate :=
  if (t =? to) || (t =? tkEOF) then (t, s)
  else match n with
       | O => (t, s)
       | S n' => let '(t1, s1) := next s in until_token n' s1 to t1
       end.

(** the argument loop of a function-call selector: inl error | inr (args, t, state) *)
Fixpoint selector_args (n : nat) (s : lstate) (t : N) (acc : list bytes) : unit + (list bytes * N * lstate) :=
  if (t =? tkRparen) || (t =? tkEOF) then inr (rev acc, t, s)
  else
    match n with
    | O => inl tt
    | S n' =>
        let cont (a : bytes) :=
          let '(t1, s1) := next s in
          let '(t2, s2) := skip_token s1 t1 tkComma in
          selector_args n' s2 t2 (a :: acc) in
        if t =? tkStar then cont (str "*")
        else if t =? tkIdentifier then cont (lid s)
        else inl tt
    end.

(** ASCII strings.EqualFold for the function names (the lexer only yields ASCII identifiers) *)
Definition name_is (name kw : bytes) : bool := equal_fold name kw.

(** parseSelector: None = error *)
Definition parse_selector (n : nat) (s : lstate) (t : N) : option (selector * N * lstate) :=
  let alias_or_not (sel : selector) (s' : lstate) :=
    let '(t1, s1) := next s' in
    if is_kw s1 t1 (str "as") then
      let '(t2, s2) := next s1 in
      if negb (t2 =? tkIdentifier) then None
      else let '(t3, s3) := next s2 in Some (SelAlias sel (lid s2), t3, s3)
    else Some (sel, t1, s1) in
  if t =? tkIdentifier then
    let name := lid s in
    let sm := mark s in
    let '(t1, s1) := next sm in
    if t1 =? tkLparen then
      let '(t2, s2) := next s1 in
      match selector_args n s2 t2 [] with
      | inl _ => None
      | inr (args, t3, s3) =>
          if negb (t3 =? tkRparen) then None
          else if name_is name (str "count") then
            match args with
            | [] => None
            | a :: _ => let '(t4, s4) := next s3 in Some (SelCount a, t4, s4)
            end
          else if name_is name (str "now") then
            match args with
            | [] => let '(t4, s4) := next s3 in Some (SelNow, t4, s4)
            | _ => None
            end
          else None
      end
    else alias_or_not (SelId name) (rewind s1)
  else if t =? tkStar then let '(t1, s1) := next s in Some (SelStar, t1, s1)
  else None.

(** the selector loop of isHandledSelectStmt: None = error *)
Fixpoint selectors_loop (n : nat) (s : lstate) (t : N) (acc : list selector) : option (list selector) :=
  if (t =? tkFrom) || (t =? tkEOF) then Some (rev acc)
  else
    match n with
    | O => None
    | S n' =>
        if (t =? tkIdentifier) && (is_kw s t (str "json") || is_kw s t (str "distinct")) then None
        else
          match parse_selector n s t with
          | None => None
          | Some (sel, t1, s1) =>
              let '(t2, s2) := skip_token s1 t1 tkComma in
              selectors_loop n' s2 t2 (sel :: acc)
          end
    end.

(** Identifier.ID(): the name as the backend would print it *)
Fixpoint unescape_quotes (s : bytes) : bytes :=
  match s with
  | 34 :: 34 :: r => 34 :: unescape_quotes r
  | c :: r => c :: unescape_quotes r
  | [] => []
  end.
Definition ident_ID (i : ident) : bytes := if i_ic i then lower (i_id i) else unescape_quotes (i_id i).

(** isHandledSelectStmt: (handled, statement, error) *)
Definition handled_select (n : nat) (keyspace : ident) (s0 : lstate) : bool * stmt * bool :=
  let sm := mark s0 in
  let '(t, s1) := until_token n sm tkFrom tkInvalid in
  if negb (t =? tkFrom) then (false, StNone, true)
  else
    let '(t1, s2) := next s1 in
    if negb (t1 =? tkIdentifier) then (false, StNone, true)
    else
      let '(qks, table, _, err, s3) := parse_qualified s2 in
      (* the keyspace in force is the qualifier when there is one, the connection's otherwise *)
      let effective := if ident_is_empty qks then keyspace else qks in
      if err || negb (ident_equal effective (str "system")) || negb (is_system_table table) then (false, StNone, err)
      else
        let sr := rewind s3 in
        let '(t2, s4) := next sr in
        match selectors_loop n s4 t2 [] with
        | None => (true, StNone, true)
        | Some sels => (true, StSelect (ident_ID table) sels, false)
        end.

(** IsQueryHandled *)
Definition is_handled_tokens (keyspace : ident) (ts : list tok) : bool * stmt * bool :=
  let n := S (length ts) in
  let s0 := init_lstate ts in
  let '(t, s) := next s0 in
  if t =? tkSelect then
    let '(h, st, err) := handled_select n keyspace s in
    if h then (h, st, err) else (false, StDefaultSelect, err)
  else if t =? tkUse then
    let '(t1, s1) := next s in
    if negb (t1 =? tkIdentifier) then (false, StNone, true) else (true, StUse (lid s1), false)
  else (false, StNone, false).

Definition is_query_handled (keyspace : ident) (q : bytes) : bool * stmt * bool :=
  is_handled_tokens keyspace (tokenize q).

(** ** the rule, stated on the parts of a statement (C09)
    [cur]: the connection's current keyspace as written in the last USE ("" = none);
    a SELECT names its table as [qualifier.]table, each part spelled as in the statement *)
Definition names_system (spelling : bytes) : bool :=
  match spelling with
  | [] => false
  | _ => ident_equal (ident_of_lexed spelling) (str "system")
  end.
Definition names_system_table (spelling : bytes) : bool := is_system_table (ident_of_lexed spelling).

Inductive stmt_kind := KUse | KSelect (qualifier table : bytes) | KOther.

Definition handled_spec (cur : bytes) (k : stmt_kind) : bool :=
  match k with
  | KUse => true
  | KSelect q tbl => names_system (match q with [] => cur | _ => q end) && names_system_table tbl
  | KOther => false
  end.

(** ** correspondence entry points for C09
    input  (cur_keyspace text kind qualifier table)   kind: 0 other/unknown, 1 SELECT [qualifier.]table, 2 USE
    output (handled stmt table_or_keyspace err)       stmt: 0 none, 1 handled SELECT, 2 unhandled SELECT, 3 USE
    (for end-to-end cases the harness reports only whether the request stayed in the proxy:
     output (handled) and the model output is cut to the same shape by [e2e] = 1 in input 5) *)
Definition run_c09 (input : val) : val :=
  let cur := vB (nthv 0 input) in
  let q := vB (nthv 1 input) in
  let e2e := vbool (nthv 5 input) in
  match ident_of_string cur with
  | Panic _ => L [I 9]
  | Err _ | OutOfFuel => L [I 8]
  | Ok ks =>
      let '(h, st, err) := is_query_handled ks q in
      if e2e then L [Ibool h]
      else
        match st with
        | StSelect tbl _ => L [Ibool h; I 1; B tbl; Ibool err]
        | StDefaultSelect => L [Ibool h; I 2; B []; Ibool err]
        | StUse k => L [Ibool h; I 3; B k; Ibool err]
        | StNone => L [Ibool h; I 0; B []; Ibool err]
        end
  end.

Definition holds_c09 (input output : val) : val :=
  let cur := vB (nthv 0 input) in
  let kind := vZ (nthv 2 input) in
  let h := vZ (nthv 0 output) in
  if Z.eqb h 9 then B (str "crashed")
  else if Z.eqb h 7 then B (str "request-not-answered")
  else if Z.eqb kind 0 then B []
  else
    let k := if Z.eqb kind 2 then KUse else KSelect (vB (nthv 3 input)) (vB (nthv 4 input)) in
    (* quotes of the current keyspace are those the USE statement was written with *)
    if Z.eqb h (if handled_spec cur k then 1 else 0) then B []
    else if Z.eqb h 1 then B (str "statement-outside-the-system-keyspace-answered-by-the-proxy")
    else B (str "system-table-read-or-use-forwarded-to-the-backend").
