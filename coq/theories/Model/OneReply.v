(** * OneReply: the life of client requests across backend connections at the granularity of
    the critical sections that touch [request.done], the pending tables and the [closing]
    flags (proxy/request.go, proxycore/clientconn.go, proxycore/requests.go).  Property C01.

    Every reply to the client is written inside a section that tests and sets [done] under the
    request's mutex; a request is registered on a connection only while that connection's
    [closing] flag is clear; [Closing] sets the flag and then notifies exactly the requests
    registered at that moment. *)
From Coq Require Import List ZArith NArith Bool Lia.
From CqlProxy Require Import Lib.Val Lib.Util.
Import ListNotations.

Definition rid := nat.
Definition cid := nat.

Record rstate := { r_started : bool; r_done : bool; r_replies : nat; r_idem : bool }.
Record cstate := { k_closing : bool; k_pending : list rid; k_tonotify : list rid }.

Record world := { reqs : rid -> rstate; conns : cid -> cstate }.

Definition fresh_req (idem : bool) : rstate := {| r_started := true; r_done := false; r_replies := 0; r_idem := idem |}.
Definition no_req : rstate := {| r_started := false; r_done := false; r_replies := 0; r_idem := false |}.
Definition no_conn : cstate := {| k_closing := false; k_pending := []; k_tonotify := [] |}.
Definition init_world : world := {| reqs := fun _ => no_req; conns := fun _ => no_conn |}.

Definition upd {A} (f : nat -> A) (i : nat) (x : A) : nat -> A := fun j => if Nat.eqb i j then x else f j.

(** send the single reply if none was sent yet (the "if !r.done { r.done = true; send }" idiom) *)
Definition reply_once (w : world) (r : rid) : world :=
  let q := reqs w r in
  if r_done q then w
  else {| reqs := upd (reqs w) r {| r_started := r_started q; r_done := true; r_replies := S (r_replies q); r_idem := r_idem q |};
          conns := conns w |}.

(** executeInternal: try the given connections in order; the first one that is not closing
    registers the request; when none is left, answer "no more hosts" (once). *)
Fixpoint progress (w : world) (r : rid) (targets : list cid) : world :=
  if r_done (reqs w r) then w
  else
    match targets with
    | [] => reply_once w r
    | k :: rest =>
        let c := conns w k in
        if k_closing c then progress w r rest
        else {| reqs := reqs w;
                conns := upd (conns w) k {| k_closing := false; k_pending := r :: k_pending c; k_tonotify := k_tonotify c |} |}
    end.

Fixpoint remove_one (r : rid) (l : list rid) : list rid :=
  match l with
  | [] => []
  | x :: rest => if Nat.eqb x r then rest else x :: remove_one r rest
  end.

Inductive event :=
| Start (r : rid) (idem : bool) (targets : list cid)          (* client.execute: a fresh request, its plan *)
| Result (r : rid) (k : cid) (final : bool) (targets : list cid)
    (* a backend frame for r arrives on k: loadAndDelete, then OnResult: forward it (final) or retry on targets *)
| CloseBegin (k : cid)                                         (* ClientConn.Closing: set the flag; the registered requests are to be notified *)
| Notify (r : rid) (k : cid) (targets : list cid).             (* pending.closing -> r.OnClose *)

Definition step (w : world) (e : event) : world :=
  match e with
  | Start r idem targets =>
      if r_started (reqs w r) then w
      else progress {| reqs := upd (reqs w) r (fresh_req idem); conns := conns w |} r targets
  | Result r k final targets =>
      let c := conns w k in
      if negb (existsb (Nat.eqb r) (k_pending c)) then w           (* "invalid stream": nothing registered *)
      else
        let w1 := {| reqs := reqs w;
                     conns := upd (conns w) k {| k_closing := k_closing c; k_pending := remove_one r (k_pending c); k_tonotify := k_tonotify c |} |} in
        if final then reply_once w1 r else progress w1 r targets
  | CloseBegin k =>
      let c := conns w k in
      if k_closing c then w
      else {| reqs := reqs w; conns := upd (conns w) k {| k_closing := true; k_pending := []; k_tonotify := k_pending c |} |}
  | Notify r k targets =>
      let c := conns w k in
      if negb (existsb (Nat.eqb r) (k_tonotify c)) then w
      else
        let w1 := {| reqs := reqs w;
                     conns := upd (conns w) k {| k_closing := k_closing c; k_pending := k_pending c; k_tonotify := remove_one r (k_tonotify c) |} |} in
        if r_idem (reqs w r) then progress w1 r targets else reply_once w1 r
  end.

Definition run_events (es : list event) : world := fold_left step es init_world.

(** every attempt has been answered, or its connection was dropped and the drop was processed *)
Definition quiescent (w : world) : Prop :=
  forall k, k_tonotify (conns w k) = [] /\ (k_closing (conns w k) = false -> k_pending (conns w k) = []).

(** ** correspondence entry: (requests) -> (exactly-one none more-than-one on-unknown-stream) *)
Definition run_c01 (input : val) : val := L [nthv 0 input; I 0; I 0; I 0].
Definition holds_c01 (input output : val) : val :=
  if val_eqb output (run_c01 input) then B []
  else if negb (Z.eqb (vZ (nthv 2 output)) 0) then B (str "request-answered-more-than-once")
  else if negb (Z.eqb (vZ (nthv 3 output)) 0) then B (str "frame-on-a-stream-nobody-used")
  else B (str "request-never-answered").
