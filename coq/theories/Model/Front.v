(** * Front: what the proxy does with ONE client frame, end to end (proxy/proxy.go client.Receive,
    handlePrepare, handleExecute, handleQuery, execute, getDefaultIdempotency,
    maybeOverrideUnsupportedWriteConsistency, maybeStorePreparedMetadata, Proxy.isIdempotent,
    Proxy.isSelect; proxy/request.go checkIdempotent, isBatchIdempotent).

    The building blocks are the existing models: Model/Gate.v ([receive]: header, version gate,
    locally answered handshake messages, dispatch of QUERY / PREPARE / EXECUTE / BATCH),
    Model/Override.v ([split_envelope], [decode_msg], [process_request]), Model/Codec.v,
    Model/Handled.v ([is_query_handled]), Model/Parser.v ([is_query_idempotent]),
    Model/SysTables.v ([lookup_table], [filter_columns]: whether a handled PREPARE is answered with
    a prepared id).  Properties C03, C04, C09, C12.

    Outside the model (explicit oracles, record [fenv]):
    - MD5 ([hash]): the ids the proxy invents for the statements it prepares itself;
    - whether a backend session for (version, keyspace, compression) exists or can be created
      ([session_ok]: Proxy.maybeCreateSession contacts the cluster).
    Bodies of compressed frames are supplied decompressed ([lbody], as in Gate.receive). *)
From Coq Require Import List ZArith NArith Bool Lia.
From CqlProxy Require Import Lib.Val Lib.Util Lib.Wire Gen.LexRules Model.Lexer Model.Parser Model.Handled
  Model.SysTables Model.Codec Model.Frame Model.Override Model.Gate.
Import ListNotations.
Local Open Scope N_scope.

(** ** proxy-wide configuration and state *)
Record fcfg := {
  maxv : N;                  (* Config.MaxVersion *)
  ocfg_of : ocfg;            (* UnsupportedWriteConsistencies / ...Override *)
  idem_graph : bool          (* Config.IdempotentGraph *)
}.

Record fenv := {
  hash : bytes -> bytes;                        (* md5.Sum *)
  session_ok : N -> bytes -> bytes -> bool      (* maybeCreateSession version keyspace compression succeeds *)
}.

(** request.state *)
Inductive istate := NotDetermined | NotIdempotent | IsIdempotent.

(** Proxy.preparedMetadata: prepared id -> preparedMetadata{idempotent, isSelect} *)
Record pmeta := { pm_idem : bool; pm_select : bool }.
(** sync.Map as an association list, the most recent Store first; keys are [id_key]s *)
Definition prepared := list (bytes * pmeta).

(** preparedIdKey: copy into a zeroed [16]byte -- longer ids are cut, shorter ones padded *)
Definition id_key (id : bytes) : bytes := firstn 16 (id ++ repeat 0 16).

Definition lookup_meta (prep : prepared) (id : bytes) : option pmeta := assoc (id_key id) prep.

(** Proxy.isIdempotent / Proxy.isSelect: an id the proxy has no metadata for => false *)
Definition id_idempotent (prep : prepared) (id : bytes) : bool :=
  match lookup_meta prep id with Some m => pm_idem m | None => false end.
Definition id_select (prep : prepared) (id : bytes) : bool :=
  match lookup_meta prep id with Some m => pm_select m | None => false end.

(** maybeStorePreparedMetadata, for a PREPARE whose answer was a RESULT/Prepared carrying [id]:
    the classifier runs on the PREPARE's text; on a parse error NOTHING is stored (an older
    entry for the same id stays) *)
Definition on_prepared_result (prep : prepared) (id text : bytes) (is_select : bool) : prepared :=
  let '(idem, err) := is_query_idempotent text in
  if err =? 0 then (id_key id, {| pm_idem := idem; pm_select := is_select |}) :: prep
  else prep.

(** ** per client *)
Record fclient := {
  fc_gate : cstate;                       (* compression, event registration (Model/Gate.v) *)
  fc_keyspace : bytes;                    (* c.keyspace: as written in the last accepted USE *)
  fc_sysprep : list (bytes * stmt)        (* c.preparedSystemQuery, most recent first *)
}.

Definition init_fclient : fclient := {| fc_gate := init_cstate; fc_keyspace := []; fc_sysprep := [] |}.

Definition set_gate (cl : fclient) (st : cstate) : fclient :=
  {| fc_gate := st; fc_keyspace := fc_keyspace cl; fc_sysprep := fc_sysprep cl |}.
Definition set_keyspace (cl : fclient) (ks : bytes) : fclient :=
  {| fc_gate := fc_gate cl; fc_keyspace := ks; fc_sysprep := fc_sysprep cl |}.
Definition add_sysprep (cl : fclient) (id : bytes) (st : stmt) : fclient :=
  {| fc_gate := fc_gate cl; fc_keyspace := fc_keyspace cl; fc_sysprep := (id, st) :: fc_sysprep cl |}.

(** ** the PREPARE message (message.prepareCodec.Decode): [long string] query; for versions with
    prepare flags (v5, DSEv2) an [int] flags and, with flag 0x01, a [string] keyspace.  What
    follows is ignored. *)
Record pprepare := { p_query : bytes; p_keyspace : bytes }.

Definition supports_prepare_flags (v : N) : bool := (5 <=? v) && negb (v =? 65).

Definition decode_prepare (v : N) (b : bytes) : option pprepare :=
  match read_long_string b with
  | None => None
  | Some (q, r) =>
      if supports_prepare_flags v then
        match read_int r with
        | None => None
        | Some (f, r1) =>
            if Z.odd f then
              match read_string r1 with
              | None => None
              | Some (ks, _) => Some {| p_query := q; p_keyspace := ks |}
              end
            else Some {| p_query := q; p_keyspace := [] |}
        end
      else Some {| p_query := q; p_keyspace := [] |}
  end.

(** request.msg *)
Inductive fmsg := FPrepare (p : pprepare) | FReq (m : pmsg).

(** ** what happens to the frame *)
Inductive faction :=
| AClosed                                               (* Receive returns an error: connection closed *)
| ALocal (rs : list reply)                              (* answered in the gate (Model/Gate.v) *)
| AHandledQuery (st : stmt) (parse_error : bool)        (* QUERY the proxy answers itself (Invalid when parse_error) *)
| AHandledPrepare (st : stmt) (parse_error : bool) (id : option bytes)
                                                        (* PREPARE the proxy answers itself; [Some id]: with a prepared
                                                           result, the id now in preparedSystemQuery; [None]: with an error *)
| AHandledExecute (st : stmt)                           (* EXECUTE of an id in preparedSystemQuery *)
| ANoSession                                            (* execute: findSession failed -> ServerError "Attempted to use invalid keyspace" *)
| AForward (op : N) (f : fwd) (state : istate) (is_select : bool) (msg : fmsg)
                                                        (* a request is created and sent to the first host of its plan *)
| AUnmodelled.                                          (* GUnmodelled of the gate *)

(** IdentifierFromString (total; [ident_of_string] of Model/Parser.v returns [Ok] of this) *)
Definition ident_from (s : bytes) : ident :=
  match s with
  | c :: _ :: _ => if c =? 34 then ident_of_lexed s else {| i_id := s; i_ic := true |}
  | _ => {| i_id := s; i_ic := true |}
  end.

(** [_, isSelect := stmt.( *parser.SelectStatement)] *)
Definition stmt_is_select (st : stmt) : bool :=
  match st with StSelect _ _ | StDefaultSelect => true | _ => false end.

(** body.CustomPayload has the key "graph-source" (whatever its value, nil included) *)
Definition has_graph_source (pl : option (list pentry)) : bool :=
  match pl with
  | Some m => existsb (fun e => bytes_eqb (fst e) (str "graph-source")) m
  | None => false
  end.

(** getDefaultIdempotency *)
Definition default_idempotency (c : fcfg) (pl : option (list pentry)) : istate :=
  if has_graph_source pl then (if idem_graph c then IsIdempotent else NotIdempotent) else NotDetermined.

(** request.isBatchIdempotent: the first child that is not idempotent ends the loop; an empty
    batch is idempotent *)
Definition child_idempotent (prep : prepared) (c : pchild) : bool :=
  match ch_id c with
  | QStr q => fst (is_query_idempotent q)
  | QId id => id_idempotent prep id
  end.
Fixpoint batch_idempotent (prep : prepared) (cs : list pchild) : bool :=
  match cs with
  | [] => true
  | c :: r => if child_idempotent prep c then batch_idempotent prep r else false
  end.

(** request.checkIdempotent: decided once, from the message, unless already determined *)
Definition check_idempotent (prep : prepared) (state : istate) (msg : fmsg) : bool :=
  match state with
  | IsIdempotent => true
  | NotIdempotent => false
  | NotDetermined =>
      match msg with
      | FReq (MQuery q) => fst (is_query_idempotent (q_query q))
      | FReq (MExecute x) => id_idempotent prep (x_id x)
      | FReq (MBatch b) => batch_idempotent prep (b_children b)
      | FPrepare _ => false      (* "invalid message type encountered": cannot happen, PREPAREs start as IsIdempotent *)
      end
  end.

(** client.execute: the session of (version, c.keyspace, c.compression), then the frame to send
    (maybeOverrideUnsupportedWriteConsistency: a PREPARE is never touched) *)
Definition execute (e : fenv) (c : fcfg) (cl : fclient) (h : header) (lbody : bytes)
    (state : istate) (is_select : bool) (msg : fmsg) : faction :=
  if session_ok e (h_version h) (fc_keyspace cl) (comp (fc_gate cl)) then
    AForward (h_opcode h)
      (match msg with
       | FPrepare _ => FwdRaw
       | FReq _ => process_request (ocfg_of c) is_select (h_version h) (h_flags h) (h_opcode h) lbody
       end)
      state is_select msg
  else ANoSession.

(** interceptSystemQuery as far as the client's state goes: an accepted USE sets c.keyspace *)
Definition intercept (e : fenv) (cl : fclient) (h : header) (st : stmt) : fclient :=
  match st with
  | StUse ks => if session_ok e (h_version h) ks (comp (fc_gate cl)) then set_keyspace cl ks else cl
  | _ => cl
  end.

Definition handle_query (e : fenv) (c : fcfg) (cl : fclient) (h : header) (lbody : bytes)
    (pl : option (list pentry)) (q : pquery) : faction * fclient :=
  let '(handled, st, err) := is_query_handled (ident_from (fc_keyspace cl)) (q_query q) in
  if handled then
    if err then (AHandledQuery st true, cl)
    else (AHandledQuery st false, intercept e cl h st)
  else (execute e c cl h lbody (default_idempotency c pl) (stmt_is_select st) (FReq (MQuery q)), cl).

Definition handle_execute (e : fenv) (c : fcfg) (prep : prepared) (cl : fclient) (h : header) (lbody : bytes)
    (pl : option (list pentry)) (x : pexecute) : faction * fclient :=
  match assoc (id_key (x_id x)) (fc_sysprep cl) with
  | Some st => (AHandledExecute st, intercept e cl h st)
  | None => (execute e c cl h lbody (default_idempotency c pl) (id_select prep (x_id x)) (FReq (MExecute x)), cl)
  end.

(** the keyspace a PREPARE is resolved in: its own when it names one, else the connection's *)
Definition prepare_keyspace (cl : fclient) (p : pprepare) : bytes :=
  match p_keyspace p with [] => fc_keyspace cl | k => k end.

Definition handle_prepare (e : fenv) (c : fcfg) (cl : fclient) (h : header) (lbody : bytes)
    (p : pprepare) : faction * fclient :=
  let keyspace := prepare_keyspace cl p in
  let '(handled, st, err) := is_query_handled (ident_from keyspace) (p_query p) in
  if handled then
    if err then (AHandledPrepare st true None, cl)
    else
      match st with
      | StSelect tbl sels =>
          match lookup_table tbl with
          | Some cols =>
              match filter_columns tbl cols sels with
              | Some _ =>
                  let id := id_key (hash e (p_query p ++ keyspace)) in
                  (AHandledPrepare st false (Some id), add_sysprep cl id st)
              | None => (AHandledPrepare st false None, cl)          (* Invalid: unknown column *)
              end
          | None => (AHandledPrepare st false None, cl)              (* Invalid "Doesn't exist" *)
          end
      | StUse _ =>
          let id := id_key (hash e (p_query p)) in
          (AHandledPrepare st false (Some id), add_sysprep cl id st)
      | _ => (AHandledPrepare st false None, cl)                     (* ServerError "Proxy attempted to intercept an unhandled query" *)
      end
  else (execute e c cl h lbody IsIdempotent (stmt_is_select st) (FPrepare p), cl).

(** the switch of client.Receive on the decoded message, for a frame the gate dispatches;
    [lbody] is the logical (decompressed) body *)
Definition dispatch (e : fenv) (c : fcfg) (prep : prepared) (cl : fclient) (h : header) (lbody : bytes)
    : faction * fclient :=
  match split_envelope (h_flags h) lbody with
  | None => (AClosed, cl)
  | Some (pl, rest) =>
      if h_opcode h =? 9 then
        match decode_prepare (h_version h) rest with
        | Some p => handle_prepare e c cl h lbody p
        | None => (AClosed, cl)
        end
      else
        match decode_msg (h_opcode h) (h_version h) rest with
        | Ok (MQuery q) => handle_query e c cl h lbody pl q
        | Ok (MExecute x) => handle_execute e c prep cl h lbody pl x
        | Ok (MBatch b) => (execute e c cl h lbody NotDetermined false (FReq (MBatch b)), cl)
        | _ => (AClosed, cl)
        end
  end.

(** one frame off the wire *)
Definition front (e : fenv) (c : fcfg) (prep : prepared) (cl : fclient) (frame : bytes) (lbody : option bytes)
    : faction * fclient :=
  match receive (maxv c) (fc_gate cl) frame lbody with
  | GClosed => (AClosed, cl)
  | GAnswered rs st' => (ALocal rs, set_gate cl st')
  | GUnmodelled => (AUnmodelled, cl)
  | GDispatched =>
      match decode_header frame with
      | inr (h, r) =>
          match get_z (h_len h) r with
          | Some (body, _) => dispatch e c prep cl h (match lbody with Some lb => lb | None => body end)
          | None => (AClosed, cl)      (* unreachable after GDispatched (FrontProofs.front_dispatch) *)
          end
      | inl _ => (AClosed, cl)         (* unreachable after GDispatched *)
      end
  end.

(** ** the prepared metadata after a history of PREPAREs that went through the proxy and were
    answered with a prepared result: (id returned by the backend, text, keyspace the PREPARE was
    resolved in), oldest first.  [is_select] as handlePrepare computes it. *)
Definition hist_entry := (bytes * bytes * bytes)%type.

Definition prepare_is_select (text keyspace : bytes) : bool :=
  let '(_, st, _) := is_query_handled (ident_from keyspace) text in stmt_is_select st.
Definition prepare_is_handled (text keyspace : bytes) : bool :=
  let '(h, _, _) := is_query_handled (ident_from keyspace) text in h.

Definition apply_hist (prep : prepared) (en : hist_entry) : prepared :=
  let '(id, text, ks) := en in
  if prepare_is_handled text ks then prep       (* never forwarded, so never answered by a backend *)
  else on_prepared_result prep id text (prepare_is_select text ks).

Definition prepared_of (hist : list hist_entry) : prepared := fold_left apply_hist hist [].

(** ** correspondence entry point
    input  (4 (maxv (unsupported_cl...) override_cl idem_graph) (keyspace) ((id text keyspace_at_prepare)...) frame_bytes)
      a fresh connection (no compression, nothing prepared by the proxy itself) whose current keyspace
      is [keyspace]; the PREPAREs that went through the proxy successfully before, oldest first; one
      uncompressed frame.  A backend is reachable ([session_ok] = true).
    output (0) connection closed
         | (1) answered by the proxy itself, no backend contacted
         | (3 reenc retried) forwarded; reenc = 1 iff the body was re-encoded; retried = 1 iff the
           request is sent to the next host after the first attempt was answered with SERVER_ERROR
         | (9) a frame the model does not decode (never generated) *)
Definition front_cfg_of (input : val) : fcfg :=
  let cv := nthv 1 input in
  {| maxv := vN (nthv 0 cv);
     ocfg_of := {| unsupported := map vN (vL (nthv 1 cv)); override := vN (nthv 2 cv) |};
     idem_graph := vbool (nthv 3 cv) |}.
Definition front_keyspace_of (input : val) : bytes := vB (nthv 0 (nthv 2 input)).
Definition front_hist_of (input : val) : list hist_entry :=
  map (fun v => (vB (nthv 0 v), vB (nthv 1 v), vB (nthv 2 v))) (vL (nthv 3 input)).
Definition front_frame_of (input : val) : bytes := vB (nthv 4 input).

Definition run_env : fenv := {| hash := fun b => b; session_ok := fun _ _ _ => true |}.

Definition run_front (input : val) : val :=
  let c := front_cfg_of input in
  let prep := prepared_of (front_hist_of input) in
  let cl := set_keyspace init_fclient (front_keyspace_of input) in
  match fst (front run_env c prep cl (front_frame_of input) None) with
  | AClosed => L [I 0]
  | ALocal _ | AHandledQuery _ _ | AHandledPrepare _ _ _ | AHandledExecute _ | ANoSession => L [I 1]
  | AForward _ f state _ msg =>
      L [I 3; Ibool (match f with FwdReenc _ _ => true | _ => false end); Ibool (check_idempotent prep state msg)]
  | AUnmodelled => L [I 9]
  end.

(** ** property predicate on the IMPLEMENTATION's output -- a specification written without
    [front]: it reads the frame with the codecs (validated by C11/C12/C13), asks the parser for
    the statement's kind (validated by C06/C09) and looks prepared ids up in the history as a
    client would understand them: an id means the text of the LAST PREPARE answered with it. *)

(** the statement is a SELECT: its first token *)
Definition starts_with_select (q : bytes) : bool := fst (next (init_lstate (tokenize q))) =? tkSelect.

(** the last PREPARE of the history answered with this id (ids compared as the proxy's 16-byte keys) *)
Definition last_prepare (hist : list hist_entry) (id : bytes) : option (bytes * bytes) :=
  fold_left (fun acc en => let '(i, text, ks) := en in if bytes_eqb (id_key i) (id_key id) then Some (text, ks) else acc)
            hist None.

Definition spec_id_idempotent (hist : list hist_entry) (id : bytes) : bool :=
  match last_prepare hist id with Some (text, _) => fst (is_query_idempotent text) | None => false end.
Definition spec_id_select (hist : list hist_entry) (id : bytes) : bool :=
  match last_prepare hist id with Some (text, _) => starts_with_select text | None => false end.

Definition spec_child_idempotent (hist : list hist_entry) (c : pchild) : bool :=
  match ch_id c with
  | QStr q => fst (is_query_idempotent q)
  | QId id => spec_id_idempotent hist id
  end.

(** may the request be retried after an outcome that may have applied it? *)
Definition spec_may_retry (c : fcfg) (hist : list hist_entry) (pl : option (list pentry)) (m : pmsg) : bool :=
  match m with
  | MQuery q => if has_graph_source pl then idem_graph c else fst (is_query_idempotent (q_query q))
  | MExecute x => if has_graph_source pl then idem_graph c else spec_id_idempotent hist (x_id x)
  | MBatch b => forallb (spec_child_idempotent hist) (b_children b)
  end.

Definition spec_is_select (hist : list hist_entry) (m : pmsg) : bool :=
  match m with
  | MQuery q => starts_with_select (q_query q)
  | MExecute x => spec_id_select hist (x_id x)
  | MBatch _ => false
  end.

Definition holds_front (input output : val) : val :=
  let c := front_cfg_of input in
  let hist := front_hist_of input in
  let cur := front_keyspace_of input in
  let frame := front_frame_of input in
  let kind := vZ (nthv 0 output) in
  let reenc := vbool (nthv 1 output) in
  let retried := vbool (nthv 2 output) in
  match receive (maxv c) init_cstate frame None with
  | GDispatched =>
      match decode_header frame with
      | inr (h, r) =>
          match get_z (h_len h) r with
          | Some (body, _) =>
              match split_envelope (h_flags h) body with
              | None => B []
              | Some (pl, rest) =>
                  if h_opcode h =? 9 then
                    match decode_prepare (h_version h) rest with
                    | None => if Z.eqb kind 3 then B (str "undecodable-request-forwarded") else B []
                    | Some p =>
                        let ks := match p_keyspace p with [] => cur | k => k end in
                        let handled := prepare_is_handled (p_query p) ks in
                        if Z.eqb kind 0 then B (str "well-formed-request-dropped")
                        else if Z.eqb kind 3 then
                          if handled then B (str "system-table-read-forwarded")
                          else if reenc then B (str "select-or-unlisted-consistency-re-encoded")
                          else B []
                        else if Z.eqb kind 1 then
                          if handled then B [] else B (str "user-table-read-answered-locally")
                        else B []
                    end
                  else
                    match decode_msg (h_opcode h) (h_version h) rest with
                    | Ok m =>
                        let handled := match m with MQuery q => prepare_is_handled (q_query q) cur | _ => false end in
                        if Z.eqb kind 0 then B (str "well-formed-request-dropped")
                        else if Z.eqb kind 3 then
                          if handled then B (str "system-table-read-forwarded")
                          else
                            let must := negb (spec_is_select hist m) && is_unsupported (ocfg_of c) (msg_cl m) in
                            if reenc && negb must then B (str "select-or-unlisted-consistency-re-encoded")
                            else if negb reenc && must then B (str "listed-write-consistency-not-overridden")
                            else if retried && negb (spec_may_retry c hist pl m) then
                              (if has_graph_source pl && negb (match m with MBatch _ => true | _ => false end)
                               then B (str "graph-request-retried-without-the-idempotent-graph-option")
                               else B (str "non-idempotent-or-unknown-statement-was-retried"))
                            else B []
                        else if Z.eqb kind 1 then
                          if handled then B []
                          else match m with
                               | MQuery _ => B (str "user-table-read-answered-locally")
                               | _ => B (str "execute-or-batch-answered-locally")
                               end
                        else B []
                    | _ => if Z.eqb kind 3 then B (str "undecodable-request-forwarded") else B []
                    end
              end
          | None => B []
          end
      | inl _ => B []
      end
  | _ => if Z.eqb kind 3 then B (str "frame-that-is-not-a-request-forwarded") else B []
  end.
