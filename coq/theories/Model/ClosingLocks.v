(** * ClosingLocks: the lock protocol of ClientConn.Closing against ClientConn.addToPending.
    Each closing connection k takes closingMu(k) exclusively, sets the flag, and notifies its
    pending requests; a notified (idempotent) request registers on another connection k',
    which takes closingMu(k') shared.  [keep = true] is the protocol before the repair (the
    exclusive lock is kept during the notifications), [keep = false] the repaired one. *)
From Coq Require Import List Arith Bool Lia.
Import ListNotations.

Inductive phase := NotStarted | HoldsW | Notifying | Finished.

Record thread := {
  t_conn : nat;            (* the connection this thread is closing *)
  t_targets : list nat;    (* connections on which the notified requests register, in order *)
  t_phase : phase;
  t_inner : bool           (* holds closingMu(head of t_targets) shared *)
}.

Definition phase_eqb (a b : phase) : bool :=
  match a, b with NotStarted, NotStarted | HoldsW, HoldsW | Notifying, Notifying | Finished, Finished => true | _, _ => false end.

Definition holds_w (t : thread) (k : nat) : bool := phase_eqb (t_phase t) HoldsW && Nat.eqb (t_conn t) k.
Definition holds_r (t : thread) (k : nat) : bool :=
  t_inner t && match t_targets t with k' :: _ => Nat.eqb k' k | [] => false end.

Definition w_free (ts : list thread) (k : nat) : bool := negb (existsb (fun t => holds_w t k) ts).
Definition r_free (ts : list thread) (k : nat) : bool := negb (existsb (fun t => holds_r t k) ts).

Definition set_phase (t : thread) (p : phase) : thread := {| t_conn := t_conn t; t_targets := t_targets t; t_phase := p; t_inner := t_inner t |}.

(** the next step of thread [t] in the context of all threads [ts]: None = blocked or finished *)
Definition next_step (keep : bool) (ts : list thread) (t : thread) : option thread :=
  let notify :=
    match t_targets t with
    | [] => None
    | k' :: rest =>
        if t_inner t then Some {| t_conn := t_conn t; t_targets := rest; t_phase := t_phase t; t_inner := false |}   (* RUnlock *)
        else if w_free ts k' then Some {| t_conn := t_conn t; t_targets := t_targets t; t_phase := t_phase t; t_inner := true |}  (* RLock *)
        else None
    end in
  match t_phase t with
  | NotStarted => if w_free ts (t_conn t) && r_free ts (t_conn t) then Some (set_phase t HoldsW) else None   (* Lock *)
  | HoldsW =>
      if keep then
        match t_targets t with
        | [] => Some (set_phase t Finished)                    (* Unlock after the last notification *)
        | _ => notify
        end
      else Some (set_phase t Notifying)                        (* Unlock right after setting the flag *)
  | Notifying => match t_targets t with [] => Some (set_phase t Finished) | _ => notify end
  | Finished => None
  end.

Definition unfinished (t : thread) : bool := negb (phase_eqb (t_phase t) Finished).

Definition deadlocked (keep : bool) (ts : list thread) : bool :=
  existsb unfinished ts && forallb (fun t => match next_step keep ts t with None => true | Some _ => false end) ts.

(** scheduling: run thread number i one step *)
Fixpoint replace_nth {A} (l : list A) (i : nat) (x : A) : list A :=
  match l, i with
  | [], _ => []
  | _ :: r, O => x :: r
  | y :: r, S i' => y :: replace_nth r i' x
  end.

Definition sched_step (keep : bool) (ts : list thread) (i : nat) : list thread :=
  match nth_error ts i with
  | Some t => match next_step keep ts t with Some t' => replace_nth ts i t' | None => ts end
  | None => ts
  end.

Definition run_schedule (keep : bool) (ts : list thread) (sched : list nat) : list thread :=
  fold_left (sched_step keep) sched ts.

Definition closing_thread (k : nat) (targets : list nat) : thread :=
  {| t_conn := k; t_targets := targets; t_phase := NotStarted; t_inner := false |}.
