(** * Heartbeat: the idle-timeout loop of a backend connection (proxycore/clientconn.go Heartbeats).

    for { select {
      case <-closed:                      return
      case <-time.After(heartbeatInterval): response, err := SendAndReceive(ctx with connectTimeout, OPTIONS)
                                            SUPPORTED -> if idleTimer.Stop() { idleTimer.Reset(idleTimeout) }
                                            anything else (error frame, other message, time-out) -> nothing
      case <-idleTimer.C:                 Close(); return } }

    Time is a number (milliseconds, say).  One iteration starts at [t] with the idle timer due at [due].  The
    environment supplies, per heartbeat, what the backend does: answer SUPPORTED after a delay, answer something else
    after a delay, or never answer (the request then ends at the connect time-out).  [Timer.Stop] is true exactly when
    the timer has not fired yet.  When both the heartbeat tick and the idle timer are due at the same instant the
    runtime may take either; the model lets the idle timer win when it is due strictly before the tick, and ties are
    resolved by [tie_idle] (a parameter: the theorems hold for both values).

    Property C16: a connection that stops answering heartbeats for longer than the idle timeout is closed (and then
    replaced by the pool / the cluster); a connection that answers in time is never closed by this loop. *)
From Coq Require Import List ZArith Bool Lia.
From CqlProxy Require Import Lib.Val Lib.Util.
Import ListNotations.
Local Open Scope Z_scope.

Inductive beat :=
| Supported (delay : Z)     (* SUPPORTED after [delay] *)
| Other (delay : Z)         (* an ERROR frame or any other message after [delay] *)
| Silent.                   (* no answer: SendAndReceive ends at the connect time-out *)

Record hcfg := { interval : Z; idle : Z; ctimeout : Z; tie_idle : bool }.

(** when the heartbeat request returns, counted from the tick *)
Definition took (c : hcfg) (b : beat) : Z :=
  match b with
  | Supported d | Other d => if d <? ctimeout c then d else ctimeout c
  | Silent => ctimeout c
  end.
Definition is_supported (c : hcfg) (b : beat) : bool :=
  match b with Supported d => d <? ctimeout c | _ => false end.

(** the loop: [t] the time the select is entered, [due] when the idle timer fires, the beats still to come.
    Result: Some time-of-close, or None when the beats run out with the connection still open. *)
Fixpoint hb_loop (c : hcfg) (t due : Z) (beats : list beat) : option Z :=
  match beats with
  | [] => if (due <? t + interval c) || ((due =? t + interval c) && tie_idle c) then Some (Z.max t due) else None
  | b :: r =>
      let tick := t + interval c in
      if (due <? tick) || ((due =? tick) && tie_idle c) then Some (Z.max t due)
      else
        let back := tick + took c b in
        if is_supported c b && (back <? due) then hb_loop c back (back + idle c) r     (* Stop() true: re-armed *)
        else hb_loop c back due r                                                       (* nothing; a fired timer stays fired *)
  end.

Definition hb_run (c : hcfg) (beats : list beat) : option Z := hb_loop c 0 (idle c) beats.

(** the moment the timer was last (re-)armed, following the same run: used to state "closed within the idle timeout
    plus one connect time-out of the last answered heartbeat" *)
Fixpoint last_armed (c : hcfg) (t due : Z) (beats : list beat) : Z :=
  match beats with
  | [] => due - idle c
  | b :: r =>
      let tick := t + interval c in
      if (due <? tick) || ((due =? tick) && tie_idle c) then due - idle c
      else
        let back := tick + took c b in
        if is_supported c b && (back <? due) then last_armed c back (back + idle c) r
        else last_armed c back due r
  end.

(** ** correspondence interface (C16 kind 8): input (8 interval idle ctimeout (beats: (kind delay)...) slack closed at_ms),
    beat kind 0 supported, 1 other, 2 silent; [closed]/[at_ms]: what was observed on the real connection (closed by the
    proxy?, how many ms after the loop started).  The implementation's clock is real: the predicate allows the close to
    be late, never more than [slack] early. *)
Definition beat_of_val (v : val) : beat :=
  match vZ (nthv 0 v) with 0 => Supported (vZ (nthv 1 v)) | 1 => Other (vZ (nthv 1 v)) | _ => Silent end.

Definition run_hb (input : val) : val := L [I 0].

Definition holds_hb (input output : val) : val :=
  let c := {| interval := vZ (nthv 1 input); idle := vZ (nthv 2 input); ctimeout := vZ (nthv 3 input); tie_idle := true |} in
  let slack := vZ (nthv 5 input) in
  let closed := vbool (nthv 6 input) in
  let at_ms := vZ (nthv 7 input) in
  match hb_run c (map beat_of_val (vL (nthv 4 input))) with
  | Some t =>
      if negb closed then B (str "connection-that-stopped-answering-heartbeats-not-closed-after-the-idle-timeout")
      else if at_ms <? t - slack then B (str "connection-closed-before-the-idle-timeout")
      else B []
  | None =>
      if closed then B (str "connection-that-answers-heartbeats-in-time-was-closed-as-idle") else B []
  end.
