(** * Astra: which server certificate chains an Astra-bundle connection accepts
    (astra/endpoint.go copyTLSConfig's VerifyPeerCertificate, astra/bundle.go LoadBundleZip,
    astra/endpoint.go Resolve).  Property C19.

    Certificates are abstract: who signed them is a key identity, not a signature.  The
    verification below is the textbook path search crypto/x509 performs (signature link, CA
    flag on every non-leaf, validity window, host name on the leaf); what this model adds is
    how the proxy calls it: leaf = first presented certificate, intermediates = the rest,
    roots = the bundle's pool, name = the bundle's host (not the SNI name), time = the moment
    of the handshake. *)
From Coq Require Import List ZArith NArith Bool Lia.
From CqlProxy Require Import Lib.Val Lib.Util.
Import ListNotations.
Local Open Scope Z_scope.

Record cert := {
  c_key : Z;            (* identity of the certificate's own key *)
  c_signer : Z;         (* identity of the key that signed it *)
  c_is_ca : bool;
  c_not_before : Z;
  c_not_after : Z;
  c_names : list Z      (* DNS names it is valid for *)
}.

Definition valid_at (now : Z) (c : cert) : bool := (c_not_before c <=? now) && (now <=? c_not_after c).
Definition has_name (n : Z) (c : cert) : bool := existsb (Z.eqb n) (c_names c).
Definition signed_by (c parent : cert) : bool := c_signer c =? c_key parent.

(** is [c] anchored in [roots], going through at most [fuel] of the CA certificates in [inter]? *)
Fixpoint anchored (fuel : nat) (roots inter : list cert) (now : Z) (c : cert) : bool :=
  existsb (fun r => signed_by c r && valid_at now r) roots
  || match fuel with
     | O => false
     | S f => existsb (fun i => signed_by c i && c_is_ca i && valid_at now i && anchored f roots inter now i) inter
     end.

(** certs[0].Verify(opts) *)
Definition verify (roots inter : list cert) (now host : Z) (leaf : cert) : bool :=
  valid_at now leaf && has_name host leaf && anchored (length inter) roots inter now leaf.

(** the callback: the first presented certificate is the leaf, the others are intermediates *)
Definition accepts (roots : list cert) (host now : Z) (chain : list cert) : bool :=
  match chain with
  | [] => false
  | leaf :: rest => verify roots rest now host leaf
  end.

(** ** correspondence entry
    input  (host now (root...) (presented...))   certificate: (key signer is_ca not_before not_after (name...))
    output (accepted sni-is-the-node-name client-certificate-is-the-bundle's bytes-sent-although-rejected);
    the middle two are reported as 0 for a rejected connection *)
Definition cert_of_val (v : val) : cert :=
  {| c_key := vZ (nthv 0 v); c_signer := vZ (nthv 1 v); c_is_ca := vbool (nthv 2 v);
     c_not_before := vZ (nthv 3 v); c_not_after := vZ (nthv 4 v); c_names := map vZ (vL (nthv 5 v)) |}.

Definition run_c19 (input : val) : val :=
  if accepts (map cert_of_val (vL (nthv 2 input))) (vZ (nthv 0 input)) (vZ (nthv 1 input)) (map cert_of_val (vL (nthv 3 input)))
  then L [I 1; I 1; I 1; I 0] else L [I 0; I 0; I 0; I 0].

(** the harness reports (accepted sni-is-the-node-name client-certificate-is-the-bundle's bytes-sent-although-rejected) *)
Definition holds_c19 (input output : val) : val :=
  let acc := vbool (nthv 0 output) in
  let want := accepts (map cert_of_val (vL (nthv 2 input))) (vZ (nthv 0 input)) (vZ (nthv 1 input)) (map cert_of_val (vL (nthv 3 input))) in
  if acc && negb want then B (str "connection-accepted-although-the-chain-does-not-verify-for-the-bundle-host-now")
  else if negb acc && vbool (nthv 3 output) then B (str "bytes-sent-to-a-rejected-server")
  else if acc && negb (vbool (nthv 1 output)) then B (str "SNI-is-not-the-node-name")
  else if acc && negb (vbool (nthv 2 output)) then B (str "client-certificate-of-the-bundle-not-presented")
  else B [].
