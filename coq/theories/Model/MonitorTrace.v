(** * MonitorTrace: the records the instrumented proxy writes during one step of the model Model/CorePrep.v.

    [trace_of_step hk w e] lists, in the order they are written, the trace records of the atomic steps the
    code performs while the model takes [CorePrep.step w e]:
      EConnect      table                               (ConnectClient: a new pending table)
      EStart        start, then executeInternal(true)
      executeInternal   per loop turn: host (when the plan advances, "" when it is exhausted), then the Session.Send:
                        push (pendingRequests.store) and, when the write fails, pop (the repaired Send takes the
                        entry out again); reply when there is no host left
      EFrame        pop (loadAndDelete), then for a request: [decision] for an error frame, then executeInternal or
                    reply; the proxy's own PREPARE: push with request kind 2 (3 when nested)
      ECloseBegin   closing
      ENotify       notify, onclose, then executeInternal(true) (idempotent) or reply
    Names: connection [k] is table [k+1], request [r] is request id [r+1] (0 is reserved for internal requests),
    a host [h] has key [hk h]. *)
From Coq Require Import List ZArith NArith Bool Lia.
From CqlProxy Require Import Lib.Val Lib.Util Gen.Tables Model.Retry Model.Monitor Model.MonitorSpec Model.CorePrep.
Import ListNotations.
Local Open Scope N_scope.

(** ** names *)
Definition tid (k : N) : Z := (Z.of_N k + 1)%Z.
Definition sid (s : N) : Z := Z.of_N s.
Definition qid (r : N) : Z := (Z.of_N r + 1)%Z.
Definition ekind (e : entry) : Z := match e with EReq _ => 0%Z | EPrep _ false => 2%Z | EPrep _ true => 3%Z end.
Definition idem_state (idem : bool) : Z := if idem then 2%Z else 1%Z.

(** a concrete host naming: "h" followed by one symbol for the number *)
Definition host_key (h : N) : bytes := [104; 48 + h].

(** ** texts *)
(** [join_commas] (Model/Monitor.v) joins the host keys of a plan *)

(** decimal digits of a number, most significant first *)
Fixpoint digits_fuel (fuel : nat) (n : N) (acc : bytes) : bytes :=
  match fuel with
  | O => acc
  | S f => if n <? 10 then (48 + n) :: acc else digits_fuel f (n / 10) ((48 + n mod 10) :: acc)
  end.
Definition ndec (n : N) : bytes := digits_fuel (S (N.to_nat n)) n [].
Definition zdec (z : Z) : bytes :=
  match z with
  | Z0 => ndec 0
  | Zpos p => ndec (Npos p)
  | Zneg p => 45 :: ndec (Npos p)
  end.

(** verifErrorFields: "code,received,blockFor,dataPresent,writeType" *)
Definition err_text (m : err_info) : bytes :=
  zdec (e_code m) ++ 44 :: zdec (e_received m) ++ 44 :: zdec (e_blockFor m) ++ 44 ::
  (if e_dataPresent m then str "true" else str "false") ++ 44 :: e_writeType m.

(** ** the records of one step *)
Section Trace.
Variable hk : N -> bytes.

Definition tr_reply_once (w : world) (r : rid) : list val :=
  match lookupN r (w_reqs w) with
  | None => []
  | Some q => if q_done q then [] else [rec_reply (qid r)]
  end.

Definition tr_send_to (w : world) (r : rid) (h : N) (ch : choice) : list val :=
  match ch with
  | None => []
  | Some (k, write_ok) =>
      match lookupN k (w_conns w) with
      | None => []
      | Some c =>
          if negb (b_host c =? h) then []
          else if b_closing c then []
          else match b_free c with
               | [] => []
               | s :: _ =>
                   if write_ok then [rec_push (tid k) (sid s) (qid r) 0]
                   else [rec_push (tid k) (sid s) (qid r) 0; rec_pop (tid k) (sid s) (qid r) 0]
               end
      end
  end.

Fixpoint tr_exec_next (w : world) (r : rid) (q : creq) (p : list N) (oracle : list choice) : list val :=
  match p with
  | [] => rec_host (qid r) [] :: tr_reply_once (set_req w r (with_host q None [])) r
  | h :: p' =>
      let w0 := set_req w r (with_host q (Some h) p') in
      let '(w1, res) := send_to false w0 r h (hd None oracle) in
      rec_host (qid r) (hk h) :: tr_send_to w0 r h (hd None oracle) ++
      match res with
      | SentOk => []
      | SendErr => tr_exec_next w1 r (with_host q (Some h) p') p' (tl oracle)
      end
  end.

Definition tr_exec_internal (w : world) (r : rid) (next : bool) (oracle : list choice) : list val :=
  match lookupN r (w_reqs w) with
  | None => []
  | Some q =>
      if q_done q then []
      else if next then tr_exec_next w r q (q_plan q) oracle
      else
        match q_host q with
        | None => tr_reply_once w r
        | Some h =>
            let '(w1, res) := send_to false w r h (hd None oracle) in
            tr_send_to w r h (hd None oracle) ++
            match res with
            | SentOk => []
            | SendErr => tr_exec_next w1 r q (q_plan q) (tl oracle)
            end
        end
  end.

Definition tr_send_prepare (w : world) (k : cid) (r : rid) (nested ok : bool) : list val :=
  match lookupN k (w_conns w) with
  | None => []
  | Some c =>
      if b_closing c || negb ok then []
      else match b_free c with
           | [] => []
           | s :: _ => [rec_push (tid k) (sid s) (qid r) (if nested then 3 else 2)%Z]
           end
  end.

(** the stream under which an entry awaiting its close notification stands in the (frozen) pending table *)
Fixpoint stream_of (ent : entry) (l : list (N * entry)) : N :=
  match l with
  | [] => 0
  | (s, e) :: l' => if entry_eqb e ent then s else stream_of ent l'
  end.

Definition trace_of_step (w : world) (e : event) : list val :=
  match e with
  | EConnect k h n =>
      match lookupN k (w_conns w) with
      | Some _ => []
      | None => [rec_table (tid k) (hk h)]
      end
  | EStart r client cstream idem p oracle =>
      match lookupN r (w_reqs w) with
      | Some _ => []
      | None =>
          let q := {| q_client := client; q_cstream := cstream; q_idem := idem; q_plan := p; q_host := None; q_retry := 0%Z; q_done := false |} in
          rec_start (qid r) (Z.of_N client + 1) cstream (idem_state idem) (join_commas (map hk p)) ::
          tr_exec_internal (set_req w r q) r true oracle
      end
  | EFrame k s f oracle =>
      match lookupN k (w_conns w) with
      | None => []
      | Some c =>
          if b_closing c then []
          else
            match lookupN s (b_pending c) with
            | None => []
            | Some ent =>
                let c' := {| b_host := b_host c; b_closing := false; b_free := b_free c ++ [s];
                             b_pending := removeN s (b_pending c); b_tonotify := b_tonotify c |} in
                let w1 := set_conn w k c' in
                rec_pop (tid k) (sid s) (qid (entry_req ent)) (ekind ent) ::
                match ent with
                | EReq r =>
                    match f with
                    | FUnprepared true ok =>
                        let '(w2, res) := send_prepare w1 k r false ok in
                        tr_send_prepare w1 k r false ok ++
                        match res with
                        | SentOk => []
                        | SendErr => tr_exec_internal w2 r true oracle
                        end
                    | _ =>
                        match lookupN r (w_reqs w1) with
                        | None => []
                        | Some q =>
                            if q_done q then []
                            else
                              match f with
                              | FResult => tr_reply_once w1 r
                              | FError m =>
                                  let d := handle_error (q_idem q) m (q_retry q) in
                                  rec_decision (qid r) (Z.of_N d) (q_retry q) (idem_state (q_idem q)) (err_text m) ::
                                  (if d =? dec_RetryNext then tr_exec_internal (bump_retry w1 r) r true oracle
                                   else if d =? dec_RetrySame then tr_exec_internal (bump_retry w1 r) r false oracle
                                   else tr_reply_once w1 r)
                              | FUnprepared _ _ => tr_reply_once w1 r
                              end
                        end
                    end
                | EPrep r nested =>
                    match f with
                    | FUnprepared true ok =>
                        let '(w2, res) := send_prepare w1 k r true ok in
                        tr_send_prepare w1 k r true ok ++
                        match res with
                        | SentOk => []
                        | SendErr => tr_exec_internal w2 r true oracle
                        end
                    | FResult => tr_exec_internal w1 r nested oracle
                    | _ => tr_exec_internal w1 r true oracle
                    end
                end
            end
      end
  | ECloseBegin k =>
      match lookupN k (w_conns w) with
      | None => []
      | Some c => if b_closing c then [] else [rec_closing (tid k)]
      end
  | ENotify k ent oracle =>
      match lookupN k (w_conns w) with
      | None => []
      | Some c =>
          if negb (existsb (entry_eqb ent) (b_tonotify c)) then []
          else
            let w1 := set_conn w k {| b_host := b_host c; b_closing := b_closing c; b_free := b_free c; b_pending := b_pending c;
                                      b_tonotify := remove_first ent (b_tonotify c) |} in
            let r := entry_req ent in
            rec_notify (tid k) (sid (stream_of ent (b_pending c))) (qid r) (ekind ent) ::
            match lookupN r (w_reqs w1) with
            | None => []
            | Some q => rec_onclose (qid r) :: (if q_idem q then tr_exec_internal w1 r true oracle else tr_reply_once w1 r)
            end
      end
  end.

(** the whole trace of an execution *)
Fixpoint trace_from (w : world) (es : list event) : list val :=
  match es with
  | [] => []
  | e :: es' => trace_of_step w e ++ trace_from (step w e) es'
  end.
Definition trace_of (es : list event) : list val := trace_from init_world es.

End Trace.

(** the error frames the trace can render faithfully: the record carries the five fields the retry policy reads
    (the others are 0 in what [err_of_fields] rebuilds); the write type is arbitrary *)
Definition traceable_err (m : err_info) : Prop :=
  e_alive m = 0%Z /\ e_required m = 0%Z /\ e_numFailures m = 0%Z /\ e_consistency m = 0%Z.

Definition traceable_event (e : event) : Prop :=
  match e with
  | EFrame _ _ (FError m) _ => traceable_err m
  | _ => True
  end.

(** host keys that survive the comma-separated plan text *)
Definition good_keys (hk : N -> bytes) : Prop := forall h, hk h <> [] /\ ~ In 44 (hk h).
