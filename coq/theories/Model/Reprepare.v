(** * Reprepare: one request's way through its query plan when hosts answer UNPREPARED
    (proxycore/clientconn.go maybePrepareAndExecute, prepareRequest.OnResult; proxy/request.go Execute / OnResult).

    The request is executed on the current host.  UNPREPARED for a statement in the prepared cache makes the proxy send
    its own PREPARE (the cached frame) on that connection; the answer to that PREPARE decides: an error -> the next
    host; a PREPARED result -> the request is executed on the same host again.  In the code before the repair 49b678c
    ([orig = true]) the id in that result is not looked at; since the repair a result with ANOTHER id than the one the
    host reported as unprepared moves the request on to the next host as well.

    [left]: hosts of the plan after the current one.  When the plan is used up the client is answered with an error
    ("no more hosts"), which ends the request too.

    Properties C08 ("if re-preparation fails the request moves on to the next host instead of hanging or being
    dropped") and C17 (nothing a client sends keeps the proxy busy for good). *)
From Coq Require Import List Arith Bool Lia.
Import ListNotations.

Inductive ans :=
| AFinal      (* to the EXECUTE: a result, or an error that is handed to the client *)
| ANext       (* to the EXECUTE: an error the retry policy answers with "next host" *)
| AUnprep     (* to the EXECUTE: UNPREPARED, the statement is in the cache and the PREPARE is sent *)
| PSame       (* to the PREPARE: PREPARED with the id that was reported as unprepared *)
| POther      (* to the PREPARE: PREPARED with another id (or a result that cannot be decoded) *)
| PErr.       (* to the PREPARE: an error *)

Inductive phase := Exec | Prep | Done.
Record st := { left : nat; ph : phase; hops : nat (* hosts left behind *) }.

Definition next (s : st) : st :=
  match left s with
  | O => {| left := O; ph := Done; hops := hops s |}
  | S n => {| left := n; ph := Exec; hops := S (hops s) |}
  end.

Definition step (orig : bool) (s : st) (a : ans) : st :=
  match ph s with
  | Done => s
  | Exec =>
      match a with
      | AUnprep => {| left := left s; ph := Prep; hops := hops s |}
      | ANext => next s
      | _ => {| left := left s; ph := Done; hops := hops s |}
      end
  | Prep =>
      match a with
      | PSame => {| left := left s; ph := Exec; hops := hops s |}
      | POther => if orig then {| left := left s; ph := Exec; hops := hops s |} else next s
      | _ => next s
      end
  end.

Definition start (hosts_after_first : nat) : st := {| left := hosts_after_first; ph := Exec; hops := 0 |}.
Definition run (orig : bool) (s : st) (l : list ans) : st := fold_left (step orig) l s.

Definition is_same (a : ans) : bool := match a with PSame => true | _ => false end.
Definition sames (l : list ans) : nat := length (filter is_same l).

(** ** a backend that keeps its word: per host the set of ids it has prepared; EXECUTE of [i] is UNPREPARED exactly when
    [i] is not in the set; PREPARE of the cached frame prepares the id [j] that frame hashes to ([j] = [i] unless the
    proxy sends something else than the client's statement -- the defect found by the thorough run) and reports it. *)
Record bstate := { cur : list nat; rest : list (list nat) }.

Definition bnext (b : bstate) : bstate :=
  match rest b with [] => {| cur := []; rest := [] |} | c :: r => {| cur := c; rest := r |} end.

(** the backend's answer in the proxy's state [s], and its next state *)
Definition answer (i j : nat) (s : st) (b : bstate) : ans * bstate :=
  match ph s with
  | Exec => ((if existsb (Nat.eqb i) (cur b) then AFinal else AUnprep), b)
  | Prep => ((if Nat.eqb j i then PSame else POther), {| cur := j :: cur b; rest := rest b |})
  | Done => (AFinal, b)
  end.

Fixpoint drive (orig : bool) (i j : nat) (fuel : nat) (s : st) (b : bstate) : st :=
  match fuel with
  | O => s
  | S f =>
      match ph s with
      | Done => s
      | _ =>
          let '(a, b1) := answer i j s b in
          let s1 := step orig s a in
          drive orig i j f s1 (if Nat.eqb (hops s1) (hops s) then b1 else bnext b1)
      end
  end.
