(** * MonitorSpec: what the trace monitor (Model/Monitor.v) is supposed to guarantee, stated on the RAW
    record list -- no monitor state appears in these definitions.

    A record is the list [(kind table stream req reqkind obj a b c text)]:
    kind 0 table, 1 push, 2 pop, 3 notify, 4 closing, 5 start, 6 host, 7 decision, 8 reply, 9 onclose.

    Scoping.  The monitor only judges objects that were born while the recording ran: a connection (pending
    table) is KNOWN once a [table] record with its id has occurred, a request is STARTED once a [start] record
    with its id has occurred.  Records that mention an unknown table / a request that never started are ignored
    (they belong to another proxy of the same process).  [known pre t] / [started pre r] say so about the prefix
    [pre] of records written before the record under consideration; [life r recs] is what was recorded after
    the start record of [r]; [kcount p recs] counts the records satisfying [p] whose table was known when they
    were written. *)
From Coq Require Import List ZArith NArith Bool Lia.
From CqlProxy Require Import Lib.Val Lib.Util Gen.Tables Model.Retry Model.Monitor.
Import ListNotations.
Local Open Scope Z_scope.

(** ** fields of a record *)
Definition rkind (x : val) : Z := vZ (nthv 0 x).
Definition rtable (x : val) : Z := vZ (nthv 1 x).
Definition rstream (x : val) : Z := vZ (nthv 2 x).
Definition rreq (x : val) : Z := vZ (nthv 3 x).
Definition rrk (x : val) : Z := vZ (nthv 4 x).
Definition robj (x : val) : Z := vZ (nthv 5 x).
Definition ra (x : val) : Z := vZ (nthv 6 x).
Definition rb (x : val) : Z := vZ (nthv 7 x).
Definition rc (x : val) : Z := vZ (nthv 8 x).
Definition rtext (x : val) : bytes := vB (nthv 9 x).

(** ** the records the instrumented code writes *)
Definition mkrec (kind t st req rk obj a b c : Z) (txt : bytes) : val :=
  L [I kind; I t; I st; I req; I rk; I obj; I a; I b; I c; B txt].
Definition rec_table (t : Z) (hostkey : bytes) : val := mkrec 0 t 0 0 0 0 0 0 0 hostkey.
Definition rec_push (t st r rk : Z) : val := mkrec 1 t st r rk 0 0 0 0 [].
Definition rec_pop (t st r rk : Z) : val := mkrec 2 t st r rk 0 0 0 0 [].
Definition rec_notify (t st r rk : Z) : val := mkrec 3 t st r rk 0 0 0 0 [].
Definition rec_closing (t : Z) : val := mkrec 4 t 0 0 0 0 0 0 0 [].
Definition rec_start (r client cstream state : Z) (plan : bytes) : val := mkrec 5 0 0 r 0 client cstream state 0 plan.
Definition rec_host (r : Z) (hostkey : bytes) : val := mkrec 6 0 0 r 0 0 0 0 0 hostkey.
Definition rec_decision (r d retry state : Z) (errfields : bytes) : val := mkrec 7 0 0 r 0 0 d retry state errfields.
Definition rec_reply (r : Z) : val := mkrec 8 0 0 r 0 0 0 0 0 [].
Definition rec_onclose (r : Z) : val := mkrec 9 0 0 r 0 0 0 0 0 [].

(** ** classification of records *)
Definition tbl_rec (t : Z) (x : val) : bool := (rkind x =? 0) && (rtable x =? t).
Definition push_on (k : Z * Z) (x : val) : bool := (rkind x =? 1) && (rtable x =? fst k) && (rstream x =? snd k).
Definition push_at (t : Z) (x : val) : bool := (rkind x =? 1) && (rtable x =? t).
Definition push_of (r : Z) (x : val) : bool := (rkind x =? 1) && (rreq x =? r).
Definition pop_on (k : Z * Z) (x : val) : bool := (rkind x =? 2) && (rtable x =? fst k) && (rstream x =? snd k).
Definition pop_of (r : Z) (x : val) : bool := (rkind x =? 2) && (rreq x =? r).
Definition notify_on (k : Z * Z) (x : val) : bool := (rkind x =? 3) && (rtable x =? fst k) && (rstream x =? snd k).
Definition notify_of (r : Z) (x : val) : bool := (rkind x =? 3) && (rreq x =? r).
Definition closing_of (t : Z) (x : val) : bool := (rkind x =? 4) && (rtable x =? t).
Definition start_of (r : Z) (x : val) : bool := (rkind x =? 5) && (rreq x =? r).
Definition hostrec_of (r : Z) (x : val) : bool := (rkind x =? 6) && (rreq x =? r).
Definition decision_of (r : Z) (x : val) : bool := (rkind x =? 7) && (rreq x =? r).
Definition reply_of (r : Z) (x : val) : bool := (rkind x =? 8) && (rreq x =? r).

(** a record that changes whether the slot [k = (table, stream)] is occupied *)
Definition frees (k : Z * Z) (x : val) : bool := pop_on k x || closing_of (fst k) x.
Definition touches (k : Z * Z) (x : val) : bool := push_on k x || frees k x.

Definition count (p : val -> bool) (l : list val) : nat := length (filter p l).
Definition none_of (p : val -> bool) (l : list val) : Prop := Forall (fun y => p y = false) l.

(** ** scoping *)
Definition known (pre : list val) (t : Z) : bool := existsb (tbl_rec t) pre.
Definition started (pre : list val) (r : Z) : bool := existsb (start_of r) pre.

(** what was recorded after the (first) start record of [r] *)
Fixpoint life (r : Z) (l : list val) : list val :=
  match l with
  | [] => []
  | x :: l' => if start_of r x then l' else life r l'
  end.

(** the records of [l] satisfying [p] that were written on a table already known ([pre] = what precedes [l]) *)
Fixpoint kcount_from (pre : list val) (p : val -> bool) (l : list val) : nat :=
  match l with
  | [] => 0%nat
  | x :: l' => ((if p x && known pre (rtable x) then 1 else 0) + kcount_from (pre ++ [x]) p l')%nat
  end.
Definition kcount (p : val -> bool) (l : list val) : nat := kcount_from [] p l.

(** every push / pop / notify / closing record is on a table declared earlier, every request-level record
    belongs to a request started earlier: what a harness guarantees by starting the recording before it
    creates the proxy *)
Definition recording_complete (recs : list val) : Prop :=
  forall l1 x l2, recs = l1 ++ x :: l2 ->
    ((rkind x = 1 \/ rkind x = 2 \/ rkind x = 3 \/ rkind x = 4) -> known l1 (rtable x) = true) /\
    ((rkind x = 1 \/ rkind x = 2 \/ rkind x = 3 \/ 6 <= rkind x <= 8) -> rreq x <> 0 -> started l1 (rreq x) = true).

(** request [r] does not occur in a push before its start record (it was born during the recording) *)
Definition born_in_trace (recs : list val) (r : Z) : Prop :=
  forall l1 x l2, recs = l1 ++ x :: l2 -> push_of r x = true -> started l1 r = true.

(** table ids are not re-used: at most one table record per id *)
Definition table_declared_once (recs : list val) (t : Z) : Prop := (count (tbl_rec t) recs <= 1)%nat.

(** ** acceptance *)
Definition accepted (recs : list val) (s : mstate) : Prop := mrun init_mstate recs 0 = (None, s).

(** ** observables *)
Definition last_text (p : val -> bool) (l : list val) : bytes := last (map rtext (filter p l)) [].
Definition hosts_taken (r : Z) (l : list val) : list bytes := map rtext (filter (hostrec_of r) l).
Definition prefix_of {A} (a b : list A) : Prop := exists c, b = a ++ c.
Definition nonempty (b : bytes) : bool := match b with [] => false | _ => true end.

(** is the slot [k] occupied after [l] (starting from [cur]): the last record touching it on a known table is a push *)
Fixpoint occupied_from (pre : list val) (k : Z * Z) (cur : bool) (l : list val) : bool :=
  match l with
  | [] => cur
  | x :: l' =>
      occupied_from (pre ++ [x]) k
        (if known pre (fst k) then (if push_on k x then true else if frees k x then false else cur) else cur) l'
  end.
Definition occupied (k : Z * Z) (l : list val) : bool := occupied_from [] k false l.

(** the number of closing records of [fst k] (a known table) written while the slot [k] was occupied *)
Fixpoint captures_from (pre : list val) (k : Z * Z) (l : list val) : nat :=
  match l with
  | [] => 0%nat
  | x :: l' => ((if closing_of (fst k) x && occupied k pre then 1 else 0) + captures_from (pre ++ [x]) k l')%nat
  end.
Definition captures (k : Z * Z) (l : list val) : nat := captures_from [] k l.

(** the plan a request was started with (text of its start record, split at commas) *)
Definition plan_of (r : Z) (l : list val) : list bytes := fields (last_text (start_of r) l).
