(** * SysTablesSpec: specification-side definitions for property C10 (used by Proofs/SysTablesProofs2.v).

    Nothing here is executed by the harness: these are the independent statements the model
    [Model/SysTables.v] is proved against:
    - hypotheses on a shared peer list ([addr_nodup], [ips_nonempty], [dc_coherent], ...);
    - the canonical ring every member of a shared list must present ([canon_ring]);
    - the projection plan of a selector list written from the property text ([expected_plan],
      [expected_columns]);
    - decoders of the CQL wire encodings of the cells ([dec_inet], [dec_varchar_list], [dec_int],
      [decode]) and the facts every column has to decode to ([local_fact], [peer_fact]). *)
From Coq Require Import List ZArith NArith Bool Lia.
From CqlProxy Require Import Lib.Val Lib.Util Lib.Wire Gen.Tables Model.Handled Model.SysTables.
Import ListNotations.
Local Open Scope N_scope.

(** ** 1. hypotheses on a shared peer list *)

(** no two entries of the list have the same address ([addr_cmp] compares ip, then zone) *)
Fixpoint addr_nodup (l : list node) : Prop :=
  match l with
  | [] => True
  | x :: r => (forall y, In y r -> addr_cmp x y <> Eq) /\ addr_nodup r
  end.

Fixpoint addr_nodupb (l : list node) : bool :=
  match l with
  | [] => true
  | x :: r => forallb (fun y => match addr_cmp x y with Eq => false | _ => true end) r && addr_nodupb r
  end.

Definition ips_nonempty (l : list node) : Prop := forall n, In n l -> n_ip n <> [].
Definition no_tokens (l : list node) : Prop := forall n, In n l -> n_tokens n = [].
Definition all_tokens (l : list node) : Prop := forall n, In n l -> n_tokens n <> [].
Definition dcs_nonempty (l : list node) : Prop := forall n, In n l -> n_dc n <> [].
Definition dcs_empty (l : list node) : Prop := forall n, In n l -> n_dc n = [].

(** the data center a proxy configured as [n] reports for itself *)
Definition eff_dc (info : config) (n : node) : bytes :=
  match n_dc n with [] => c_cluster_dc info | d => d end.

(** Weakest hypothesis under which the views agree on data centers: a peer entry WITHOUT a dc
    is filled in by every proxy with that proxy's OWN effective dc, so all those must coincide
    with what the peer itself would report (the cluster dc).  It holds when every dc is given,
    and when none is. *)
Definition dc_coherent (info : config) (l : list node) : Prop :=
  forall s p, In s l -> In p l -> n_dc p = [] -> eff_dc info s = c_cluster_dc info.

(** what is presented of a node, and the node as its own proxy would describe it *)
Definition proj (n : node) : bytes * bytes * bytes * list bytes * bytes :=
  (n_ip n, n_zone n, n_dc n, n_tokens n, uuid_of_md5 (n_md5 n)).

Definition norm (info : config) (n : node) : node :=
  {| n_ip := n_ip n; n_zone := n_zone n; n_dc := eff_dc info n; n_tokens := n_tokens n; n_md5 := n_md5 n; n_local := false |}.

(** the i-th entry of the ring in computed-token mode *)
Definition ring_entry (k : nat) (i : nat) (n : node) : bytes * bytes * bytes * list bytes * bytes :=
  (n_ip n, n_zone n, n_dc n, [print_Z (nth_token k i)], uuid_of_md5 (n_md5 n)).

Fixpoint ring_from (k : nat) (i : nat) (l : list node) : list (bytes * bytes * bytes * list bytes * bytes) :=
  match l with
  | [] => []
  | n :: r => ring_entry k i n :: ring_from k (S i) r
  end.

(** The ring every member of the shared list [l] must present, computed-token mode: the nodes
    of [l] in address order, each with its effective dc, the i-th carrying the i-th of
    [length l + 1] equal slices of the token range, and the host id of its address digest. *)
Definition canon_ring (info : config) (l : list node) : list (bytes * bytes * bytes * list bytes * bytes) :=
  ring_from (length l) 0 (sort_nodes (map (norm info) l)).

(** ... and in configured-token mode: the same with the configured tokens. *)
Definition canon_ring_cfg (info : config) (l : list node) : list (bytes * bytes * bytes * list bytes * bytes) :=
  map proj (sort_nodes (map (norm info) l)).

(** the configuration of the proxy run by member [self] of the shared list *)
Definition member_config (shared : list node) (info : config) (self : node) : config :=
  {| c_has_rpc := true; c_local := self; c_peers := shared; c_cluster_dc := c_cluster_dc info; c_release := c_release info;
     c_partitioner := c_partitioner info; c_cql := c_cql info; c_dse := c_dse info; c_version := c_version info |}.

(** ** 2. projection: the plan of a selector list, from the property text

    Every output column has a name, a type and a SOURCE: a named column of the table, the
    row count, or the clock. *)
Inductive source :=
| SrcCol (name : bytes)
| SrcCount
| SrcNow.

Record out_col := { oc_name : bytes; oc_type : coltype; oc_src : source }.

(** an alias may be stacked on an alias: the outermost one names the column *)
Fixpoint sel_base (s : selector) : selector :=
  match s with SelAlias inner _ => sel_base inner | _ => s end.
Definition sel_alias (s : selector) : option bytes :=
  match s with SelAlias _ a => Some a | _ => None end.

Definition count_name (arg : bytes) : bytes :=
  if bytes_eqb arg (str "*") then str "count" else str "system.count(" ++ lower arg ++ str ")".

Fixpoint lookup_col (cols : list col) (name : bytes) : option coltype :=
  match cols with
  | [] => None
  | (n, t) :: r => if bytes_eqb n name then Some t else lookup_col r name
  end.

(** the columns one selector contributes, before renaming; [None] = unknown column = error *)
Definition base_plan (cols : list col) (s : selector) : option (list out_col) :=
  match s with
  | SelId name =>
      match lookup_col cols name with
      | Some t => Some [{| oc_name := name; oc_type := t; oc_src := SrcCol name |}]
      | None => None
      end
  | SelStar => Some (map (fun c => {| oc_name := fst c; oc_type := snd c; oc_src := SrcCol (fst c) |}) cols)
  | SelCount arg => Some [{| oc_name := count_name arg; oc_type := CT (str "int"); oc_src := SrcCount |}]
  | SelNow => Some [{| oc_name := str "system.now()"; oc_type := CT (str "timeuuid"); oc_src := SrcNow |}]
  | SelAlias _ _ => None (* not a base selector *)
  end.

Definition rename (a : option bytes) (e : out_col) : out_col :=
  match a with
  | Some n => {| oc_name := n; oc_type := oc_type e; oc_src := oc_src e |}
  | None => e
  end.

Definition selector_plan (cols : list col) (s : selector) : option (list out_col) :=
  option_map (map (rename (sel_alias s))) (base_plan cols (sel_base s)).

Fixpoint expected_plan (cols : list col) (sels : list selector) : option (list out_col) :=
  match sels with
  | [] => Some []
  | s :: r =>
      match selector_plan cols s with
      | None => None
      | Some a => option_map (app a) (expected_plan cols r)
      end
  end.

Definition expected_columns (table : bytes) (cols : list col) (sels : list selector) : option (list col) :=
  option_map (map (fun e => (oc_name e, oc_type e))) (expected_plan cols sels).

(** the cell a source yields in a row whose named values are [value] *)
Definition cell_ok (value : bytes -> option bytes) (e : out_col) (c : cell) : Prop :=
  match oc_src e with
  | SrcCol name => exists v, value name = Some v /\ c = Some v
  | SrcCount => exists v, value (str "count(*)") = Some v /\ c = Some v
  | SrcNow => c = None
  end.

(** ** 3. decoders of the cell encodings (CQL native protocol v3+ value formats) *)

Definition v4_prefix : bytes := [0; 0; 0; 0; 0; 0; 0; 0; 0; 0; 255; 255].

(** inet: 4 bytes (IPv4, returned in the 16-byte mapped form net.IP uses) or 16 bytes *)
Definition dec_inet (b : bytes) : option bytes :=
  if Nat.eqb (length b) 4 then Some (v4_prefix ++ b)
  else if Nat.eqb (length b) 16 then Some b
  else None.

(** int: exactly four bytes, two's complement *)
Definition dec_int (b : bytes) : option Z :=
  match read_int b with
  | Some (z, []) => Some z
  | _ => None
  end.

(** one collection element: [int] length (negative = null, rejected here), then the bytes *)
Definition read_elem (b : bytes) : option (bytes * bytes) :=
  match read_int b with
  | Some (n, r) => if (n <? 0)%Z then None else get_z n r
  | None => None
  end.

Fixpoint dec_elems (n : nat) (b : bytes) : option (list bytes) :=
  match n with
  | O => match b with [] => Some [] | _ => None end
  | S k =>
      match read_elem b with
      | Some (s, r) => option_map (cons s) (dec_elems k r)
      | None => None
      end
  end.

(** list<varchar> / set<varchar>: [int] count, then the elements; no trailing bytes *)
Definition dec_varchar_list (b : bytes) : option (list bytes) :=
  match read_int b with
  | Some (n, r) => if (n <? 0)%Z then None else dec_elems (Z.to_nat n) r
  | None => None
  end.

(** ** 4. typed facts *)
Inductive fact :=
| FText (s : bytes)
| FInet (ip : bytes)                (* 16-byte form *)
| FTextSet (l : list bytes)
| FUuid (u : bytes)
| FInt (z : Z).

Definition fact_type (f : fact) : coltype :=
  match f with
  | FText _ => CT (str "varchar")
  | FInet _ => CT (str "inet")
  | FTextSet _ => CSet (CT (str "varchar"))
  | FUuid _ => CT (str "uuid")
  | FInt _ => CT (str "int")
  end.

Fixpoint coltype_eqb (a b : coltype) : bool :=
  match a, b with
  | CT x, CT y => bytes_eqb x y
  | CSet x, CSet y => coltype_eqb x y
  | CList x, CList y => coltype_eqb x y
  | CMap k v, CMap k' v' => coltype_eqb k k' && coltype_eqb v v'
  | _, _ => false
  end.

(** decode a cell under the type advertised for its column *)
Definition decode (t : coltype) (b : bytes) : option fact :=
  match t with
  | CT n =>
      if bytes_eqb n (str "varchar") then Some (FText b)
      else if bytes_eqb n (str "inet") then option_map FInet (dec_inet b)
      else if bytes_eqb n (str "uuid") then (if Nat.eqb (length b) 16 then Some (FUuid b) else None)
      else if bytes_eqb n (str "int") then option_map FInt (dec_int b)
      else None
  | CSet (CT n) => if bytes_eqb n (str "varchar") then option_map FTextSet (dec_varchar_list b) else None
  | _ => None
  end.

(** the facts common to system.local and system.peers (Proxy.systemLocalValues) *)
Definition common_fact (c : config) (name : bytes) : option fact :=
  if bytes_eqb name (str "rack") then Some (FText (str "rack1"))
  else if bytes_eqb name (str "release_version") then Some (FText (c_release c))
  else if bytes_eqb name (str "schema_version") then Some (FUuid schema_version_uuid)
  else if bytes_eqb name (str "dse_version") then Some (FText (c_dse c))
  else None.

(** what each column of the single system.local row has to say about this proxy *)
Definition local_fact (c : config) (local : node) (name : bytes) : option fact :=
  if bytes_eqb name (str "key") then Some (FText (str "local"))
  else if bytes_eqb name (str "rpc_address") then Some (FInet (n_ip local))
  else if bytes_eqb name (str "data_center") then Some (FText (n_dc local))
  else if bytes_eqb name (str "tokens") then Some (FTextSet (n_tokens local))
  else if bytes_eqb name (str "host_id") then Some (FUuid (uuid_of_md5 (n_md5 local)))
  else if bytes_eqb name (str "partitioner") then Some (FText (c_partitioner c))
  else if bytes_eqb name (str "cluster_name") then Some (FText (str "cql-proxy"))
  else if bytes_eqb name (str "cql_version") then Some (FText (c_cql c))
  else if bytes_eqb name (str "native_protocol_version") then Some (FText (print_N (c_version c)))
  else common_fact c name.

(** what each column of a system.peers row has to say about that peer *)
Definition peer_fact (c : config) (peer : node) (name : bytes) : option fact :=
  if bytes_eqb name (str "peer") then Some (FInet (n_ip peer))
  else if bytes_eqb name (str "rpc_address") then Some (FInet (n_ip peer))
  else if bytes_eqb name (str "data_center") then Some (FText (n_dc peer))
  else if bytes_eqb name (str "tokens") then Some (FTextSet (n_tokens peer))
  else if bytes_eqb name (str "host_id") then Some (FUuid (uuid_of_md5 (n_md5 peer)))
  else common_fact c name.

(** well-formedness of a node for the decoders: a 16-byte address, a 16-byte digest, token
    strings (and their number) below 2^31 *)
Definition node_wf (n : node) : Prop :=
  length (n_ip n) = 16%nat /\ length (n_md5 n) = 16%nat /\
  (Z.of_nat (length (n_tokens n)) < 2147483648)%Z /\
  Forall (fun s => (Z.of_nat (length s) < 2147483648)%Z) (n_tokens n).

(** a cell at an output position decodes, under the advertised type of that position, to the
    fact of its source; [count] is the expected row count *)
Definition cell_decodes (facts : bytes -> option fact) (count : Z) (e : out_col) (c : cell) : Prop :=
  match oc_src e with
  | SrcCol name => exists b f, c = Some b /\ facts name = Some f /\ decode (oc_type e) b = Some f
  | SrcCount => exists b, c = Some b /\ decode (oc_type e) b = Some (FInt count)
  | SrcNow => c = None /\ oc_type e = CT (str "timeuuid")
  end.

(** well-formedness of a configuration (what the harness generators and the Go resolver
    guarantee): 16-byte addresses and digests, token strings, token counts and the number of peers below 2^31 *)
Definition cfg_node_wf (n : node) : Prop :=
  length (n_ip n) = 16%nat /\ length (n_md5 n) = 16%nat /\
  (Z.of_nat (length (n_tokens n)) < 2147483648)%Z /\
  Forall (fun s => (Z.of_nat (length s) < 2147483648)%Z) (n_tokens n).

Definition config_wf (c : config) : Prop :=
  cfg_node_wf (c_local c) /\ Forall cfg_node_wf (c_peers c) /\ (Z.of_nat (length (c_peers c)) < 2147483648)%Z.
