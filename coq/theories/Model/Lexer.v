(** * Lexer: parser/lexer.rl as the generic maximal-munch scanner applied to the rule list that
    tools/rl2coq.py regenerates from the Ragel source on every run.  [tokenize] is the sequence
    of tokens successive calls of [lexer.next()] return (excluding the final, repeated tkEOF). *)
From Coq Require Import List NArith Bool.
From CqlProxy Require Import Lib.Val Lib.Regex Gen.LexRules.
Import ListNotations.
Local Open Scope N_scope.

Record tok := { t_code : N; t_text : bytes }.

Definition rule_res : list re := map fst lex_rules.
Definition rule_acts : list lex_action := map snd lex_rules.

Fixpoint tokenize_fuel (fuel : nat) (input : bytes) : list tok :=
  match fuel with
  | O => []
  | S f =>
      match input with
      | [] => []
      | c :: rest1 =>
          match scan_one rule_res input with
          | None =>
              (* no rule matches: Ragel's error state; the rule list ends with [any], so this is unreachable *)
              match rest1 with [] => [] | _ => {| t_code := tkInvalid; t_text := [] |} :: tokenize_fuel f rest1 end
          | Some (len, idx) =>
              let rest := skipn len input in
              match nth idx rule_acts Skip with
              | Skip => tokenize_fuel f rest
              | Tok code keep =>
                  (* "if tk == tkInvalid && p == eof { return tkEOF }" *)
                  if (code =? tkInvalid) && (match rest with [] => true | _ => false end) then []
                  else {| t_code := code; t_text := if keep then firstn len input else [] |} :: tokenize_fuel f rest
              end
          end
      end
  end.

Definition tokenize (input : bytes) : list tok := tokenize_fuel (S (length input)) input.

(** correspondence entry: token codes and identifier texts *)
Definition tok_val (t : tok) : val := L [IN (t_code t); B (t_text t)].
Definition run_lex (input : val) : val := L (map tok_val (tokenize (vB input))).
