(** * Retry: life of one forwarded request (proxy/request.go) -- properties C04, C05 (and the
    re-prepare path of C08).

    One *iteration* below is one turn of the loop in [request.executeInternal]: pick the host
    (the next one of the query plan, or the current one), [Session.Send] it, and -- when the
    send succeeded -- what the backend connection later reports for that attempt
    ([OnResult] / [OnClose] / the re-prepare continuation of ClientConn.maybePrepareAndExecute).

    The environment is an arbitrary pair of functions: [can_send i h] says whether the i-th
    send attempt (counting every loop iteration) to host [h] finds a usable connection,
    [answer j h] what the backend side does with the j-th request that was actually sent.
    Theorems quantify over all environments, i.e. over all fault sequences. *)
From Coq Require Import List ZArith NArith Bool Lia.
From CqlProxy Require Import Lib.Val Lib.Util Gen.Tables.
Import ListNotations.
Local Open Scope Z_scope.

(** what happens to the PREPARE the proxy sends by itself after an UNPREPARED answer *)
Inductive prep_outcome :=
| PrepOk        (* RESULT: re-execute on the same host *)
| PrepErr       (* ERROR: move on to the next host *)
| PrepLost      (* the connection dropped while the PREPARE was pending *)
| PrepSendFail. (* the PREPARE could not be sent (connection closing / streams exhausted): the request moves on, as after PrepErr *)

Inductive outcome :=
| OResult                        (* any non-ERROR frame *)
| OError (m : err_info)          (* an ERROR frame that reaches request.OnResult *)
| OUnprepared (p : prep_outcome) (* UNPREPARED for an id that is in the prepared cache *)
| OLost.                         (* no answer: the backend connection closes (request.OnClose) *)

Record env := { can_send : nat -> N -> bool; answer : nat -> N -> outcome }.

Inductive reply :=
| RpResult (h : N) (j : nat)  (* the frame answering sent attempt j, from host h, is forwarded *)
| RpError (h : N) (j : nat)   (* the ERROR frame answering sent attempt j is forwarded *)
| RpNoHosts                   (* "Proxy exhausted query plan and there are no more hosts available to try" *)
| RpConnLost.                 (* "Proxy is unable to retry non-idempotent query after connection ... closed" *)

(** one record per loop iteration *)
Inductive tried :=
| Sent (adv : bool) (h : N) (j : nat) (o : outcome)   (* adv: this iteration moved to the plan's next host *)
| SendFailed (adv : bool) (h : N).

(** request.handleErrorResult's switch (by message type = by error code) around the generated
    policy methods.  [idem] is [checkIdempotent()]. *)
Definition handle_error (idem : bool) (m : err_info) (retry : Z) : N :=
  let c := e_code m in
  if c =? ErrorCodeReadTimeout then on_read_timeout m retry
  else if c =? ErrorCodeWriteTimeout then (if idem then on_write_timeout m retry else dec_ReturnError)
  else if c =? ErrorCodeUnavailable then on_unavailable m retry
  else if c =? ErrorCodeIsBootstrapping then dec_RetryNext
  else if (c =? ErrorCodeServerError) || (c =? ErrorCodeOverloaded) || (c =? ErrorCodeTruncateError)
          || (c =? ErrorCodeReadFailure) || (c =? ErrorCodeWriteFailure)
       then (if idem then on_error_response m retry else dec_ReturnError)
  else dec_ReturnError.

Record rstate := {
  plan : list N;        (* hosts the query plan has not yielded yet *)
  host : option N;      (* r.host *)
  retry : Z;            (* r.retryCount *)
  tries : nat;          (* loop iterations so far *)
  sent : nat            (* requests actually handed to a backend connection so far *)
}.

Definition advance (st : rstate) : rstate :=
  match plan st with
  | [] => {| plan := []; host := None; retry := retry st; tries := tries st; sent := sent st |}
  | h :: r => {| plan := r; host := Some h; retry := retry st; tries := tries st; sent := sent st |}
  end.

Definition bump (st : rstate) (did_send : bool) (inc_retry : bool) : rstate :=
  {| plan := plan st; host := host st;
     retry := if inc_retry then retry st + 1 else retry st;
     tries := S (tries st);
     sent := if did_send then S (sent st) else sent st |}.

(** [exec fuel idem e next st]: executeInternal(next) and everything that follows, until the
    single reply.  [None] = out of fuel (the request would still be looping). *)
Fixpoint exec_gen (dec : bool -> err_info -> Z -> N) (fuel : nat) (idem : bool) (e : env) (next : bool) (st : rstate) : list tried * option reply :=
  match fuel with
  | O => ([], None)
  | S f =>
      let st1 := if next then advance st else st in
      match host st1 with
      | None => ([], Some RpNoHosts)
      | Some h =>
          if can_send e (tries st1) h then
            let j := sent st1 in
            let o := answer e j h in
            let cont (next' inc : bool) :=
              let '(t, r) := exec_gen dec f idem e next' (bump st1 true inc) in (Sent next h j o :: t, r) in
            match o with
            | OResult => ([Sent next h j o], Some (RpResult h j))
            | OError m =>
                let d := dec idem m (retry st1) in
                if N.eqb d dec_RetryNext then cont true true
                else if N.eqb d dec_RetrySame then cont false true
                else ([Sent next h j o], Some (RpError h j))
            | OUnprepared PrepOk => cont false false
            | OUnprepared PrepErr | OUnprepared PrepSendFail => cont true false
            | OUnprepared PrepLost | OLost =>
                if idem then cont true false else ([Sent next h j o], Some RpConnLost)
            end
          else
            (* Session.Send failed: the loop goes round again, now moving to the next host *)
            let '(t, r) := exec_gen dec f idem e true (bump st1 false false) in (SendFailed next h :: t, r)
      end
  end.

(** the code: decisions by [handle_error] (generated policy methods) *)
Definition exec := exec_gen handle_error.

Definition init_state (p : list N) : rstate := {| plan := p; host := None; retry := 0; tries := 0; sent := 0 |}.

(** request.Execute(true) on a fresh request *)
Definition run (fuel : nat) (idem : bool) (e : env) (p : list N) := exec fuel idem e true (init_state p).

(** ** The documented policy, transcribed independently from the property text *)
Inductive doc_dec := DSame | DNext | DReturn.
Definition doc_code (d : doc_dec) : N := match d with DSame => 0 | DNext => 1 | DReturn => 2 end%N.

Definition batch_log : bytes := str "BATCH_LOG".

Definition doc_policy (idem : bool) (m : err_info) (retry : Z) : doc_dec :=
  let c := e_code m in
  if c =? 4608 (* read timeout *) then
    if (retry =? 0) && (e_blockFor m <=? e_received m) && negb (e_dataPresent m) then DSame else DReturn
  else if c =? 4352 (* write timeout *) then
    if idem && (retry =? 0) && bytes_eqb (e_writeType m) batch_log then DSame else DReturn
  else if c =? 4096 (* unavailable *) then (if retry =? 0 then DNext else DReturn)
  else if c =? 4098 (* bootstrapping *) then DNext
  else if (c =? 0) || (c =? 4097) || (c =? 4099) (* server, overloaded, truncate *) then
    (if idem then DNext else DReturn)
  else DReturn.

(** the documented behaviour: the same request life with the documented decisions *)
Definition run_doc (fuel : nat) (idem : bool) (e : env) (p : list N) :=
  exec_gen (fun i m r => doc_code (doc_policy i m r)) fuel idem e true (init_state p).

(** ** Observables used by the theorems *)
Definition sent_hosts (t : list tried) : list N :=
  flat_map (fun x => match x with Sent _ h _ _ => [h] | SendFailed _ _ => [] end) t.
Definition tried_hosts (t : list tried) : list N :=
  map (fun x => match x with Sent _ h _ _ => h | SendFailed _ h => h end) t.
Definition adv_hosts (t : list tried) : list N :=
  flat_map (fun x => match x with Sent true h _ _ => [h] | SendFailed true h => [h] | _ => [] end) t.
Definition reexecs (t : list tried) : nat :=
  length (filter (fun x => match x with Sent _ _ _ (OUnprepared PrepOk) => true | _ => false end) t).
Definition count_sent (t : list tried) : nat := length (sent_hosts t).

(** outcomes after which a further attempt cannot re-apply a write *)
Definition safe_to_resend (o : outcome) : bool :=
  match o with
  | OError m =>
      let c := e_code m in
      (c =? ErrorCodeUnavailable) || (c =? ErrorCodeIsBootstrapping) || (c =? ErrorCodeReadTimeout)
  | OUnprepared PrepOk | OUnprepared PrepErr | OUnprepared PrepSendFail => true
  | _ => false
  end.

(** ** Correspondence-check entry points (property C05 and C04 share them).
    input kind 0: direct policy call  (0 method code received blockFor dataPresent writeType retryCount)
       method: 0 OnReadTimeout 1 OnWriteTimeout 2 OnUnavailable 3 OnErrorResponse
       output: decision number
    input kind 3: (3 n) n sends on one backend connection closed while its reader is busy; output (k): k requests
       whose Send failed were later notified through OnClose
    input kind 1: scripted request   (1 idem (plan...) (down...) (outcome...))
       outcome: (0) result | (1 code received blockFor dataPresent writeType) error | (2 p) unprepared | (3) lost
       output: ((host...) reply)   hosts that received the request, in order;
               reply: (0 host) result | (1 host code) error | (2) no hosts | (3) connection lost | (9) none *)
Definition mk_err (code received blockFor : Z) (dp : bool) (wt : bytes) : err_info :=
  {| e_code := code; e_received := received; e_blockFor := blockFor; e_dataPresent := dp; e_writeType := wt;
     e_alive := 0; e_required := 0; e_numFailures := 0; e_consistency := 0 |}.

Definition outcome_of_val (v : val) : outcome :=
  let k := vZ (nthv 0 v) in
  if k =? 0 then OResult
  else if k =? 1 then OError (mk_err (vZ (nthv 1 v)) (vZ (nthv 2 v)) (vZ (nthv 3 v)) (vbool (nthv 4 v)) (vB (nthv 5 v)))
  else if k =? 2 then
    OUnprepared (let p := vZ (nthv 1 v) in if p =? 0 then PrepOk else if p =? 1 then PrepErr else if p =? 2 then PrepLost else PrepSendFail)
  else OLost.

Definition memN (x : N) (l : list N) : bool := existsb (N.eqb x) l.

Definition env_of (down : list N) (script : list outcome) : env :=
  {| can_send := fun _ h => negb (memN h down);
     answer := fun j _ => nth j script OResult |}.

Definition err_code_of (o : outcome) : Z := match o with OError m => e_code m | OUnprepared _ => ErrorCodeUnprepared | _ => -1 end.

Definition reply_val (t : list tried) (r : option reply) : val :=
  match r with
  | Some (RpResult h _) => L [I 0; IN h]
  | Some (RpError h j) =>
      L [I 1; IN h; I (fold_right (fun x acc => match x with Sent _ _ j' o => if Nat.eqb j j' then err_code_of o else acc | _ => acc end) (-1) t)]
  | Some RpNoHosts => L [I 2]
  | Some RpConnLost => L [I 3]
  | None => L [I 9]
  end.

Definition run_c05 (input : val) : val :=
  let kind := vZ (nthv 0 input) in
  if kind =? 2 then L [nthv 1 input]   (* n idempotent requests in flight when a host's connections drop: n replies *)
  else if kind =? 3 then L [I 0]       (* n sends on a connection closed under a busy reader: no failed send is notified later *)
  else if kind =? 0 then
    let meth := vZ (nthv 1 input) in
    let m := mk_err (vZ (nthv 2 input)) (vZ (nthv 3 input)) (vZ (nthv 4 input)) (vbool (nthv 5 input)) (vB (nthv 6 input)) in
    let rc := vZ (nthv 7 input) in
    IN (if meth =? 0 then on_read_timeout m rc else if meth =? 1 then on_write_timeout m rc
        else if meth =? 2 then on_unavailable m rc else on_error_response m rc)
  else
    let idem := vbool (nthv 1 input) in
    let p := map vN (vL (nthv 2 input)) in
    let down := map vN (vL (nthv 3 input)) in
    let script := map outcome_of_val (vL (nthv 4 input)) in
    let '(t, r) := run (2 * length p + length script + 4) idem (env_of down script) p in
    L [L (map IN (sent_hosts t)); reply_val t r].

Definition doc_c05 (input : val) : val :=
  let idem := vbool (nthv 1 input) in
  let p := map vN (vL (nthv 2 input)) in
  let down := map vN (vL (nthv 3 input)) in
  let script := map outcome_of_val (vL (nthv 4 input)) in
  let '(t, r) := run_doc (2 * length p + length script + 4) idem (env_of down script) p in
  L [L (map IN (sent_hosts t)); reply_val t r].

(** property predicate evaluated on the implementation's output.
    kind 0: the decision must be the documented one (for the method's own error code);
    kind 1: non-idempotent requests must not be re-sent after an unsafe outcome, attempts are
            bounded, a reply exists. *)
Definition holds_c05 (input output : val) : val :=
  let kind := vZ (nthv 0 input) in
  if kind =? 2 then (if val_eqb output (L [nthv 1 input]) then B [] else B (str "requests-left-unanswered"))
  else if kind =? 3 then
    (if val_eqb output (L [I 0]) then B []
     else B (str "request-whose-send-failed-stayed-registered-and-was-notified-of-the-close-after-moving-on-to-the-next-host"))
  else if kind =? 0 then
    let meth := vZ (nthv 1 input) in
    let m := mk_err (vZ (nthv 2 input)) (vZ (nthv 3 input)) (vZ (nthv 4 input)) (vbool (nthv 5 input)) (vB (nthv 6 input)) in
    let rc := vZ (nthv 7 input) in
    let c := e_code m in
    let relevant :=
      if meth =? 0 then c =? 4608 else if meth =? 1 then c =? 4352 else if meth =? 2 then c =? 4096
      else (c =? 0) || (c =? 4097) || (c =? 4099) || (c =? 4864) || (c =? 5376) in
    if negb relevant || (rc <? 0) then B []
    else if N.eqb (vN output) (doc_code (doc_policy true m rc)) then B []
    else B (str "decision-differs-from-documented-policy")
  else
    let idem := vbool (nthv 1 input) in
    let p := vL (nthv 2 input) in
    let script := map outcome_of_val (vL (nthv 4 input)) in
    let hosts := vL (nthv 0 output) in
    let rep := vZ (nthv 0 (nthv 1 output)) in
    if rep =? 9 then B (str "no-reply")
    else if rep =? 8 then B (str "more-than-one-reply")
    else if Nat.ltb (length p + 1 + length (filter (fun o => match o with OUnprepared _ => true | _ => false end) script)) (length hosts)
      then B (str "more-attempts-than-hosts-plus-one")
    else if negb idem &&
            existsb (fun k => negb (safe_to_resend (nth k script OResult))) (seq 0 (length hosts - 1))
      then B (str "non-idempotent-resent-after-unsafe-outcome")
    else if negb (val_eqb output (doc_c05 input)) then B (str "attempts-or-reply-differ-from-documented-policy")
    else B [].
