(** * Handshake: how the proxy opens a BACKEND connection (proxycore/clientconn.go Handshake / handshake /
    registerForEvents / authInitialResponse / authChallenge, proxycore/auth.go passwordAuth, the version rules of
    proxycore/cluster.go connect and proxycore/connpool.go connect).  Properties C07 (a pooled connection speaks the
    client's protocol version), C16 (the control connection negotiates a version once and keeps it), C19 (credentials).

    The backend is a function from what the proxy sends to what it answers; nothing is assumed about it. *)
From Coq Require Import List ZArith NArith Bool Lia.
From CqlProxy Require Import Lib.Val Lib.Util.
Import ListNotations.
Local Open Scope N_scope.

(** what a backend may answer to one of the proxy's handshake frames *)
Inductive bresp :=
| RReady
| RAuthenticate (authenticator : bytes)
| RAuthChallenge (token : bytes)
| RAuthSuccess
| RUnsupportedVersion        (* ERROR PROTOCOL_ERROR whose message contains "Invalid or unsupported protocol version" *)
| RError                     (* any other ERROR *)
| ROther                     (* any other message *)
| RNone.                     (* no answer: time-out or connection error *)

(** what the proxy sends *)
Inductive hframe :=
| FStartup (version : N)
| FRegister (version : N)
| FAuthResponse (version : N) (token : bytes).

Definition backend := list hframe -> hframe -> bresp.   (* history so far (oldest first), this frame -> answer *)

Inductive houtcome := HOk | HAuthExpected | HCqlError | HUnexpected | HSendError | HBadChallenge | HOutOfFuel.

(** the downgrade chain of [handshake]: DSEv2 -> DSEv1 -> v4 -> v3 -> v2 (stop); any other byte: minus one (uint8) *)
Definition downgrade (v : N) : option N :=
  if v =? 66 then Some 65
  else if v =? 65 then Some 4
  else if v =? 2 then None
  else Some ((v + 255) mod 256).

Definition dse_authenticator : bytes := str "com.datastax.bdp.cassandra.auth.DseAuthenticator".
Definition plain : bytes := str "PLAIN".
Definition plain_start : bytes := str "PLAIN-START".

Record creds := { c_authid : bytes; c_user : bytes; c_pass : bytes }.
Definition make_token (c : creds) : bytes := c_authid c ++ [0] ++ c_user c ++ [0] ++ c_pass c.
Definition initial_response (c : creds) (authenticator : bytes) : bytes :=
  if bytes_eqb authenticator dse_authenticator then plain else make_token c.

Record hstate := { sent : list hframe; h_version : N; h_out : houtcome }.

Definition send (be : backend) (hist : list hframe) (f : hframe) : list hframe * bresp := (hist ++ [f], be hist f).

(** registerForEvents *)
Definition register (be : backend) (hist : list hframe) (v : N) : list hframe * houtcome :=
  let '(h1, r) := send be hist (FRegister v) in
  (h1, match r with RReady => HOk | RNone => HSendError | RError | RUnsupportedVersion => HCqlError | _ => HUnexpected end).

(** authInitialResponse / authChallenge *)
Definition authenticate (be : backend) (hist : list hframe) (v : N) (c : creds) (authenticator : bytes) : list hframe * houtcome :=
  let '(h1, r) := send be hist (FAuthResponse v (initial_response c authenticator)) in
  match r with
  | RAuthSuccess => (h1, HOk)
  | RAuthChallenge tok =>
      if bytes_eqb tok plain_start then
        let '(h2, r2) := send be h1 (FAuthResponse v (make_token c)) in
        (h2, match r2 with RAuthSuccess => HOk | RNone => HSendError | RError | RUnsupportedVersion => HCqlError | _ => HUnexpected end)
      else (h1, HBadChallenge)
  | RNone => (h1, HSendError)
  | RError | RUnsupportedVersion => (h1, HCqlError)
  | _ => (h1, HUnexpected)
  end.

(** the loop of [handshake]; [events]: the connection registers for events after a successful handshake (control
    connection); [auth]: the configured credentials, if any *)
Fixpoint handshake (fuel : nat) (be : backend) (hist : list hframe) (v : N) (auth : option creds) (events : bool) : hstate :=
  match fuel with
  | O => {| sent := hist; h_version := v; h_out := HOutOfFuel |}
  | S f =>
      let '(h1, r) := send be hist (FStartup v) in
      match r with
      | RNone => {| sent := h1; h_version := v; h_out := HSendError |}
      | RReady =>
          if events then let '(h2, o) := register be h1 v in {| sent := h2; h_version := v; h_out := o |}
          else {| sent := h1; h_version := v; h_out := HOk |}
      | RAuthenticate name =>
          match auth with
          | None => {| sent := h1; h_version := v; h_out := HAuthExpected |}
          | Some c =>
              let '(h2, o) := authenticate be h1 v c name in
              match o with
              | HOk => if events then let '(h3, o3) := register be h2 v in {| sent := h3; h_version := v; h_out := o3 |}
                       else {| sent := h2; h_version := v; h_out := HOk |}
              | _ => {| sent := h2; h_version := v; h_out := o |}
              end
          end
      | RUnsupportedVersion =>
          match downgrade v with
          | Some v' => handshake f be h1 v' auth events
          | None => {| sent := h1; h_version := v; h_out := HCqlError |}
          end
      | RError => {| sent := h1; h_version := v; h_out := HCqlError |}
      | _ => {| sent := h1; h_version := v; h_out := HUnexpected |}
      end
  end.

Definition run_handshake (be : backend) (v : N) (auth : option creds) (events : bool) : hstate :=
  handshake 300 be [] v auth events.

(** the callers' version rules: a pooled connection (connpool.connect) and a control connection that is not the first
    one (cluster.connect, initial = false) must end on exactly the version they asked for *)
Definition connect_exact (be : backend) (v : N) (auth : option creds) (events : bool) : bool :=
  let s := run_handshake be v auth events in
  match h_out s with HOk => h_version s =? v | _ => false end.

(** the first control connection may negotiate down; the result is remembered as the cluster's version *)
Definition connect_initial (be : backend) (v : N) (auth : option creds) : option N :=
  let s := run_handshake be v auth true in
  match h_out s with HOk => Some (h_version s) | _ => None end.

(** the versions asked, in order *)
Definition startups (hist : list hframe) : list N :=
  flat_map (fun f => match f with FStartup v => [v] | _ => [] end) hist.
Definition tokens_sent (hist : list hframe) : list bytes :=
  flat_map (fun f => match f with FAuthResponse _ t => [t] | _ => [] end) hist.

(** a simple backend for examples and for the correspondence run: accepts STARTUP on versions in [accepts], asks for
    authentication with [authenticator] when [need_auth], checks the token, answers REGISTER with READY *)
Record simple_be := { accepts : list N; need_auth : option bytes; good_token : bytes; dse_flow : bool }.
Definition memv (x : N) (l : list N) : bool := existsb (N.eqb x) l.
Definition simple (b : simple_be) : backend := fun hist f =>
  match f with
  | FStartup v =>
      if memv v (accepts b) then match need_auth b with Some name => RAuthenticate name | None => RReady end
      else RUnsupportedVersion
  | FRegister _ => RReady
  | FAuthResponse _ tok =>
      if dse_flow b && bytes_eqb tok plain then RAuthChallenge plain_start
      else if bytes_eqb tok (good_token b) then RAuthSuccess else RError
  end.

(** ** correspondence interface.  input (kind requested (accepted versions) auth-mode user pass events)
    auth-mode: 0 none required, 1 password authenticator, 2 DSE authenticator (PLAIN / PLAIN-START), 3 unknown
    authenticator name; the proxy is configured with (user, pass) when user is non-empty; the backend expects the
    pair (bu, bp).  output (outcome negotiated-version (versions of the STARTUPs seen by the backend) (tokens seen)) *)
Definition outcome_code (o : houtcome) : Z :=
  match o with HOk => 0 | HAuthExpected => 1 | HCqlError => 2 | HUnexpected => 3 | HSendError => 4 | HBadChallenge => 5 | HOutOfFuel => 9 end.

Definition run_hs (input : val) : val :=
  let v := vN (nthv 1 input) in
  let acc := map vN (vL (nthv 2 input)) in
  let mode := vZ (nthv 3 input) in
  let user := vB (nthv 4 input) in let pass := vB (nthv 5 input) in
  let events := vbool (nthv 6 input) in
  let bu := vB (nthv 7 input) in let bp := vB (nthv 8 input) in
  let name := match mode with
              | 1%Z => Some (str "org.apache.cassandra.auth.PasswordAuthenticator")
              | 2%Z => Some dse_authenticator
              | 3%Z => Some (str "com.example.SomeAuthenticator")
              | _ => None end in
  let be := simple {| accepts := acc; need_auth := name; good_token := [0] ++ bu ++ [0] ++ bp; dse_flow := (mode =? 2)%Z |} in
  let auth := match user with [] => None | _ => Some {| c_authid := []; c_user := user; c_pass := pass |} end in
  let s := run_handshake be v auth events in
  L [I (outcome_code (h_out s)); IN (h_version s); L (map IN (startups (sent s))); L (map B (tokens_sent (sent s)))].

(** the versions a handshake that starts at [v] may ever ask for, in order *)
Fixpoint chain (fuel : nat) (v : N) : list N :=
  match fuel with
  | O => [v]
  | S f => v :: match downgrade v with Some v' => chain f v' | None => [] end
  end.
Fixpoint is_prefix_N (a b : list N) : bool :=
  match a, b with
  | [], _ => true
  | x :: r, y :: r' => (x =? y) && is_prefix_N r r'
  | _ :: _, [] => false
  end.

Definition holds_hs (input output : val) : val :=
  let v := vN (nthv 1 input) in
  let acc := map vN (vL (nthv 2 input)) in
  let code := vZ (nthv 0 output) in
  let got := vN (nthv 1 output) in
  let asked := map vN (vL (nthv 2 output)) in
  let toks := map vB (vL (nthv 3 output)) in
  let mode := vZ (nthv 3 input) in
  if (code =? 0)%Z && negb (memv got acc) then B (str "handshake-succeeded-on-a-version-the-backend-does-not-accept")
  else if negb (is_prefix_N asked (chain 300 v)) then B (str "versions-tried-are-not-the-downgrade-chain-from-the-requested-version")
  else if (code =? 0)%Z && existsb (fun a => memv a acc) (removelast asked) then B (str "an-accepted-version-was-skipped")
  else if (mode =? 0)%Z && negb (match toks with [] => true | _ => false end) then B (str "credentials-sent-to-a-backend-that-did-not-ask-for-them")
  else if (3 <=? length toks)%nat then B (str "more-than-two-auth-responses")
  else B [].
