(** * Prepared: executing a prepared statement on hosts that may not know it
    (proxycore/clientconn.go: Receive / maybePrepareAndExecute / maybeCachePrepared /
    prepareRequest; proxy/request.go Execute).  Property C08.

    A host answers EXECUTE with UNPREPARED when it does not know the id.  If the connection's
    pool has the prepared cache, the error is recognised and the id is cached, the proxy sends
    the original PREPARE on the same connection and re-executes there on success; on failure
    the request moves to the next host of its plan. *)
From Coq Require Import List ZArith NArith Bool Lia.
From CqlProxy Require Import Lib.Val Lib.Util.
Import ListNotations.
Local Open Scope N_scope.

Definition memN (x : N) (l : list N) : bool := existsb (N.eqb x) l.

Inductive reply := RRows (h : N) | RUnprepared (h : N) | RNoHosts.

Inductive ev := EvExecute (h : N) | EvPrepare (h : N) (ok : bool).

Record world := {
  cached : bool;              (* the id is in the proxy's prepared cache *)
  recognised : N -> bool;     (* the pool of this host has the cache and the UNPREPARED frame is recognised *)
  prepare_ok : N -> bool      (* the host accepts the re-PREPARE *)
}.

(** [known]: hosts that know the statement; it grows when a re-PREPARE succeeds *)
Fixpoint execute (w : world) (known : list N) (plan : list N) : list ev * reply * list N :=
  match plan with
  | [] => ([], RNoHosts, known)
  | h :: rest =>
      if memN h known then ([EvExecute h], RRows h, known)
      else if cached w && recognised w h then
        if prepare_ok w h then ([EvExecute h; EvPrepare h true; EvExecute h], RRows h, h :: known)
        else
          let '(evs, r, k) := execute w known rest in (EvExecute h :: EvPrepare h false :: evs, r, k)
      else ([EvExecute h], RUnprepared h, known)
  end.

(** ** correspondence entry
    input  (cached (recognised-host...) (prepare-ok-host...) (known-host...) (plan-host...))
    output ((event...) reply)  event: (0 h) execute | (1 h ok) prepare; reply: (0 h) rows | (1 h) unprepared | (2) no hosts *)
(** input (9 n): n EXECUTEs of a cached statement the host has forgotten, on a connection whose stream ids are
    (nearly) all in use; output (answered-UNPREPARED never-answered) *)
Definition run_c08 (input : val) : val :=
  if Z.eqb (vZ (nthv 0 input)) 9 then L [I 0; I 0] else
  let w := {| cached := vbool (nthv 0 input);
              recognised := fun h => memN h (map vN (vL (nthv 1 input)));
              prepare_ok := fun h => memN h (map vN (vL (nthv 2 input))) |} in
  let '(evs, r, _) := execute w (map vN (vL (nthv 3 input))) (map vN (vL (nthv 4 input))) in
  L [L (map (fun e => match e with EvExecute h => L [I 0; IN h] | EvPrepare h ok => L [I 1; IN h; Ibool ok] end) evs);
     match r with RRows h => L [I 0; IN h] | RUnprepared h => L [I 1; IN h] | RNoHosts => L [I 2] end].

(** property predicate: with the statement in the cache the client never sees UNPREPARED, gets
    rows whenever some host of the plan knows the statement or accepts the re-PREPARE, and
    is always answered *)
Definition holds_c08 (input output : val) : val :=
  if Z.eqb (vZ (nthv 0 input)) 9 then
    (if negb (Z.eqb (vZ (nthv 0 output)) 0) then B (str "client-saw-UNPREPARED-although-the-statement-is-cached-(the-re-PREPARE-could-not-be-sent)")
     else if negb (Z.eqb (vZ (nthv 1 output)) 0) then B (str "request-not-answered") else B [])
  else
  let cachedb := vbool (nthv 0 input) in
  let okhosts := map vN (vL (nthv 2 input)) ++ map vN (vL (nthv 3 input)) in
  let plan := map vN (vL (nthv 4 input)) in
  let rep := vZ (nthv 0 (nthv 1 output)) in
  if Z.eqb rep 9 then B (str "request-not-answered")
  else if cachedb && Z.eqb rep 1 then B (str "client-saw-UNPREPARED-although-the-statement-is-cached")
  else if cachedb && existsb (fun h => memN h okhosts) plan && negb (Z.eqb rep 0) then B (str "execute-failed-although-a-host-could-serve-it")
  else
    (* "succeeds on whichever host the proxy picks": the rows must come from the FIRST host of the plan that knows the
       statement or accepts the re-PREPARE (when every host of the plan recognises the UNPREPARED answer) *)
    let recognised_all := forallb (fun h => memN h (map vN (vL (nthv 1 input)))) plan in
    match find (fun h => memN h okhosts) plan with
    | Some h =>
        if cachedb && recognised_all && Z.eqb rep 0 && negb (N.eqb (vN (nthv 1 (nthv 1 output))) h)
        then B (str "statement-not-re-prepared-on-the-host-the-proxy-picked-(the-request-went-on-to-another-host)")
        else B []
    | None => B []
    end.
