(** * CoreDrive: the scripted single-request histories of the C04/C05 correspondence run, replayed
    through the integrated model Model/Core.v.

    The harness sends one request through the real proxy; each attempt that reaches a backend
    is answered by the next scripted outcome (result, an error frame, or the loss of that backend
    connection), hosts in [down] refuse connections.  [Model/Retry.v] predicts the observation
    from the per-request loop; here the same history is turned into Core events -- one connection
    per reachable host, the frames and connection losses in the order the script produces them --
    and the observation is read off Core's output list.  [run_c05_both] returns the common
    prediction, or a marker carrying both when the two models disagree (which the comparison with
    the implementation's output then reports): every scripted case of every run therefore ties
    Core.v to the code and to Retry.v at once. *)
From Coq Require Import List ZArith NArith Bool Lia.
From CqlProxy Require Import Lib.Val Lib.Util Gen.Tables Model.Retry Model.Core.
Import ListNotations.
Local Open Scope N_scope.

Definition the_req : rid := 1.

(** the environment's answer to Session.Send for host [h]: its one connection (id = host id) *)
Definition choice_for (down : list N) (h : N) : choice := if memN h down then None else Some (h, true).

(** where the request is waiting for a backend answer, if anywhere *)
Definition in_flight (w : world) : option (cid * N) :=
  match rev (backend_writes w the_req) with
  | (k, s) :: _ => if existsb (fun e => (fst e =? s) && (snd e =? the_req)) (live w k) then Some (k, s) else None
  | [] => None
  end.

Definition is_done (w : world) : bool :=
  match lookupN the_req (w_reqs w) with Some q => q_done q | None => false end.

(** oracle for the Sends an event may perform: the current host first when the policy will retry on
    it, then the rest of the plan in order *)
Definition oracle_for (w : world) (down : list N) (same : bool) : list choice :=
  match lookupN the_req (w_reqs w) with
  | Some q =>
      (if same then match q_host q with Some h => [choice_for down h] | None => [None] end else [])
      ++ map (choice_for down) (q_plan q)
  | None => []
  end.

(** feed scripted outcomes until the request is answered; [hist] = (host, outcome) per attempt answered *)
Fixpoint drive (fuel : nat) (w : world) (down : list N) (script : list outcome) (j : nat) : world * option nat :=
  match fuel with
  | O => (w, None)
  | S f =>
      if is_done w then (w, None)
      else
        match in_flight w with
        | None => (w, None)
        | Some (k, s) =>
            match nth j script OResult with
            | OResult => (step w (EFrame k s FResult []), Some j)
            | OError m =>
                let idem := match lookupN the_req (w_reqs w) with Some q => q_idem q | None => false end in
                let retry := match lookupN the_req (w_reqs w) with Some q => q_retry q | None => 0%Z end in
                let d := handle_error idem m retry in
                let w1 := step w (EFrame k s (FError m) (oracle_for w down (d =? dec_RetrySame))) in
                if (d =? dec_RetryNext) || (d =? dec_RetrySame) then drive f w1 down script (S j) else (w1, Some j)
            | OLost =>
                let w1 := step w (ECloseBegin k) in
                let w2 := step w1 (ENotify k the_req (oracle_for w1 down false)) in
                drive f w2 down script (S j)
            | OUnprepared _ => (w, None)
            end
        end
  end.

Definition has_unprepared (script : list outcome) : bool :=
  existsb (fun o => match o with OUnprepared _ => true | _ => false end) script.

(** the observation in the format of [run_c05] kind 1: ((host...) reply) *)
Definition core_c05 (idem : bool) (p down : list N) (script : list outcome) : val :=
  let conns := fold_left (fun w h => step w (EConnect h h 4)) (filter (fun h => negb (memN h down)) (nodup N.eq_dec p)) init_world in
  let w0 := step conns (EStart the_req 0 0%Z idem p (map (choice_for down) p)) in
  let '(w, last) := drive (2 * length p + length script + 4) w0 down script 0 in
  let hosts := map (fun ks => IN (fst ks)) (backend_writes w the_req) in
  let reply :=
    match client_replies w the_req with
    | [ToClient _ _ _ (CFrame k _)] =>
        match last with
        | Some j => match nth j script OResult with
                    | OResult => L [I 0; IN k]
                    | o => L [I 1; IN k; I (err_code_of o)]
                    end
        | None => L [I 9]
        end
    | [ToClient _ _ _ CNoHosts] => L [I 2]
    | [ToClient _ _ _ CConnLost] => L [I 3]
    | [] => L [I 9]
    | _ => L [I 8]
    end in
  L [L hosts; reply].

Definition run_c05_both (input : val) : val :=
  let kind := vZ (nthv 0 input) in
  let r := run_c05 input in
  if Z.eqb kind 1 then
    let idem := vbool (nthv 1 input) in
    let p := map vN (vL (nthv 2 input)) in
    let down := map vN (vL (nthv 3 input)) in
    let script := map outcome_of_val (vL (nthv 4 input)) in
    if has_unprepared script || negb (Nat.eqb (length (nodup N.eq_dec p)) (length p)) then r
    else
      let c := core_c05 idem p down script in
      if val_eqb c r then r else L [B (str "the-integrated-model-Core-and-the-request-model-Retry-disagree"); r; c]
  else r.
