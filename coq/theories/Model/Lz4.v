(** * Lz4: the proxy's own LZ4 block decoder (codecs/lz4.go uncompressLz4Block, added by the repair a76e125) against the
    block format.

    A block is a series of sequences: a token (high nibble: literal length, low nibble: match length - 4), optional
    length-extension bytes (each adds its value, 255 means "one more"), the literals, a two-byte little-endian offset,
    optional extension bytes of the match length.  The last sequence ends after its literals.  A match copies
    [match length] bytes starting [offset] bytes back in the output and may overlap what it produces.

    [spec_decode] is the format, written for reading.  [impl_decode] follows the Go code: the destination has a fixed
    capacity (the stated decompressed length), every slice expression that would panic in Go when out of range is an
    explicit partial operation here, and a match is copied in pieces of at most [offset] bytes.  [weak = true] is the
    seeded change C17-m13 (the room for a match is checked before the minimum match length of four is added).

    Properties C03 (every valid block that fits the stated length is decoded to what the format says) and C17 (no body
    makes the decoder panic or run forever). *)
From Coq Require Import List ZArith NArith Bool Lia.
From CqlProxy Require Import Lib.Val Lib.Util.
Import ListNotations.

(** ** lengths: a nibble, extended while it is 15 / the last extension byte was 255 *)
Fixpoint read_ext (fuel : nat) (n : nat) (src : bytes) : option (nat * bytes) :=
  match fuel with
  | O => None
  | S f =>
      match src with
      | [] => None
      | b :: r => if N.eqb b 255 then read_ext f (n + 255) r else Some (n + N.to_nat b, r)
      end
  end.
Definition read_len (nib : nat) (src : bytes) : option (nat * bytes) :=
  if Nat.eqb nib 15 then read_ext (S (length src)) 15 src else Some (nib, src).

Definition hi (tok : N) : nat := N.to_nat (tok / 16).
Definition lo (tok : N) : nat := N.to_nat (tok mod 16).

(** ** the format *)
Fixpoint copy_bytes (n : nat) (out : bytes) (offset : nat) : bytes :=
  match n with
  | O => out
  | S k => copy_bytes k (out ++ [nth (length out - offset) out 0%N]) offset
  end.

Fixpoint spec_decode (fuel : nat) (src out : bytes) : option bytes :=
  match fuel with
  | O => None
  | S f =>
      match src with
      | [] => Some out
      | tok :: r =>
          match read_len (hi tok) r with
          | None => None
          | Some (lit, r1) =>
              if Nat.ltb (length r1) lit then None
              else
                let out1 := out ++ firstn lit r1 in
                let r2 := skipn lit r1 in
                match r2 with
                | [] => Some out1
                | [_] => None
                | o1 :: o2 :: r3 =>
                    let offset := N.to_nat o1 + 256 * N.to_nat o2 in
                    if Nat.eqb offset 0 || Nat.ltb (length out1) offset then None
                    else
                      match read_len (lo tok) r3 with
                      | None => None
                      | Some (ml, r4) => spec_decode f r4 (copy_bytes (ml + 4) out1 offset)
                      end
                end
          end
      end
  end.
Definition spec (src : bytes) : option bytes := spec_decode (S (length src)) src [].

(** ** the Go code.  [out] is dst[:di]; [cap] is len(dst). *)
Inductive dres := DOk (out : bytes) | DErr | DPanic.

(** for n > 0 { c := copy(dst[di:di+n], dst[di-offset:di]); di += c; n -= c } -- dst[di:di+n] panics beyond the capacity *)
Fixpoint copy_chunks (fuel : nat) (n : nat) (out : bytes) (offset cap : nat) : option bytes :=
  match fuel with
  | O => Some out
  | S f =>
      if Nat.eqb n 0 then Some out
      else if Nat.ltb cap (length out + n) then None            (* slice bounds out of range: panic *)
      else
        let c := Nat.min n offset in
        copy_chunks f (n - c) (out ++ firstn c (skipn (length out - offset) out)) offset cap
  end.

Fixpoint impl_decode (weak : bool) (fuel : nat) (src out : bytes) (cap : nat) : dres :=
  match fuel with
  | O => DErr
  | S f =>
      match src with
      | [] => DOk out
      | tok :: r =>
          match read_len (hi tok) r with
          | None => DErr
          | Some (lit, r1) =>
              if Nat.ltb (length r1) lit || Nat.ltb (cap - length out) lit then DErr
              else
                let out1 := out ++ firstn lit r1 in
                let r2 := skipn lit r1 in
                match r2 with
                | [] => DOk out1
                | [_] => DErr
                | o1 :: o2 :: r3 =>
                    let offset := N.to_nat o1 + 256 * N.to_nat o2 in
                    if Nat.eqb offset 0 || Nat.ltb (length out1) offset then DErr
                    else
                      match read_len (lo tok) r3 with
                      | None => DErr
                      | Some (ml, r4) =>
                          if Nat.ltb (cap - length out1) (if weak then ml else ml + 4) then DErr
                          else
                            match copy_chunks (ml + 5) (ml + 4) out1 offset cap with
                            | None => DPanic
                            | Some out2 => impl_decode weak f r4 out2 cap
                            end
                      end
                end
          end
      end
  end.
Definition impl (weak : bool) (src : bytes) (cap : nat) : dres := impl_decode weak (S (length src)) src [] cap.

(** a block of literals only, for examples and the round trip of the length encoding *)
Fixpoint ext_bytes (fuel n : nat) : bytes :=
  match fuel with
  | O => []
  | S f => if Nat.ltb n 255 then [N.of_nat n] else 255%N :: ext_bytes f (n - 255)
  end.
Definition lit_block (l : bytes) : bytes :=
  if Nat.ltb (length l) 15 then N.of_nat (16 * length l) :: l
  else 240%N :: ext_bytes (S (length l)) (length l - 15) ++ l.

(** ** correspondence interface: input (10 cap src) -> (0 out) | (1) rejected | (2) panicked *)
Definition run_lz4 (input : val) : val :=
  match impl false (vB (nthv 2 input)) (N.to_nat (vN (nthv 1 input))) with
  | DOk out => L [I 0; B out]
  | DErr => L [I 1]
  | DPanic => L [I 2]
  end.

Definition holds_lz4 (input output : val) : val :=
  let cap := N.to_nat (vN (nthv 1 input)) in
  if Z.eqb (vZ (nthv 0 output)) 2 then B (str "the-lz4-decoder-panicked")
  else
    match spec (vB (nthv 2 input)) with
    | Some out =>
        if Nat.leb (length out) cap then
          (if Z.eqb (vZ (nthv 0 output)) 0 && bytes_eqb (vB (nthv 1 output)) out then B []
           else B (str "a-valid-lz4-block-that-fits-the-stated-length-was-not-decoded-to-what-the-format-says"))
        else (if Z.eqb (vZ (nthv 0 output)) 1 then B [] else B (str "an-lz4-block-longer-than-the-stated-length-was-accepted"))
    | None => if Z.eqb (vZ (nthv 0 output)) 1 then B [] else B (str "an-invalid-lz4-block-was-accepted")
    end.
