(** * Events: delivery of backend events to clients (proxy.go: Proxy.OnEvent, eventClients,
    registerForEvents, removeClient, the REGISTER case of client.Receive; proxycore/cluster.go:
    the event branch of stayConnected).  Property C14.

    The backend emits events on the control connection.  The cluster's loop hands schema
    changes to its listeners; the proxy writes one EVENT frame to every client in
    [eventClients].  REGISTER adds the client when its type list contains SCHEMA_CHANGE;
    closing the client removes it.  Topology and status events only schedule a refresh. *)
From Coq Require Import List ZArith NArith Bool Lia.
From CqlProxy Require Import Lib.Val Lib.Util.
Import ListNotations.
Local Open Scope N_scope.

Inductive bkind := KSchema | KTopology | KStatus.

Inductive op :=
| OConnect (c : N)
| ORegister (c : N) (schema : bool)   (* REGISTER whose type list does / does not contain SCHEMA_CHANGE *)
| ODisconnect (c : N)
| OBackend (k : bkind) (id : N)       (* the backend emits event [id] on the control connection *)
| OFailover.                          (* the control connection is lost and replaced; nothing is emitted meanwhile *)

Definition inN (x : N) (l : list N) : bool := existsb (N.eqb x) l.
Definition addN (x : N) (l : list N) : list N := if inN x l then l else l ++ [x].
Definition removeN (x : N) (l : list N) : list N := filter (fun y => negb (N.eqb x y)) l.

Record state := { connected : list N; registered : list N }.
Definition init : state := {| connected := []; registered := [] |}.

(** one step: the new state and the frames written, as (client, event id) *)
Definition step (s : state) (o : op) : state * list (N * N) :=
  match o with
  | OConnect c => ({| connected := addN c (connected s); registered := registered s |}, [])
  | ORegister c schema =>
      if inN c (connected s) && schema
      then ({| connected := connected s; registered := addN c (registered s) |}, [])
      else (s, [])
  | ODisconnect c => ({| connected := removeN c (connected s); registered := removeN c (registered s) |}, [])
  | OBackend KSchema id => (s, map (fun c => (c, id)) (registered s))
  | OBackend _ _ => (s, [])
  | OFailover => (s, [])
  end.

Fixpoint run (s : state) (h : list op) : list (N * N) :=
  match h with
  | [] => []
  | o :: r => let '(s', out) := step s o in out ++ run s' r
  end.

(** the frames one client receives, in order *)
Definition delivered (c : N) (out : list (N * N)) : list N :=
  map snd (filter (fun d => N.eqb (fst d) c) out).

(** ** the specification, client by client: it looks at nothing but the client's own
    operations and the backend's events *)
Fixpoint expected (c : N) (conn reg : bool) (h : list op) : list N :=
  match h with
  | [] => []
  | OConnect d :: r => if N.eqb d c then expected c true reg r else expected c conn reg r
  | ORegister d schema :: r => if N.eqb d c && conn && schema then expected c conn true r else expected c conn reg r
  | ODisconnect d :: r => if N.eqb d c then expected c false false r else expected c conn reg r
  | OBackend KSchema id :: r => if reg then id :: expected c conn reg r else expected c conn reg r
  | OBackend _ _ :: r => expected c conn reg r
  | OFailover :: r => expected c conn reg r
  end.

(** the operations that concern client [c]: its own and the backend's *)
Definition concerns (c : N) (o : op) : bool :=
  match o with
  | OConnect d | ORegister d _ | ODisconnect d => N.eqb d c
  | OBackend _ _ | OFailover => true
  end.

(** ** correspondence entry
    input  (nclients (op...)); op: (0 c) | (1 c schema) | (2 c) | (3 kind id) | (4)   kind: 0 schema 1 topology 2 status
    output ((id...) per client) *)
Definition op_of_val (v : val) : op :=
  match vZ (nthv 0 v) with
  | 0%Z => OConnect (vN (nthv 1 v))
  | 1%Z => ORegister (vN (nthv 1 v)) (vbool (nthv 2 v))
  | 2%Z => ODisconnect (vN (nthv 1 v))
  | 3%Z => OBackend (match vZ (nthv 1 v) with 0%Z => KSchema | 1%Z => KTopology | _ => KStatus end) (vN (nthv 2 v))
  | _ => OFailover
  end.

Definition clients_upto (n : N) : list N := map N.of_nat (seq 0 (N.to_nat n)).

Definition run_c14 (input : val) : val :=
  let h := map op_of_val (vL (nthv 1 input)) in
  let out := run init h in
  L (map (fun c => L (map IN (delivered c out))) (clients_upto (vN (nthv 0 input)))).

Fixpoint eq_listN (a b : list N) : bool :=
  match a, b with
  | [], [] => true
  | x :: a', y :: b' => N.eqb x y && eq_listN a' b'
  | _, _ => false
  end.

Definition holds_c14 (input output : val) : val :=
  let h := map op_of_val (vL (nthv 1 input)) in
  let cs := clients_upto (vN (nthv 0 input)) in
  let got := map (fun v => map vN (vL v)) (vL output) in
  let bad := filter (fun c => negb (eq_listN (nth (N.to_nat c) got [9999]) (expected c false false h))) cs in
  match bad with
  | [] => B []
  | c :: _ =>
      let g := nth (N.to_nat c) got [9999] in
      let e := expected c false false h in
      if Nat.ltb (length e) (length g) then B (str "a-client-received-an-event-frame-it-must-not-get-or-twice")
      else if Nat.ltb (length g) (length e) then B (str "a-registered-client-missed-a-schema-change-event")
      else B (str "a-client-received-different-events")
  end.
