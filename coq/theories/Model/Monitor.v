(** * Monitor: trace validation for the request path.

    Built with the tag [verif] the proxy records one line per atomic step of the request path
    (proxycore/requests.go store / loadAndDelete / closing, clientconn.go Closing and ConnectClient,
    proxy/request.go executeInternal / send / sendRaw / handleErrorResult / OnClose, proxy.go
    execute) in the order the steps happen (one global lock orders the records; a push is
    recorded before the frame can be on the wire, a pop before the stream id goes back to the
    channel).  This monitor is the acceptor of Model/Core.v / CorePrep.v at that granularity: it
    keeps the shadow state the models keep -- which (connection, stream) carries which request,
    which connections are closing and which entries they still have to notify, each request's
    plan, current host, registration count and done flag -- and rejects the first record that is
    not a step the models can take.  What it enforces is what the models' theorems state:
      C02  a stream id is handed out only while free; an answer pops the entry that was pushed;
      C01  a request is registered in at most one place, replied to at most once, and only when
           it is registered nowhere; nothing is registered on a closing connection; every entry
           pending at a close is notified exactly once; at quiescence everything is answered;
      C05  hosts are taken in plan order, each push goes to the request's current host, every
           retry decision is the policy's ([handle_error], generated from the source);
      C04  a request not known to be idempotent is re-sent only after a safe error.
    A record sequence taken from a real concurrent run that passes is an execution the models
    allow; one that fails is reported with the index of the offending record. *)
From Coq Require Import List ZArith NArith Bool Lia.
From CqlProxy Require Import Lib.Val Lib.Util Gen.Tables Model.Retry.
Import ListNotations.
Local Open Scope Z_scope.

Record mreq := {
  m_client : Z; m_cstream : Z;
  m_plan : list bytes;      (* host keys the plan has not yielded yet *)
  m_host : bytes;           (* current host key ([] = none) *)
  m_done : bool;
  m_regs : nat;             (* entries standing for this request (its own or its re-PREPARE's), pending or awaiting notification *)
  m_resend_ok : bool        (* the last outcome allows a non-idempotent request to be sent again *)
}.

Record mstate := {
  ms_tables : list (Z * (bytes * bool));            (* table -> (host key, closing) *)
  ms_regs : list ((Z * Z) * (Z * Z));               (* (table, stream) -> (request, request kind) *)
  ms_tonotify : list ((Z * Z) * (Z * Z));
  ms_reqs : list (Z * mreq)
}.

Definition init_mstate : mstate := {| ms_tables := []; ms_regs := []; ms_tonotify := []; ms_reqs := [] |}.

Fixpoint zlookup {A} (k : Z) (l : list (Z * A)) : option A :=
  match l with [] => None | (k', v) :: r => if k =? k' then Some v else zlookup k r end.
Fixpoint zupdate {A} (k : Z) (v : A) (l : list (Z * A)) : list (Z * A) :=
  match l with [] => [(k, v)] | (k', v') :: r => if k =? k' then (k, v) :: r else (k', v') :: zupdate k v r end.
Definition pair_eqb (a b : Z * Z) : bool := (fst a =? fst b) && (snd a =? snd b).
Fixpoint plookup {A} (k : Z * Z) (l : list ((Z * Z) * A)) : option A :=
  match l with [] => None | (k', v) :: r => if pair_eqb k k' then Some v else plookup k r end.
Fixpoint premove {A} (k : Z * Z) (l : list ((Z * Z) * A)) : list ((Z * Z) * A) :=
  match l with [] => [] | (k', v) :: r => if pair_eqb k k' then r else (k', v) :: premove k r end.

Definition with_regs (q : mreq) (n : nat) : mreq :=
  {| m_client := m_client q; m_cstream := m_cstream q; m_plan := m_plan q; m_host := m_host q; m_done := m_done q;
     m_regs := n; m_resend_ok := m_resend_ok q |}.

Definition dec_regs (s : mstate) (req : Z) : mstate :=
  match zlookup req (ms_reqs s) with
  | Some q => {| ms_tables := ms_tables s; ms_regs := ms_regs s; ms_tonotify := ms_tonotify s;
                 ms_reqs := zupdate req (with_regs q (pred (m_regs q))) (ms_reqs s) |}
  | None => s
  end.

(** split "a,b,c" *)
Fixpoint split_commas (s acc : bytes) : list bytes :=
  match s with
  | [] => [rev acc]
  | c :: r => if (c =? 44)%N then rev acc :: split_commas r [] else split_commas r (c :: acc)
  end.
Definition fields (s : bytes) : list bytes := match s with [] => [] | _ => split_commas s [] end.

Fixpoint parse_dec (s : bytes) (acc : Z) : Z :=
  match s with [] => acc | c :: r => parse_dec r (acc * 10 + Z.of_N (c - 48)) end.
Definition parse_int (s : bytes) : Z := match s with 45%N :: r => - parse_dec r 0 | _ => parse_dec s 0 end.

Fixpoint join_commas (l : list bytes) : bytes :=
  match l with [] => [] | [x] => x | x :: r => x ++ 44%N :: join_commas r end.
(** "code,received,blockFor,dataPresent,writeType" -- the write type is everything after the fourth comma (a hostile backend can put a comma into it) *)
Definition err_of_fields (s : bytes) : err_info :=
  let f := fields s in
  mk_err (parse_int (nth 0 f [])) (parse_int (nth 1 f [])) (parse_int (nth 2 f [])) (bytes_eqb (nth 3 f []) (str "true")) (join_commas (skipn 4 f)).

Inductive verdict := Accept (s : mstate) | Reject (why : bytes).

(** record: (kind table stream req reqkind obj a b c s)
    kind: 0 table, 1 push, 2 pop, 3 notify, 4 closing, 5 start, 6 host, 7 decision, 8 reply, 9 onclose *)
Definition mstep (s : mstate) (rec : val) : verdict :=
  let kind := vZ (nthv 0 rec) in
  let t := vZ (nthv 1 rec) in
  let st := vZ (nthv 2 rec) in
  let req := vZ (nthv 3 rec) in
  let rk := vZ (nthv 4 rec) in
  let obj := vZ (nthv 5 rec) in
  let a := vZ (nthv 6 rec) in
  let b := vZ (nthv 7 rec) in
  let c := vZ (nthv 8 rec) in
  let txt := vB (nthv 9 rec) in
  if kind =? 0 then
    Accept {| ms_tables := zupdate t (txt, false) (ms_tables s); ms_regs := ms_regs s; ms_tonotify := ms_tonotify s; ms_reqs := ms_reqs s |}
  else if kind =? 1 then
    match zlookup t (ms_tables s) with
    | None => Accept s   (* a connection made before the recording started (another proxy of the same process): not ours to judge *)
    | Some (hostkey, closing) =>
        if closing then Reject (str "request-registered-on-a-closing-connection")
        else match plookup (t, st) (ms_regs s) with
             | Some _ => Reject (str "stream-id-handed-out-while-still-in-use")
             | None =>
                 let s1 := {| ms_tables := ms_tables s; ms_regs := ((t, st), (req, rk)) :: ms_regs s; ms_tonotify := ms_tonotify s; ms_reqs := ms_reqs s |} in
                 if req =? 0 then Accept s1
                 else match zlookup req (ms_reqs s) with
                      | None => Accept s1   (* a request that started before the recording did *)
                      | Some q =>
                          if m_done q then Reject (str "request-written-again-after-it-was-answered")
                          else if negb (Nat.eqb (m_regs q) 0) then Reject (str "request-registered-in-two-places-at-once")
                          else if negb (bytes_eqb hostkey (m_host q)) then Reject (str "request-written-to-a-host-that-is-not-its-current-host")
                          else Accept {| ms_tables := ms_tables s1; ms_regs := ms_regs s1; ms_tonotify := ms_tonotify s1;
                                         ms_reqs := zupdate req (with_regs q 1) (ms_reqs s1) |}
                      end
             end
    end
  else if kind =? 2 then
    match plookup (t, st) (ms_regs s) with
    | None => if match zlookup t (ms_tables s) with Some _ => true | None => false end
              then Reject (str "answer-delivered-for-a-stream-nothing-is-registered-on") else Accept s
    | Some (r0, _) =>
        let s1 := {| ms_tables := ms_tables s; ms_regs := premove (t, st) (ms_regs s); ms_tonotify := ms_tonotify s; ms_reqs := ms_reqs s |} in
        if negb (r0 =? req) then Reject (str "answer-delivered-to-another-request-than-the-one-registered-on-its-stream")
        else Accept (if req =? 0 then s1 else dec_regs s1 req)
    end
  else if kind =? 4 then
    match zlookup t (ms_tables s) with
    | None => Accept s
    | Some (hostkey, _) =>
        let mine := filter (fun e => fst (fst e) =? t) (ms_regs s) in
        let rest := filter (fun e => negb (fst (fst e) =? t)) (ms_regs s) in
        Accept {| ms_tables := zupdate t (hostkey, true) (ms_tables s); ms_regs := rest; ms_tonotify := mine ++ ms_tonotify s; ms_reqs := ms_reqs s |}
    end
  else if kind =? 3 then
    match plookup (t, st) (ms_tonotify s) with
    | None => if match zlookup t (ms_tables s) with Some _ => true | None => false end
              then Reject (str "close-notification-for-an-entry-that-was-not-pending-when-the-connection-closed") else Accept s
    | Some (r0, _) =>
        let s1 := {| ms_tables := ms_tables s; ms_regs := ms_regs s; ms_tonotify := premove (t, st) (ms_tonotify s); ms_reqs := ms_reqs s |} in
        if negb (r0 =? req) then Reject (str "close-notification-delivered-to-another-request")
        else Accept (if req =? 0 then s1 else dec_regs s1 req)
    end
  else if kind =? 5 then
    match zlookup req (ms_reqs s) with
    | Some _ => Reject (str "request-started-twice")
    | None =>
        Accept {| ms_tables := ms_tables s; ms_regs := ms_regs s; ms_tonotify := ms_tonotify s;
                  ms_reqs := zupdate req {| m_client := obj; m_cstream := a; m_plan := fields txt; m_host := []; m_done := false; m_regs := 0;
                                           m_resend_ok := true |} (ms_reqs s) |}
    end
  else
    match zlookup req (ms_reqs s) with
    | None => Accept s   (* an internal request, or one that started before the recording did *)
    | Some q =>
        let setq (q' : mreq) := Accept {| ms_tables := ms_tables s; ms_regs := ms_regs s; ms_tonotify := ms_tonotify s; ms_reqs := zupdate req q' (ms_reqs s) |} in
        if kind =? 6 then
          (* executeInternal: r.host = r.qp.Next() *)
          match m_plan q with
          | [] => if bytes_eqb txt [] then setq {| m_client := m_client q; m_cstream := m_cstream q; m_plan := []; m_host := []; m_done := m_done q; m_regs := m_regs q; m_resend_ok := m_resend_ok q |}
                  else Reject (str "host-taken-although-the-plan-is-exhausted")
          | h :: rest =>
              if negb (bytes_eqb txt h) then Reject (str "hosts-not-taken-in-plan-order")
              else if negb (Nat.eqb (m_regs q) 0) then Reject (str "request-moved-on-while-an-attempt-is-still-registered")
              else setq {| m_client := m_client q; m_cstream := m_cstream q; m_plan := rest; m_host := h; m_done := m_done q; m_regs := m_regs q; m_resend_ok := m_resend_ok q |}
          end
        else if kind =? 7 then
          (* handleErrorResult: a = decision, b = retryCount before it, c = idempotency state (2 = idempotent), txt = error fields *)
          let m := err_of_fields txt in
          let idem := c =? 2 in
          let want := handle_error idem m b in
          if negb (Z.of_N want =? a) then Reject (str "retry-decision-differs-from-the-policy")
          else if negb idem && negb (a =? Z.of_N dec_ReturnError) && negb (safe_to_resend (OError m)) then
            Reject (str "request-not-known-to-be-idempotent-is-retried-after-an-unsafe-error")
          else setq {| m_client := m_client q; m_cstream := m_cstream q; m_plan := m_plan q; m_host := m_host q; m_done := m_done q; m_regs := m_regs q;
                       m_resend_ok := safe_to_resend (OError m) || idem |}
        else if kind =? 8 then
          if m_done q then Reject (str "request-answered-twice")
          else if negb (Nat.eqb (m_regs q) 0) then Reject (str "request-answered-while-an-attempt-is-still-registered")
          else setq {| m_client := m_client q; m_cstream := m_cstream q; m_plan := m_plan q; m_host := m_host q; m_done := true; m_regs := m_regs q; m_resend_ok := m_resend_ok q |}
        else Accept s
    end.

Fixpoint mrun (s : mstate) (recs : list val) (i : nat) : option (nat * bytes) * mstate :=
  match recs with
  | [] => (None, s)
  | r :: rest =>
      match mstep s r with
      | Accept s' => mrun s' rest (S i)
      | Reject why => (Some (i, why), s)
      end
  end.

(** at quiescence (the harness has read every reply and settled the backend): every started request is answered and
    stands registered nowhere; nothing awaits notification *)
Definition quiescent_ok (s : mstate) : bytes :=
  if existsb (fun e => negb (m_done (snd e))) (ms_reqs s) then str "request-never-answered"
  else if existsb (fun e => negb (Nat.eqb (m_regs (snd e)) 0)) (ms_reqs s) then str "answered-request-still-registered"
  else match ms_tonotify s with
       | [] => []
       | _ => if existsb (fun e => negb (fst (snd e) =? 0)) (ms_tonotify s) then str "entry-pending-at-a-close-never-notified" else []
       end.

(** correspondence entry: input (8 quiescent (record...)); the implementation's "output" is just (0): the verdict is the
    monitor's.  model output (0) when accepted, (1 index reason) otherwise *)
Definition run_monitor (input : val) : val :=
  match mrun init_mstate (vL (nthv 2 input)) 0 with
  | (Some (i, why), _) => L [I 1; Inat i; B why]
  | (None, s) =>
      if vbool (nthv 1 input) then
        match quiescent_ok s with
        | [] => L [I 0]
        | why => L [I 1; Inat (length (vL (nthv 2 input))); B why]
        end
      else L [I 0]
  end.

Definition holds_monitor (input output : val) : val :=
  match run_monitor input with
  | L [I 0%Z] => B []
  | L (_ :: _ :: B why :: _) => B why
  | _ => B (str "monitor-error")
  end.
