(** * HeadOfLine: one backend connection's reader handing answers to the write queues of several client connections
    (proxycore/clientconn.go Receive -> proxy/request.go OnResult / sendRaw -> proxycore/conn.go Write: a send on a channel of
    MaxMessages = 1024 senders, which BLOCKS when the queue is full).

    The reader takes the answers off the backend socket in order and hands each to the queue of the client it is for.  A
    client's writer goroutine takes senders off its queue only while its client keeps reading.  This is the formal record of
    the known finding of property C17 (KNOWN_FINDINGS.txt): a client that does not read stops the answers of every other
    client on that backend connection. *)
From Coq Require Import List NArith Bool Lia.
Import ListNotations.
Local Open Scope N_scope.

Record hstate := {
  backend : list N;            (* answers still on the backend socket: the client each is for, oldest first *)
  queues : list (N * nat);     (* client -> senders waiting in its write queue *)
  got : list N                 (* answers written to client sockets, in order (the client each went to) *)
}.

Definition qlen (c : N) (qs : list (N * nat)) : nat :=
  match find (fun kv => N.eqb (fst kv) c) qs with Some kv => snd kv | None => O end.
Definition qset (c : N) (n : nat) (qs : list (N * nat)) : list (N * nat) :=
  (c, n) :: filter (fun kv => negb (N.eqb (fst kv) c)) qs.

Inductive hstep :=
| HRead                        (* the backend reader: next answer -> its client's queue (blocks when that queue is full) *)
| HDrain (c : N).              (* client c reads: its writer takes one sender off the queue and writes it *)

Definition enabled (cap : nat) (s : hstate) (st : hstep) : bool :=
  match st with
  | HRead => match backend s with c :: _ => Nat.ltb (qlen c (queues s)) cap | [] => false end
  | HDrain c => Nat.ltb 0 (qlen c (queues s))
  end.

Definition step (cap : nat) (s : hstate) (st : hstep) : hstate :=
  if negb (enabled cap s st) then s else
  match st with
  | HRead =>
      match backend s with
      | c :: r => {| backend := r; queues := qset c (S (qlen c (queues s))) (queues s); got := got s |}
      | [] => s
      end
  | HDrain c => {| backend := backend s; queues := qset c (pred (qlen c (queues s))) (queues s); got := got s ++ [c] |}
  end.

Definition run (cap : nat) (s : hstate) (sts : list hstep) : hstate := fold_left (step cap) sts s.
Definition start (answers : list N) : hstate := {| backend := answers; queues := []; got := [] |}.

(** client [c] never reads in this schedule *)
Definition never_drains (c : N) (sts : list hstep) : bool :=
  forallb (fun st => match st with HDrain d => negb (N.eqb d c) | HRead => true end) sts.

Definition count (c : N) (l : list N) : nat := length (filter (N.eqb c) l).
