(** * Codec: the proxy's partial QUERY / EXECUTE / BATCH codecs (property C11).

    Mirrors codecs/partial_codecs.go: decode the leading fields, keep the remainder as
    opaque bytes; encode = leading fields followed by the opaque remainder.  The
    *reference layout* ([ref_query] ...) is the byte grammar of the reference codec
    (go-cassandra-native-protocol/message) with the whole option tail as one universally
    quantified byte list. *)
From Coq Require Import List ZArith NArith Bool Lia.
From CqlProxy Require Import Lib.Val Lib.Util Lib.Wire.
Import ListNotations.
Local Open Scope N_scope.

(** primitive.ProtocolVersion.SupportsResultMetadataId: v >= 5 and not DSE v1 *)
Definition supports_rmid (v : N) : bool := (5 <=? v) && negb (v =? 65).

Definition ebytes (s : String.string) : bytes := str s.

(** ** QUERY *)
Record pquery := { q_query : bytes; q_cl : N; q_params : bytes }.

Definition decode_query (b : bytes) : res pquery :=
  match read_long_string b with
  | None => Err (str "query")
  | Some (q, r) =>
      match read_short r with
      | None => Err (str "consistency")
      | Some (cl, r') => Ok {| q_query := q; q_cl := cl; q_params := r' |}
      end
  end.

Definition encode_query (m : pquery) : bytes :=
  enc_long_string (q_query m) ++ enc_short (q_cl m) ++ q_params m.

Definition ref_query (q : bytes) (cl : N) (tail : bytes) : bytes :=
  enc_long_string q ++ enc_short cl ++ tail.

(** ** EXECUTE *)
Record pexecute := { x_id : bytes; x_rmid : bytes; x_cl : N; x_params : bytes }.

Definition decode_execute (v : N) (b : bytes) : res pexecute :=
  match read_short_bytes b with
  | None => Err (str "query id")
  | Some ([], _) => Err (str "missing query id")
  | Some (id, r) =>
      let after_rmid (rmid r1 : bytes) :=
        match read_short r1 with
        | None => Err (str "consistency")
        | Some (cl, r2) => Ok {| x_id := id; x_rmid := rmid; x_cl := cl; x_params := r2 |}
        end in
      if supports_rmid v then
        match read_short_bytes r with
        | None => Err (str "result metadata id")
        | Some ([], _) => Err (str "missing result metadata id")
        | Some (rmid, r1) => after_rmid rmid r1
        end
      else after_rmid [] r
  end.

Definition encode_execute (v : N) (m : pexecute) : bytes :=
  enc_short_bytes (x_id m) ++
  (if supports_rmid v then enc_short_bytes (x_rmid m) else []) ++
  enc_short (x_cl m) ++ x_params m.

Definition ref_execute (v : N) (id rmid : bytes) (cl : N) (tail : bytes) : bytes :=
  enc_short_bytes id ++ (if supports_rmid v then enc_short_bytes rmid else []) ++ enc_short cl ++ tail.

(** ** BATCH *)
Inductive child_id := QStr (q : bytes) | QId (id : bytes).
Record pchild := { ch_id : child_id; ch_values : bytes }.
Record pbatch := { b_type : N; b_children : list pchild; b_cl : N; b_params : bytes }.

(** skip one [value]: int length, content only when the length is positive *)
Definition skip_value (b : bytes) : option (bytes * bytes) :=
  match read_int b with
  | None => None
  | Some (n, r) =>
      if (n <=? 0)%Z then Some (firstn 4 b, r)
      else match get_z n r with
           | Some (c, r') => Some (firstn 4 b ++ c, r')
           | None => None
           end
  end.

Fixpoint skip_n_values (n : nat) (b : bytes) : option (bytes * bytes) :=
  match n with
  | O => Some ([], b)
  | S n' =>
      match skip_value b with
      | None => None
      | Some (c, r) =>
          match skip_n_values n' r with
          | None => None
          | Some (c', r') => Some (c ++ c', r')
          end
      end
  end.

Definition skip_positional_values (b : bytes) : option (bytes * bytes) :=
  match read_short b with
  | None => None
  | Some (n, r) =>
      match skip_n_values (N.to_nat n) r with
      | None => None
      | Some (c, r') => Some (firstn 2 b ++ c, r')
      end
  end.

Definition decode_child (b : bytes) : res (pchild * bytes) :=
  match read_byte b with
  | None => Err (str "child type")
  | Some (k, r) =>
      let with_id (cid : child_id) (r1 : bytes) :=
        match skip_positional_values r1 with
        | None => Err (str "positional values")
        | Some (vals, r2) => Ok ({| ch_id := cid; ch_values := vals |}, r2)
        end in
      if k =? 0 then
        match read_long_string r with
        | None => Err (str "query string")
        | Some (q, r1) => with_id (QStr q) r1
        end
      else if k =? 1 then
        match read_short_bytes r with
        | None => Err (str "query id")
        | Some (id, r1) => with_id (QId id) r1
        end
      else Err (str "unsupported child type")
  end.

Fixpoint decode_children (n : nat) (b : bytes) : res (list pchild * bytes) :=
  match n with
  | O => Ok ([], b)
  | S n' =>
      match decode_child b with
      | Ok (c, r) =>
          match decode_children n' r with
          | Ok (cs, r') => Ok (c :: cs, r')
          | Err e => Err e | Panic e => Panic e | OutOfFuel => OutOfFuel
          end
      | Err e => Err e | Panic e => Panic e | OutOfFuel => OutOfFuel
      end
  end.

Definition valid_batch_type (t : N) : bool := t <=? 2.

Definition decode_batch (b : bytes) : res pbatch :=
  match read_byte b with
  | None => Err (str "type")
  | Some (t, r) =>
      if negb (valid_batch_type t) then Err (str "invalid type")
      else match read_short r with
           | None => Err (str "count")
           | Some (n, r1) =>
               match decode_children (N.to_nat n) r1 with
               | Ok (cs, r2) =>
                   match read_short r2 with
                   | None => Err (str "consistency")
                   | Some (cl, r3) => Ok {| b_type := t; b_children := cs; b_cl := cl; b_params := r3 |}
                   end
               | Err e => Err e | Panic e => Panic e | OutOfFuel => OutOfFuel
               end
           end
  end.

Definition encode_child (c : pchild) : bytes :=
  match ch_id c with
  | QStr q => enc_byte 0 ++ enc_long_string q
  | QId id => enc_byte 1 ++ enc_short_bytes id
  end ++ ch_values c.

Definition encode_batch (m : pbatch) : bytes :=
  enc_byte (b_type m) ++ enc_short (N.of_nat (length (b_children m))) ++
  concat (map encode_child (b_children m)) ++ enc_short (b_cl m) ++ b_params m.

(** reference layout of a batch child: kind, string or id, positional values *)
Inductive rvalue := VBytes (c : bytes) | VNull | VUnset.
Definition enc_value (v : rvalue) : bytes :=
  match v with
  | VBytes c => enc_int (Z.of_nat (length c)) ++ c
  | VNull => enc_int (-1)
  | VUnset => enc_int (-2)
  end.
Definition enc_values (vs : list rvalue) : bytes :=
  enc_short (N.of_nat (length vs)) ++ concat (map enc_value vs).
Record rchild := { rc_id : child_id; rc_values : list rvalue }.
Definition ref_child (c : rchild) : bytes :=
  match rc_id c with
  | QStr q => enc_byte 0 ++ enc_long_string q
  | QId id => enc_byte 1 ++ enc_short_bytes id
  end ++ enc_values (rc_values c).
Definition ref_batch (t : N) (cs : list rchild) (cl : N) (tail : bytes) : bytes :=
  enc_byte t ++ enc_short (N.of_nat (length cs)) ++ concat (map ref_child cs) ++ enc_short cl ++ tail.

(** ** Correspondence-check entry points.
    input  (opcode version body valid ref_fields)
    output (2) panic | (0) error | (1 fields reencoded)
      QUERY   fields = (query cl params)
      EXECUTE fields = (id rmid cl params)
      BATCH   fields = (type ((kind idbytes values)...) cl params)
    The input's 6th element is an optional custom-payload prefix the harness places before
    the message in the same body reader (frame-level shape); the message decoders must be
    insensitive to it, so the model ignores it.  The 4th output element is EncodedLength. *)
Definition child_val (c : pchild) : val :=
  match ch_id c with
  | QStr q => L [I 0; B q; B (ch_values c)]
  | QId id => L [I 1; B id; B (ch_values c)]
  end.

Definition run_c11 (input : val) : val :=
  let op := vN (nthv 0 input) in
  let v := vN (nthv 1 input) in
  let body := vB (nthv 2 input) in
  if op =? 7 then
    match decode_query body with
    | Ok m => L [I 1; L [B (q_query m); IN (q_cl m); B (q_params m)]; B (encode_query m); Inat (length (encode_query m))]
    | Panic _ => L [I 2] | _ => L [I 0]
    end
  else if op =? 10 then
    match decode_execute v body with
    | Ok m => L [I 1; L [B (x_id m); B (x_rmid m); IN (x_cl m); B (x_params m)]; B (encode_execute v m); Inat (length (encode_execute v m))]
    | Panic _ => L [I 2] | _ => L [I 0]
    end
  else
    match decode_batch body with
    | Ok m => L [I 1; L [IN (b_type m); L (map child_val (b_children m)); IN (b_cl m); B (b_params m)]; B (encode_batch m); Inat (length (encode_batch m))]
    | Panic _ => L [I 2] | _ => L [I 0]
    end.

(** property predicate: a body produced by the reference encoder ([valid] = 1, reference
    fields attached by the generator) must decode, to the reference's fields, and re-encode to
    itself; any other body must at least not crash. *)
Definition holds_c11 (input output : val) : val :=
  let valid := vbool (nthv 3 input) in
  let status := vZ (nthv 0 output) in
  if Z.eqb status 2 then B (str "panic-or-hang")
  else if negb valid then B []
  else if negb (Z.eqb status 1) then B (str "valid-body-rejected")
  else if negb (val_eqb (nthv 1 output) (nthv 4 input)) then B (str "fields-differ-from-reference")
  else if negb (val_eqb (nthv 2 output) (nthv 2 input)) then B (str "reencode-differs")
  else if negb (Z.eqb (vZ (nthv 3 output)) (Z.of_nat (length (vB (nthv 2 input))))) then B (str "encoded-length-differs")
  else B [].
