(** * SessionsConc: small-step model of CONCURRENT session lookup / creation (property C07).

    Transcribes the locking structure of /repo/proxy/proxy.go

      findSession / maybeCreateSession(version, keyspace, compression):
          key := sessionKey{version, keyspace, compression}
          if s, ok := lookupSession(key); ok { return s }        -- sessionsMu.RLock        [PLookup1]
          createSessionMu.Lock(); defer createSessionMu.Unlock() -- exclusive               [PWaitCreate]
          maybeCreateSessionUnlocked:
              if s, ok := lookupSession(key); ok { return s }    -- sessionsMu.RLock        [PLookup2]
              sess, err := ConnectSession(version, keyspace, compression)   -- NO sessionsMu held, slow, may fail [PConnecting]
              if err != nil { return nil, err }                                                     [-> PFailed]
              sessionsMu.Lock(); sessions[key] = sess; sessionsMu.Unlock()                           [PStore]
              return sess                                                                            [-> PDone]

    and of its two callers
      client.execute            : findSession(frame version, c.keyspace, c.compression)
      interceptSystemQuery/USE  : maybeCreateSession(frame version, NEW keyspace, c.compression);
                                  on success  c.keyspace = NEW,  on failure c.keyspace unchanged.

    Every access to the [sessions] map happens under sessionsMu, so each map access is one atomic
    step; what is NOT atomic is the sequence of steps of one call, and that is what the program
    counter below makes explicit.  [c.keyspace] / [c.compression] are only touched by the client's
    own reader goroutine, which handles one frame at a time: this is built into the model (a thread
    of a client cannot start while another thread of the same client is in flight).

    Definitions only; the theorems are in Proofs/SessionsConcProofs.v.  [session_key], [client],
    [session_for], [view_of_session] are those of Model/Sessions.v (the sequential model). *)
From Coq Require Import List Arith ZArith NArith Bool.
From CqlProxy Require Import Lib.Val Lib.Util Model.Sessions.
Import ListNotations.

(** ** keys, sessions, the table *)
Definition ckey_eqb (a b : session_key) : bool :=
  N.eqb (sk_version a) (sk_version b) && bytes_eqb (sk_keyspace a) (sk_keyspace b)
  && bytes_eqb (sk_compression a) (sk_compression b).

(** a backend session: the key it was CONNECTED with (ConnectSession's Version, Keyspace,
    Compression: what its connections speak and have USEd) and a serial number (one per
    successful ConnectSession) *)
Record csession := { s_key : session_key; s_serial : nat }.

(** p.sessions: association list, most recent store first; entries are never removed *)
Definition ctable := list (session_key * csession).

Fixpoint clookup (k : session_key) (t : ctable) : option csession :=
  match t with
  | [] => None
  | (k', s) :: r => if ckey_eqb k k' then Some s else clookup k r
  end.

(** ** operations and threads *)
Inductive cop :=
| OpRequest (c : nat) (version : N)                  (* client.execute of a frame with this version *)
| OpUse (c : nat) (version : N) (newks : bytes).     (* USE newks in a frame with this version *)

Definition op_client (o : cop) : nat := match o with OpRequest c _ | OpUse c _ _ => c end.

(** the key the operation asks findSession / maybeCreateSession for, given the client's state
    when the operation starts *)
Definition op_key (cl : client) (o : cop) : session_key :=
  match o with
  | OpRequest _ v => session_for cl v
  | OpUse _ v ks => {| sk_version := v; sk_keyspace := ks; sk_compression := cl_compression cl |}
  end.

Inductive cpc :=
| PIdle                      (* operation not yet started (frame not yet read) *)
| PLookup1                   (* about to do the first lookupSession *)
| PWaitCreate                (* missed; blocked on / about to take createSessionMu *)
| PLookup2                   (* holds createSessionMu; about to do the second lookupSession *)
| PConnecting                (* holds createSessionMu; ConnectSession in progress *)
| PStore (s : csession)      (* holds createSessionMu; connected [s]; about to store it *)
| PDone (s : csession)       (* returned session [s] *)
| PFailed.                   (* returned an error *)

Record cthread := { t_op : cop; t_key : session_key; t_pc : cpc }.

Definition in_flight (p : cpc) : bool := match p with PIdle | PDone _ | PFailed => false | _ => true end.
Definition finished (p : cpc) : bool := match p with PDone _ | PFailed => true | _ => false end.
(** between taking createSessionMu and releasing it *)
Definition in_cs (p : cpc) : bool := match p with PLookup2 | PConnecting | PStore _ => true | _ => false end.

(** ** state *)
Record sc_state := {
  st_clients : list client;          (* c.keyspace, c.compression per client *)
  st_table : ctable;                 (* p.sessions *)
  st_mu : option nat;                (* holder of createSessionMu *)
  st_threads : list cthread;
  st_next : nat;                     (* ghost: next serial *)
  st_connected : list csession       (* ghost: every session ConnectSession ever returned, newest first *)
}.

(** one event: thread [ev_tid] takes its next atomic step; [ev_ok] is the environment's choice of
    ConnectSession's outcome (only read at PConnecting) *)
Record sc_event := { ev_tid : nat; ev_ok : bool }.

Fixpoint list_set {A} (l : list A) (i : nat) (x : A) : list A :=
  match l, i with
  | [], _ => []
  | _ :: r, O => x :: r
  | y :: r, S i' => y :: list_set r i' x
  end.

Definition client_busy (ts : list cthread) (c : nat) : bool :=
  existsb (fun t => Nat.eqb (op_client (t_op t)) c && in_flight (t_pc t)) ts.

(** the effect on the clients of an operation returning a session: a USE sets its client's keyspace *)
Definition finish_clients (cs : list client) (o : cop) : list client :=
  match o with
  | OpRequest _ _ => cs
  | OpUse c _ ks =>
      match nth_error cs c with
      | None => cs
      | Some cl => list_set cs c {| cl_keyspace := ks; cl_compression := cl_compression cl |}
      end
  end.

Definition set_pc (t : cthread) (p : cpc) : cthread := {| t_op := t_op t; t_key := t_key t; t_pc := p |}.

(** the seeded defect "in-flight creations shared by KEYSPACE only": when the creator stores its
    session, every thread waiting for createSessionMu whose key has the same keyspace returns the
    creator's session (version and compression ignored) *)
Definition adopt_thread (s : csession) (t : cthread) : cthread :=
  match t_pc t with
  | PWaitCreate => if bytes_eqb (sk_keyspace (t_key t)) (sk_keyspace (s_key s)) then set_pc t (PDone s) else t
  | _ => t
  end.
Definition adopt_clients (s : csession) (ts : list cthread) (cs : list client) : list client :=
  fold_left (fun cs t =>
               match t_pc t with
               | PWaitCreate => if bytes_eqb (sk_keyspace (t_key t)) (sk_keyspace (s_key s)) then finish_clients cs (t_op t) else cs
               | _ => cs
               end) ts cs.

(** ** the step function.  [ko] = by_keyspace_only (the defect variant); the proxy is [ko = false].
    An event whose thread does not exist or is not enabled is a no-op. *)
Definition sc_step (ko : bool) (st : sc_state) (e : sc_event) : sc_state :=
  let i := ev_tid e in
  match nth_error (st_threads st) i with
  | None => st
  | Some t =>
      let upd (cs : list client) (tb : ctable) (mu : option nat) (t' : cthread) :=
        {| st_clients := cs; st_table := tb; st_mu := mu; st_threads := list_set (st_threads st) i t';
           st_next := st_next st; st_connected := st_connected st |} in
      match t_pc t with
      | PIdle =>
          (* the client's goroutine reads the next frame: only when its previous operation is over *)
          match nth_error (st_clients st) (op_client (t_op t)) with
          | None => st
          | Some cl =>
              if client_busy (st_threads st) (op_client (t_op t)) then st
              else upd (st_clients st) (st_table st) (st_mu st)
                       {| t_op := t_op t; t_key := op_key cl (t_op t); t_pc := PLookup1 |}
          end
      | PLookup1 =>
          match clookup (t_key t) (st_table st) with
          | Some s => upd (finish_clients (st_clients st) (t_op t)) (st_table st) (st_mu st) (set_pc t (PDone s))
          | None => upd (st_clients st) (st_table st) (st_mu st) (set_pc t PWaitCreate)
          end
      | PWaitCreate =>
          match st_mu st with
          | Some _ => st
          | None => upd (st_clients st) (st_table st) (Some i) (set_pc t PLookup2)
          end
      | PLookup2 =>
          match clookup (t_key t) (st_table st) with
          | Some s => upd (finish_clients (st_clients st) (t_op t)) (st_table st) None (set_pc t (PDone s))
          | None => upd (st_clients st) (st_table st) (st_mu st) (set_pc t PConnecting)
          end
      | PConnecting =>
          if ev_ok e then
            let s := {| s_key := t_key t; s_serial := st_next st |} in
            {| st_clients := st_clients st; st_table := st_table st; st_mu := st_mu st;
               st_threads := list_set (st_threads st) i (set_pc t (PStore s));
               st_next := S (st_next st); st_connected := s :: st_connected st |}
          else upd (st_clients st) (st_table st) None (set_pc t PFailed)
      | PStore s =>
          let st' := upd (finish_clients (st_clients st) (t_op t)) ((t_key t, s) :: st_table st) None (set_pc t (PDone s)) in
          if ko then
            {| st_clients := adopt_clients s (st_threads st') (st_clients st'); st_table := st_table st'; st_mu := None;
               st_threads := map (adopt_thread s) (st_threads st');
               st_next := st_next st'; st_connected := st_connected st' |}
          else st'
      | PDone _ | PFailed => st
      end
  end.

Fixpoint sc_run (ko : bool) (st : sc_state) (es : list sc_event) : sc_state :=
  match es with
  | [] => st
  | e :: r => sc_run ko (sc_step ko st e) r
  end.

(** can thread [i] move? *)
Definition sc_enabled (st : sc_state) (i : nat) : bool :=
  match nth_error (st_threads st) i with
  | None => false
  | Some t =>
      match t_pc t with
      | PIdle => match nth_error (st_clients st) (op_client (t_op t)) with
                 | None => false
                 | Some _ => negb (client_busy (st_threads st) (op_client (t_op t)))
                 end
      | PWaitCreate => match st_mu st with None => true | Some _ => false end
      | PDone _ | PFailed => false
      | _ => true
      end
  end.

(** ** initial states: some clients, some table (proxy.Connect stores the control session under
    {negotiated version, "", ""}), the operations that will ever be issued (thread i = operation i),
    nobody holds the mutex *)
Definition no_key : session_key := {| sk_version := 0; sk_keyspace := []; sk_compression := [] |}.
Definition sc_init (cs : list client) (tb : ctable) (ops : list cop) : sc_state :=
  {| st_clients := cs; st_table := tb; st_mu := None;
     st_threads := map (fun o => {| t_op := o; t_key := no_key; t_pc := PIdle |}) ops;
     st_next := S (list_max (map (fun p => s_serial (snd p)) tb)); st_connected := [] |}.

(** well-formed initial data *)
Definition table_sound (tb : ctable) : Prop := forall k s, In (k, s) tb -> s_key s = k.
Definition sc_init_ok (cs : list client) (tb : ctable) (ops : list cop) : Prop :=
  table_sound tb /\ NoDup (map fst tb) /\ Forall (fun o => op_client o < length cs) ops.

(** ** correspondence entry (for replaying recorded schedules)
    input   (7 (compression...) (op...) (event...) [(initial-key...) [ko]])
              7                 : family tag, ignored
              compression       : byte string, one per client (client i = i-th); clients start in keyspace ""
              op                : (client version newks use?)   use? = 0: request (newks ignored), otherwise USE newks
              event             : (thread ok?)                  thread i = i-th op; ok? = ConnectSession's outcome
              initial-key       : (version keyspace compression) sessions present at the start (optional, default none)
              ko                : 1 = by_keyspace_only variant (optional, default 0)
    output  (result...) one per op, in order:
              (0 version keyspace compression)  returned the session connected with this key
              (1)                               returned an error (USE failed / request answered with an error)
              (2)                               not finished by the end of the schedule *)
Definition cop_of_val (v : val) : cop :=
  if vbool (nthv 3 v) then OpUse (Z.to_nat (vZ (nthv 0 v))) (vN (nthv 1 v)) (vB (nthv 2 v))
  else OpRequest (Z.to_nat (vZ (nthv 0 v))) (vN (nthv 1 v)).
Definition event_of_val (v : val) : sc_event :=
  {| ev_tid := Z.to_nat (vZ (nthv 0 v)); ev_ok := vbool (nthv 1 v) |}.
Definition key_of_val (v : val) : session_key :=
  {| sk_version := vN (nthv 0 v); sk_keyspace := vB (nthv 1 v); sk_compression := vB (nthv 2 v) |}.
Fixpoint init_table (ks : list session_key) (n : nat) : ctable :=
  match ks with
  | [] => []
  | k :: r => if existsb (ckey_eqb k) r then init_table r n
              else (k, {| s_key := k; s_serial := n |}) :: init_table r (S n)
  end.
Definition result_val (t : cthread) : val :=
  match t_pc t with
  | PDone s => L [I 0; IN (sk_version (s_key s)); B (sk_keyspace (s_key s)); B (sk_compression (s_key s))]
  | PFailed => L [I 1]
  | _ => L [I 2]
  end.

Definition run_c07conc (input : val) : val :=
  let cs := map (fun c => fresh_client (vB c)) (vL (nthv 1 input)) in
  let ops := map cop_of_val (vL (nthv 2 input)) in
  let evs := map event_of_val (vL (nthv 3 input)) in
  let tb := init_table (map key_of_val (vL (nthv 4 input))) 0 in
  let ko := vbool (nthv 5 input) in
  L (map result_val (st_threads (sc_run ko (sc_init cs tb ops) evs))).

Definition holds_c07conc (input output : val) : val :=
  if val_eqb output (run_c07conc input) then B []
  else B (str "operation-ran-on-a-session-connected-with-another-key-or-ended-differently").
