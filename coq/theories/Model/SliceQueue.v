(** * SliceQueue: the queue between the control connection's reader and the cluster's event loop as the Go slice it is
    (proxycore/cluster.go OnEvent: `c.pendingEvents = append(c.pendingEvents, frame)`; takePendingEvents:
    `events := c.pendingEvents; c.pendingEvents = nil; return events`), with the arrays behind the slices made explicit.

    A slice is (array, length, capacity); [append] writes in place while the capacity allows and moves to a fresh,
    larger array otherwise.  The loop iterates over the batch it took while the reader keeps appending.  [keep = true]
    is the seeded change C14-m16: the queue is reset with `c.pendingEvents[:0]` ("avoids reallocation"), so the batch
    and the queue share one array.

    Property C14: every event reaches the listeners once, unchanged, in order -- here: the batch the loop is delivering
    is not touched by what arrives meanwhile. *)
From Coq Require Import List NArith Arith Bool Lia.
Import ListNotations.

Record slice := { arr : nat; len : nat; cap : nat }.

Definition heap := list (list N).        (* array id -> cells (as many as its capacity) *)

Fixpoint set_nth (i : nat) (x : N) (l : list N) : list N :=
  match l, i with
  | [], _ => []
  | _ :: r, O => x :: r
  | y :: r, S j => y :: set_nth j x r
  end.

Fixpoint set_arr (a : nat) (f : list N -> list N) (h : heap) : heap :=
  match h, a with
  | [], _ => []
  | c :: r, O => f c :: r
  | c :: r, S b => c :: set_arr b f r
  end.

Definition cells (h : heap) (a : nat) : list N := nth a h [].
Definition view (h : heap) (s : slice) : list N := firstn (len s) (cells h (arr s)).

Record qstate := { hp : heap; q : option slice }.

(** append(s, x) *)
Definition append (st : qstate) (x : N) : qstate :=
  match q st with
  | Some s =>
      if Nat.ltb (len s) (cap s) then
        {| hp := set_arr (arr s) (set_nth (len s) x) (hp st); q := Some {| arr := arr s; len := S (len s); cap := cap s |} |}
      else
        let c := 2 * cap s + 1 in
        {| hp := hp st ++ [view (hp st) s ++ x :: repeat 0%N (c - S (len s))];
           q := Some {| arr := length (hp st); len := S (len s); cap := c |} |}
  | None =>
      {| hp := hp st ++ [[x]]; q := Some {| arr := length (hp st); len := 1; cap := 1 |} |}
  end.

(** takePendingEvents: the batch, and the state it leaves *)
Definition take (keep : bool) (st : qstate) : option slice * qstate :=
  (q st, {| hp := hp st;
            q := if keep then (match q st with Some s => Some {| arr := arr s; len := 0; cap := cap s |} | None => None end)
                 else None |}).

Definition appends (st : qstate) (xs : list N) : qstate := fold_left append xs st.

Definition empty : qstate := {| hp := []; q := None |}.

(** what the loop reads from its batch after more events have arrived *)
Definition batch_after (keep : bool) (before after : list N) : list N * list N :=
  let st := appends empty before in
  let '(b, st1) := take keep st in
  match b with
  | Some s => (view (hp st) s, view (hp (appends st1 after)) s)
  | None => ([], [])
  end.
