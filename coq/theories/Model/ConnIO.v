(** * ConnIO: the two goroutines of every connection (proxycore/conn.go).

    [Conn.write] takes [Sender]s from the connection's queue, lets each write into a
    [bufio.Writer] of [MaxCoalesceSize] bytes, keeps taking senders while the queue is not empty
    ("coalescing") and flushes when it finds the queue empty.  [Conn.read] calls the receiver's
    [Receive] on a [bufio.Reader] over and over; [ClientConn.Receive] and the proxy's client
    [Receive] decode exactly one frame per call with blocking reads.

    What the model keeps: the exact chunking rule of [bufio.Writer.Write] and [Flush] (a write that
    does not fit fills and flushes the buffer, a write larger than the buffer goes out directly when
    the buffer is empty), the order of the queue, the optional flush after every sender (the
    scheduler decides whether the queue looked empty), the reader's indifference to how TCP cuts the
    byte stream.  What it does not keep: time, and the error paths of the socket (a failed write ends
    the loop; what was written before is a prefix -- [wire_is_always_a_prefix]).

    Used by properties C01 (an answer that was queued is written out once the queue drains) and C03
    (the bytes on the wire are the frames that were queued, whole, in order). *)
From Coq Require Import List ZArith NArith Bool Lia.
From CqlProxy Require Import Lib.Val Lib.Util Lib.Wire Model.Frame.
Import ListNotations.

(** ** A. bufio.Writer *)

(** [cap] is the buffer size (MaxCoalesceSize = 16384 in the code; the theorems hold for every
    positive size), [buf] the buffered bytes (always at most [cap]), the result the chunks handed to
    the socket by this call, in order, and the new buffer.

    func (b *Writer) Write(p []byte):
      for len(p) > b.Available() && b.err == nil {
         if b.Buffered() == 0 { n, b.err = b.wr.Write(p) }         // large write, empty buffer: directly
         else { n = copy(b.buf[b.n:], p); b.n += n; b.Flush() }     // fill, flush
         p = p[n:] }
      n := copy(b.buf[b.n:], p); b.n += n *)
Definition bw_write (cap : nat) (buf p : bytes) : list bytes * bytes :=
  let avail := cap - length buf in
  if Nat.leb (length p) avail then ([], buf ++ p)
  else
    match buf with
    | [] => ([p], [])
    | _ :: _ =>
        let full := buf ++ firstn avail p in
        let rest := skipn avail p in
        if Nat.leb (length rest) cap then ([full], rest) else ([full; rest], [])
    end.

(** Flush: nothing is written when nothing is buffered *)
Definition bw_flush (buf : bytes) : list bytes := match buf with [] => [] | _ => [buf] end.

(** a sender is the list of [Write] calls it makes (EncodeRawFrame writes the header, then the body) *)
Definition sender := list bytes.

Fixpoint send_one (cap : nat) (buf : bytes) (s : sender) : list bytes * bytes :=
  match s with
  | [] => ([], buf)
  | p :: r =>
      let '(c1, b1) := bw_write cap buf p in
      let '(c2, b2) := send_one cap b1 r in
      (c1 ++ c2, b2)
  end.

(** ** B. the writer goroutine.  A schedule is the queue in order, each sender with the answer the
    loop got when it looked at the queue afterwards: [true] = empty, so it flushed. *)
Fixpoint run (cap : nat) (buf : bytes) (sch : list (sender * bool)) : list bytes * bytes :=
  match sch with
  | [] => ([], buf)
  | (s, fl) :: r =>
      let '(c1, b1) := send_one cap buf s in
      let '(c2, b2) := if fl then (bw_flush b1, []) else ([], b1) in
      let '(c3, b3) := run cap b2 r in
      (c1 ++ c2 ++ c3, b3)
  end.

Definition all_bytes (ss : list sender) : bytes := concat (map (@concat N) ss).

(** the loop is quiescent (blocked on the empty queue) only after a flush: the last flag is [true] *)
Definition quiescent (sch : list (sender * bool)) : bool :=
  match rev sch with [] => true | (_, fl) :: _ => fl end.

(** ** C. the acceptor used by the correspondence run: could the chunks [obs] the socket saw have
    been produced from the queue [ss] by SOME schedule that ends quiescent?  (The harness cannot see
    the scheduler's choices; the theorems say the acceptor answers [true] exactly when such a
    schedule exists.) *)
Fixpoint strip (em obs : list bytes) : option (list bytes) :=
  match em with
  | [] => Some obs
  | e :: r =>
      match obs with
      | o :: obs' => if bytes_eqb e o then strip r obs' else None
      | [] => None
      end
  end.

Fixpoint acc (cap : nat) (buf : bytes) (ss : list sender) (obs : list bytes) : bool :=
  match ss with
  | [] =>
      match buf, obs with
      | [], [] => true
      | _, _ => false
      end
  | s :: r =>
      let '(em, b1) := send_one cap buf s in
      match strip em obs with
      | None => false
      | Some obs1 =>
          (* flush here ... *)
          (match strip (bw_flush b1) obs1 with
           | Some obs2 => acc cap [] r obs2
           | None => false
           end)
          (* ... or keep coalescing (not possible after the last sender: the loop then finds the queue empty) *)
          || (match r with [] => false | _ :: _ => acc cap b1 r obs1 end)
      end
  end.

(** the same acceptor without the duplicated branch: when the buffer is empty "flush" and "keep coalescing" are the same
    continuation, which [acc] evaluates twice on a rejected observation (exponential); proved equal to [acc]
    ([acc_fast_eq]); this is the one the correspondence run evaluates *)
Fixpoint acc_fast (cap : nat) (buf : bytes) (ss : list sender) (obs : list bytes) : bool :=
  match ss with
  | [] => match buf, obs with [], [] => true | _, _ => false end
  | s :: r =>
      let '(em, b1) := send_one cap buf s in
      match strip em obs with
      | None => false
      | Some obs1 =>
          (match strip (bw_flush b1) obs1 with
           | Some obs2 => acc_fast cap [] r obs2
           | None => false
           end)
          || (match r, b1 with _ :: _, _ :: _ => acc_fast cap b1 r obs1 | _, _ => false end)
      end
  end.

(** ** D. the reader goroutine: one frame per [Receive], blocking reads, so the segmentation of
    the stream is invisible -- the reader is a function of the concatenation *)
Fixpoint recv_all (fuel : nat) (stream : bytes) : list raw_frame * bytes :=
  match fuel with
  | O => ([], stream)
  | S f =>
      match stream with
      | [] => ([], [])
      | _ :: _ =>
          match decode_raw_frame stream with
          | Some (fr, rest) => let '(l, lo) := recv_all f rest in (fr :: l, lo)
          | None => ([], stream)
          end
      end
  end.

Definition reader (segments : list bytes) : list raw_frame * bytes :=
  let s := concat segments in recv_all (S (length s)) s.

(** ** E. the correspondence interface: input (7 cap ((write ...) ...) (chunk ...) closed) *)
Definition is_prefix_bytes (a b : bytes) : bool := bytes_eqb a (firstn (length a) b).

(** model output: (0) when the socket writes are explained by some schedule of the model (or when the bytes already
    differ, which [holds_connio] reports as a failure of the property), (1) when the bytes are right but no schedule of the
    model produces this chunking: the model no longer describes the writer (a correspondence failure, not by itself a
    violation of the property) *)
Definition run_connio (input : val) : val :=
  let cap := N.to_nat (vN (nthv 1 input)) in
  let ss := map (fun s => map vB (vL s)) (vL (nthv 2 input)) in
  let obs := map vB (vL (nthv 3 input)) in
  let closed := vbool (nthv 4 input) in
  if closed then L [I 0]
  else if bytes_eqb (concat obs) (all_bytes ss) && negb (acc_fast cap [] ss obs) then L [I 1]
  else L [I 0].

Definition holds_connio (input output : val) : val :=
  let ss := map (fun s => map vB (vL s)) (vL (nthv 2 input)) in
  let obs := map vB (vL (nthv 3 input)) in
  let closed := vbool (nthv 4 input) in
  if closed then
    if is_prefix_bytes (concat obs) (all_bytes ss) then B []
    else B (str "bytes-on-the-socket-are-not-a-prefix-of-the-frames-that-were-queued-in-order")
  else if negb (bytes_eqb (concat obs) (all_bytes ss)) then
    (if is_prefix_bytes (concat obs) (all_bytes ss)
     then B (str "queued-bytes-were-not-written-out-although-the-queue-is-empty")
     else B (str "bytes-on-the-socket-are-not-the-frames-that-were-queued-in-order"))
  else B [].
