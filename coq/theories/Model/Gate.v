(** * Gate: what client.Receive does with one frame before any forwarding decision -- header
    acceptance by the frame codec, the protocol-version gate, and the locally answered
    handshake messages OPTIONS / STARTUP / REGISTER (proxy/proxy.go:557-611).  Property C13. *)
From Coq Require Import List ZArith NArith Bool Lia.
From CqlProxy Require Import Lib.Val Lib.Util Lib.Wire Gen.Tables Model.Frame Model.Override.
Import ListNotations.
Local Open Scope N_scope.

(** per-connection state the handshake can change *)
Record cstate := {
  comp : bytes;         (* c.compression as received ("" = none); the codec is the one named by [lower comp] *)
  registered : bool     (* in Proxy.eventClients *)
}.

Definition init_cstate : cstate := {| comp := []; registered := false |}.

Inductive reply :=
| RSupported
| RReady
| RProtocolErrorVersion (v : N)       (* "Invalid or unsupported protocol version <v>" *)
| RProtocolErrorCompression           (* "Unsupported compression type: ..." *)
| RProtocolErrorUnsupportedOp.        (* "Unsupported operation" *)

Inductive gate_result :=
| GClosed                                         (* Receive returns an error: the connection is closed, nothing is written *)
| GAnswered (rs : list reply) (st' : cstate)      (* answered by the proxy itself; connection usable *)
| GDispatched                                     (* handed to handlePrepare / handleExecute / handleQuery / execute *)
| GUnmodelled.                                    (* a message body this model does not decode (response-direction opcodes, DSE
                                                     REVISE with a body): the code either closes or answers "Unsupported operation";
                                                     never dispatched.  The harness does not generate such frames. *)

(** [string]: unsigned short length + bytes; [string map]; [string list] *)
Fixpoint read_string_pairs (n : nat) (b : bytes) : option (list (bytes * bytes) * bytes) :=
  match n with
  | O => Some ([], b)
  | S n' =>
      match read_short_bytes b with
      | None => None
      | Some (k, r) =>
          match read_short_bytes r with
          | None => None
          | Some (v, r') =>
              match read_string_pairs n' r' with
              | None => None
              | Some (ps, r'') => Some ((k, v) :: ps, r'')
              end
          end
      end
  end.
Definition read_string_map (b : bytes) : option (list (bytes * bytes)) :=
  match read_short b with
  | None => None
  | Some (n, r) => option_map fst (read_string_pairs (N.to_nat n) r)
  end.

Fixpoint read_strings (n : nat) (b : bytes) : option (list bytes) :=
  match n with
  | O => Some []
  | S n' =>
      match read_short_bytes b with
      | None => None
      | Some (s, r) => option_map (cons s) (read_strings n' r)
      end
  end.
Definition read_string_list (b : bytes) : option (list bytes) :=
  match read_short b with
  | None => None
  | Some (n, r) => read_strings (N.to_nat n) r
  end.

(** Go map semantics of ReadStringMap: the last entry for a key wins *)
Definition map_get (k : bytes) (m : list (bytes * bytes)) : option bytes :=
  fold_left (fun acc kv => if bytes_eqb (fst kv) k then Some (snd kv) else acc) m None.

Definition valid_event_type (s : bytes) : bool :=
  bytes_eqb s (str "SCHEMA_CHANGE") || bytes_eqb s (str "TOPOLOGY_CHANGE") || bytes_eqb s (str "STATUS_CHANGE").

(** strings.ToLower on ASCII *)
Definition compression_supported (name : bytes) : bool := mem_bytes (lower name) compression_names.

(** [gate maxv st hdr body]: [body] is the frame body after the codec's decompression (when the
    compressed flag is set the harness supplies the decompressed bytes; a compressed frame
    on a connection without compression makes the codec fail). *)
Definition gate (maxv : N) (st : cstate) (h : header) (body : bytes) : gate_result :=
  if (maxv <? h_version h) || (h_version h <? 3) then
    GAnswered [RProtocolErrorVersion (h_version h)] st
  else if flag_compressed (h_flags h) && negb (compression_supported (comp st)) then GClosed
  else
    match split_envelope (h_flags h) body with
    | None => GClosed
    | Some (_, msg) =>
        let op := h_opcode h in
        if op =? 5 then GAnswered [RSupported] st
        else if op =? 1 then
          match read_string_map msg with
          | None => GClosed
          | Some opts =>
              match map_get (str "COMPRESSION") opts with
              | Some c =>
                  if compression_supported c then GAnswered [RReady] {| comp := c; registered := registered st |}
                  else GAnswered [RProtocolErrorCompression] st
              | None => GAnswered [RReady] st
              end
          end
        else if op =? 11 then
          match read_string_list msg with
          | None => GClosed
          | Some evs =>
              if forallb valid_event_type evs then
                GAnswered [RReady] {| comp := comp st;
                                      registered := registered st || existsb (bytes_eqb (str "SCHEMA_CHANGE")) evs |}
              else GClosed
          end
        else if (op =? 7) || (op =? 9) || (op =? 10) || (op =? 13) then GDispatched
        else if op =? 15 then
          (* AUTH_RESPONSE: [bytes] token, then "Unsupported operation" *)
          match read_bytes_val msg with
          | Some _ => GAnswered [RProtocolErrorUnsupportedOp] st
          | None => GClosed
          end
        else if op =? 2 then GAnswered [RProtocolErrorUnsupportedOp] st   (* READY has no body *)
        else match msg with
             | [] => GClosed      (* every other message needs at least one field *)
             | _ => GUnmodelled
             end
    end.

(** one frame off the wire: header decoding first (its failures close the connection) *)
Definition receive (maxv : N) (st : cstate) (frame : bytes) (logical_body : option bytes) : gate_result :=
  match decode_header frame with
  | inl _ => GClosed
  | inr (h, r) =>
      if (h_len h <? 0)%Z then GClosed
      else match get_z (h_len h) r with
           | None => GClosed   (* body shorter than announced: the read blocks, then fails at EOF *)
           | Some (body, _) => gate maxv st h (match logical_body with Some lb => lb | None => body end)
           end
  end.

(** ** correspondence entry point for C13
    input  (maxv comp registered (frame_bytes...) (logical_body_or_()...))   frames of ONE connection, in order
    output ((result...) lower(comp') registered')
      result: (0) closed | (1 (reply...)) | (2) dispatched; processing stops at a close
      reply: (6) SUPPORTED | (2) READY | (0 10 1 v) protocol error naming version v
             | (0 10 2) compression error | (0 10 3) unsupported operation *)
Definition reply_val (r : reply) : val :=
  match r with
  | RSupported => L [I 6]
  | RReady => L [I 2]
  | RProtocolErrorVersion v => L [I 0; I 10; I 1; IN v]
  | RProtocolErrorCompression => L [I 0; I 10; I 2]
  | RProtocolErrorUnsupportedOp => L [I 0; I 10; I 3]
  end.

Fixpoint run_frames (maxv : N) (st : cstate) (frames : list val) (lbs : list val) : list val * cstate :=
  match frames with
  | [] => ([], st)
  | f :: fs =>
      let lb := match lbs with B b :: _ => Some b | _ => None end in
      match receive maxv st (vB f) lb with
      | GClosed => ([L [I 0]], init_cstate)   (* a closed connection has no observable state *)
      | GUnmodelled => ([L [I 9]], init_cstate)
      | GAnswered rs st' =>
          let '(out, stf) := run_frames maxv st' fs (tl lbs) in (L [I 1; L (map reply_val rs)] :: out, stf)
      | GDispatched =>
          let '(out, stf) := run_frames maxv st fs (tl lbs) in (L [I 2] :: out, stf)
      end
  end.

Definition run_c13 (input : val) : val :=
  let maxv := vN (nthv 0 input) in
  let st := {| comp := vB (nthv 1 input); registered := vbool (nthv 2 input) |} in
  let '(out, stf) := run_frames maxv st (vL (nthv 3 input)) (vL (nthv 4 input)) in
  L [L out; B (lower (comp stf)); Ibool (registered stf)].

(** property predicate on the implementation's output *)
Definition known_version (v : N) : bool := version_supported v.

(** for an uncompressed in-range STARTUP naming a compression: READY iff the name (ASCII
    case-insensitively) is one of the advertised algorithms, otherwise the compression error *)
Definition startup_expect (frame : bytes) (replies : list val) : bool :=
  match decode_header frame with
  | inr (h, r) =>
      if (h_opcode h =? 1) && negb (flag_compressed (h_flags h)) && negb (flag_payload (h_flags h)) then
        match read_string_map r with
        | Some opts =>
            match map_get (str "COMPRESSION") opts with
            | Some c =>
                negb (val_eqb (L replies) (L [if compression_supported c then L [I 2] else L [I 0; I 10; I 2]]))
            | None => false
            end
        | None => false
        end
      else false
  | inl _ => false
  end.

Definition holds_frame (maxv : N) (frame : bytes) (res : val) : bytes :=
  let kind := vZ (nthv 0 res) in
  let replies := vL (nthv 1 res) in
  match frame with
  | vd :: _ :: _ =>
      let v := vd mod 128 in
      let out_of_range := (maxv <? v) || (v <? 3) in
      if out_of_range && Z.eqb kind 2 then str "out-of-range-version-forwarded"
      else if out_of_range && known_version v then
        (match decode_header frame with
         | inr (h, r) =>
             if (h_len h <? 0)%Z then []
             else match get_z (h_len h) r with
                  | None => []
                  | Some _ =>
                      if Z.eqb kind 1 && val_eqb (L replies) (L [L [I 0; I 10; I 1; IN v]]) then []
                      else str "known-version-out-of-range-not-answered-with-one-protocol-error-naming-it"
                  end
         | inl _ => []
         end)
      else if Z.eqb kind 1 && negb (Nat.eqb (length replies) 1) then str "handshake-message-not-answered-by-exactly-one-frame"
      else if negb out_of_range && startup_expect frame replies then str "startup-compression-answer-wrong"
      else if Z.eqb kind 1 && existsb (fun r => Z.eqb (vZ (nthv 0 r)) 8) replies then str "locally-answered-message-also-forwarded"
      else []
  | _ => []
  end.

Fixpoint holds_frames (maxv : N) (frames results : list val) : bytes :=
  match frames, results with
  | f :: fs, r :: rs =>
      match holds_frame maxv (vB f) r with
      | [] => holds_frames maxv fs rs
      | why => why
      end
  | _, _ => []
  end.

(** the compression in force after a sequence of frames, judged from the implementation's own
    answers: the algorithm named by the last STARTUP it answered with READY (a STARTUP naming no
    algorithm leaves it alone); a STARTUP it refused must have no effect *)
Fixpoint accepted_compression (cur : bytes) (frames results : list val) : bytes :=
  match frames, results with
  | f :: fs, r :: rs =>
      let cur' :=
        match decode_header (vB f) with
        | inr (h, body) =>
            if (h_opcode h =? 1) && Z.eqb (vZ (nthv 0 r)) 1 && val_eqb (nthv 1 r) (L [L [I 2]]) then
              match split_envelope (h_flags h) body with
              | Some (_, msg) =>
                  match read_string_map msg with
                  | Some opts => match map_get (str "COMPRESSION") opts with Some c => lower c | None => cur end
                  | None => cur
                  end
              | None => cur
              end
            else cur
        | inl _ => cur
        end in
      accepted_compression cur' fs rs
  | _, _ => cur
  end.

Definition holds_c13 (input output : val) : val :=
  match holds_frames (vN (nthv 0 input)) (vL (nthv 3 input)) (vL (nthv 0 output)) with
  | [] =>
      (* on a connection the proxy closed nothing can be observed any more *)
      if existsb (fun r => Z.eqb (vZ (nthv 0 r)) 0) (vL (nthv 0 output)) then B []
      else if bytes_eqb (vB (nthv 1 output)) (accepted_compression (lower (vB (nthv 1 input))) (vL (nthv 3 input)) (vL (nthv 0 output)))
      then B [] else B (str "connection-compression-is-not-the-one-of-the-last-accepted-STARTUP")
  | why => B why
  end.
