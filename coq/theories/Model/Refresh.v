(** * Refresh: the event loop of [Cluster.stayConnected] (proxycore/cluster.go) -- the pending
    refresh and its timer, the control connection, the reconnect timer.  Property C16, the
    clause "after the backend announces a topology change the proxy's routing follows the
    backend's peers table within the refresh window".

    One event = one turn of the loop's [select] (or something the environment does).  The timer
    is Go's: armed by NewTimer, it fires once into a channel of capacity one, where the value
    waits until the loop receives it; the loop only listens to it while a control connection
    exists.  [hosts] is what the proxy routes by (merged into the load balancer and sessions),
    [backend] the backend's current peers table. *)
From Coq Require Import List ZArith NArith Bool Lia.
From CqlProxy Require Import Lib.Val Lib.Util.
Import ListNotations.
Local Open Scope N_scope.

Inductive timer := TIdle | TArmed | TFired.     (* stopped or consumed | running | value waiting in the channel *)

Record rstate := {
  control : bool;            (* c.controlConn != nil *)
  pending : bool;            (* pendingRefresh *)
  rtimer : timer;            (* refreshTimer *)
  hosts : list N;            (* c.hosts *)
  backend : list N;          (* the backend's peers table (environment) *)
  announced : bool           (* the backend has changed its table and not yet told the proxy (event in flight) *)
}.

Inductive revent :=
| BackendChanges (t : list N)   (* the peers table changes; the TOPOLOGY_CHANGE / STATUS_CHANGE(UP) event is on its way *)
| EventArrives                  (* select: case event := <-c.events, a topology or status-up event *)
| OtherEvent                    (* a STATUS_CHANGE(DOWN) or SCHEMA_CHANGE event: no refresh *)
| TimerExpires                  (* the runtime fires the armed timer *)
| LoopTakesTimer                (* select: case <-refreshTimer.C: refreshHosts(); pendingRefresh = false *)
| ControlLost                   (* select: case <-c.controlConn.IsClosed(): the connection and events in flight are gone *)
| ReconnectOk                   (* connectTimer fired and reconnect() succeeded: system.local/peers re-read and merged *)
| ReconnectFails.

(** [stop_on_loss = true] is the variant a seeded change introduced: the refresh timer is
    stopped when the control connection is lost ("the reconnect re-reads the tables anyway"). *)
Definition step_gen (stop_on_loss : bool) (s : rstate) (e : revent) : rstate :=
  match e with
  | BackendChanges t =>
      {| control := control s; pending := pending s; rtimer := rtimer s; hosts := hosts s; backend := t;
         announced := control s |}    (* with no control connection nobody is told; the reconnect will read the table *)
  | EventArrives =>
      if control s && announced s then
        if pending s then {| control := true; pending := true; rtimer := rtimer s; hosts := hosts s; backend := backend s; announced := false |}
        else {| control := true; pending := true; rtimer := TArmed; hosts := hosts s; backend := backend s; announced := false |}
      else s
  | OtherEvent => s
  | TimerExpires =>
      match rtimer s with
      | TArmed => {| control := control s; pending := pending s; rtimer := TFired; hosts := hosts s; backend := backend s; announced := announced s |}
      | _ => s
      end
  | LoopTakesTimer =>
      match rtimer s with
      | TFired =>
          if control s then
            {| control := true; pending := false; rtimer := TIdle; hosts := backend s; backend := backend s; announced := announced s |}
          else s
      | _ => s
      end
  | ControlLost =>
      if control s then
        {| control := false; pending := pending s;
           rtimer := if stop_on_loss then (match rtimer s with TArmed => TIdle | t => t end) else rtimer s;
           hosts := hosts s; backend := backend s; announced := false |}
      else s
  | ReconnectOk =>
      if control s then s
      else {| control := true; pending := pending s; rtimer := rtimer s; hosts := backend s; backend := backend s; announced := false |}
  | ReconnectFails => s
  end.

Definition step := step_gen false.
Definition init (t : list N) : rstate :=
  {| control := true; pending := false; rtimer := TIdle; hosts := t; backend := t; announced := false |}.
Definition run (t : list N) (es : list revent) : rstate := fold_left step es (init t).
Definition run_stopping (t : list N) (es : list revent) : rstate := fold_left (step_gen true) es (init t).

(** the proxy routes by a table that is not the backend's *)
Definition stale (s : rstate) : bool := negb (list_eqb N.eqb (hosts s) (backend s)).

(** something is under way that will bring [hosts] up to date without any further backend event:
    the announcement is still to arrive, a refresh is scheduled (timer running or fired), or the
    control connection is down (the reconnect re-reads the tables) *)
Definition catching_up (s : rstate) : bool :=
  announced s || negb (control s) ||
  (pending s && match rtimer s with TIdle => false | _ => true end).

(** the steps the proxy and the runtime take by themselves (no backend change, no loss) *)
Definition internal (e : revent) : bool :=
  match e with EventArrives | TimerExpires | LoopTakesTimer | ReconnectOk => true | _ => false end.
