(** * Pool: a session's table of connection pools and a pool's slots
    (proxycore/session.go OnEvent, proxycore/connpool.go leastBusyConn / stayConnected).  Property C16.

    A. the table.  Every session keeps host -> pool.  It is filled by one goroutine per host when the session is born
       (BootstrapEvent: the pool is stored when its connections are up, which can be long after the event) and by the
       cluster's add / remove events afterwards; the three can interleave in any way.
       [orig = true] is the code before the repair ccaba00: an add event for a host that already has a pool cancelled
       the existing pool (which stayed in the table) and kept the new one out of reach.
    B. leastBusyConn over the slots of a pool.
    C. one slot's stayConnected loop with the reconnect policy of [Model/Topology.v]. *)
From Coq Require Import List ZArith NArith Bool Lia.
From CqlProxy Require Import Lib.Val Lib.Util Model.Topology.
Import ListNotations.
Local Open Scope N_scope.

(** ** A. the table *)
Inductive pevent :=
| PBoot (hs : list N)     (* cluster.Listen: BootstrapEvent with the hosts of that moment *)
| PStore (h : N)          (* the bootstrap goroutine of host h stores its pool: s.pools.Store *)
| PAdd (h : N)            (* AddEvent: connectPoolNoFail, LoadOrStore *)
| PRemove (h : N).        (* RemoveEvent: LoadAndDelete, cancel *)

Record sess := {
  table : list (N * N);   (* host -> pool id *)
  live : list N;          (* pools that were created and not cancelled *)
  next_id : N;
  booting : list N;       (* hosts whose bootstrap goroutine has not stored yet *)
  listed : list N         (* ghost: the cluster's view, i.e. the hosts the load balancer plans over *)
}.

Definition init_sess : sess := {| table := []; live := []; next_id := 1; booting := []; listed := [] |}.

Definition removeh (x : N) (l : list N) : list N := filter (fun y => negb (N.eqb x y)) l.
Fixpoint lookup (h : N) (t : list (N * N)) : option N :=
  match t with [] => None | (k, v) :: r => if N.eqb k h then Some v else lookup h r end.
Definition erase (h : N) (t : list (N * N)) : list (N * N) := filter (fun kv => negb (N.eqb (fst kv) h)) t.
Definition store (h v : N) (t : list (N * N)) : list (N * N) := (h, v) :: erase h t.

Definition pstep (orig : bool) (s : sess) (e : pevent) : sess :=
  match e with
  | PBoot hs => {| table := table s; live := live s; next_id := next_id s; booting := hs; listed := hs |}
  | PStore h =>
      if memh h (booting s) then
        {| table := store h (next_id s) (table s); live := next_id s :: live s; next_id := next_id s + 1;
           booting := removeh h (booting s); listed := listed s |}
      else s
  | PAdd h =>
      let n := next_id s in
      match lookup h (table s) with
      | Some e0 =>
          if orig then
            (* the EXISTING pool is cancelled and stays in the table; the new one is alive but unreachable *)
            {| table := table s; live := n :: removeh e0 (live s); next_id := n + 1; booting := booting s;
               listed := h :: removeh h (listed s) |}
          else
            (* the new pool is cancelled, the table keeps the existing one *)
            {| table := table s; live := live s; next_id := n + 1; booting := booting s;
               listed := h :: removeh h (listed s) |}
      | None =>
          {| table := store h n (table s); live := n :: live s; next_id := n + 1; booting := booting s;
             listed := h :: removeh h (listed s) |}
      end
  | PRemove h =>
      match lookup h (table s) with
      | Some e0 => {| table := erase h (table s); live := removeh e0 (live s); next_id := next_id s;
                      booting := booting s; listed := removeh h (listed s) |}
      | None => {| table := table s; live := live s; next_id := next_id s; booting := booting s;
                   listed := removeh h (listed s) |}
      end
  end.

Definition prun (orig : bool) (es : list pevent) : sess := fold_left (pstep orig) es init_sess.

(** the cluster's discipline: the session is born once (first event), mergeHosts adds only hosts it does not list and
    removes only hosts it lists; a bootstrap goroutine stores once *)
Fixpoint wf_from (ls bs : list N) (es : list pevent) : bool :=
  match es with
  | [] => true
  | PBoot _ :: _ => false
  | PStore h :: r => memh h bs && wf_from ls (removeh h bs) r
  | PAdd h :: r => negb (memh h ls) && wf_from (h :: ls) bs r
  | PRemove h :: r => memh h ls && wf_from (removeh h ls) bs r
  end.
Definition nodupb (l : list N) : bool :=
  (fix go (l : list N) : bool := match l with [] => true | x :: r => negb (memh x r) && go r end) l.
Definition wf_history (es : list pevent) : bool :=
  match es with
  | PBoot hs :: r => nodupb hs && wf_from hs hs r
  | _ => false
  end.

(** can a request for host h be handed to a pool that is alive? *)
Definition usable (s : sess) (h : N) : bool :=
  match lookup h (table s) with Some e0 => memh e0 (live s) | None => false end.

(** every listed host whose bootstrap goroutine is not still connecting has a usable pool *)
Definition table_follows (s : sess) : bool :=
  forallb (fun h => memh h (booting s) || usable s h) (listed s).

(** ** B. leastBusyConn: [slots] = in-flight count per slot, None for a nil slot.  Result: the slot picked. *)
Definition max_int32 : Z := 2147483647.
Fixpoint lb_scan (slots : list (option Z)) (i : nat) (idx : nat) (mn : Z) : nat :=
  match slots with
  | [] => idx
  | None :: r => lb_scan r (S i) idx mn
  | Some f :: r => if (f <? mn)%Z then lb_scan r (S i) i f else lb_scan r (S i) idx mn
  end.
Definition least_busy (slots : list (option Z)) : option nat :=
  match slots with
  | [] => None
  | [c] => match c with Some _ => Some O | None => None end
  | _ => let idx := lb_scan slots 0 0 max_int32 in
         match nth idx slots None with Some _ => Some idx | None => None end
  end.

(** ** C. one slot's stayConnected loop *)
Record slot := {
  conn : bool;            (* the loop's [conn != nil] *)
  pending : bool;         (* pendingConnect: a timer is armed *)
  attempts : Z;           (* the reconnect policy's counter *)
  armed : list Z;         (* delays the timers were armed with, newest first (history) *)
  finished : bool         (* the loop has returned (pool cancelled) *)
}.

Inductive sevent :=
| SClosed                 (* <-conn.IsClosed() *)
| SArm (j1 j2 : Z)        (* conn == nil && !pendingConnect: NextDelay() twice (logged, then used), NewTimer *)
| STimer (ok : bool)      (* <-connectTimer.C: p.connect() *)
| SCancel.                (* <-p.ctx.Done() *)

Definition enabled (s : slot) (e : sevent) : bool :=
  negb (finished s) &&
  match e with
  | SClosed => conn s
  | SArm _ _ => negb (conn s) && negb (pending s)
  | STimer _ => negb (conn s) && pending s
  | SCancel => conn s || pending s
  end.

Definition sstep (base mx : Z) (s : slot) (e : sevent) : slot :=
  if negb (enabled s e) then s else
  match e with
  | SClosed => {| conn := false; pending := false; attempts := attempts s; armed := armed s; finished := false |}
  | SArm j1 j2 =>
      let '(_, a1) := next_delay base mx (attempts s) j1 in
      let '(d2, a2) := next_delay base mx a1 j2 in
      {| conn := false; pending := true; attempts := a2; armed := d2 :: armed s; finished := false |}
  | STimer true => {| conn := true; pending := false; attempts := 0; armed := armed s; finished := false |}
  | STimer false => {| conn := false; pending := false; attempts := attempts s; armed := armed s; finished := false |}
  | SCancel => {| conn := conn s; pending := pending s; attempts := attempts s; armed := armed s; finished := true |}
  end.

(** connectPool starts a slot with its first connection (or none, if that failed) and the initial timer pending;
    connectPoolNoFail with none *)
Definition slot0 (connected : bool) : slot :=
  {| conn := connected; pending := true; attempts := 0; armed := []; finished := false |}.

Definition srun (base mx : Z) (s : slot) (es : list sevent) : slot := fold_left (sstep base mx) es s.

(** ** D. correspondence interface (C16): kind 6 = leastBusyConn on constructed slots (-1 = nil),
    kind 7 = a history of table events, observed: which listed hosts the session can reach *)
Definition pevent_of_val (v : val) : pevent :=
  match vZ (nthv 0 v) with
  | 0%Z => PBoot (map vN (tl (vL v)))
  | 1%Z => PStore (vN (nthv 1 v))
  | 2%Z => PAdd (vN (nthv 1 v))
  | _ => PRemove (vN (nthv 1 v))
  end.

Definition run_pool (input : val) : val :=
  match vZ (nthv 0 input) with
  | 6%Z =>
      let slots := map (fun v => let z := vZ v in if (z <? 0)%Z then None else Some z) (vL (nthv 1 input)) in
      match least_busy slots with Some i => L [I (Z.of_nat i)] | None => L [I (-1)] end
  | 7%Z =>
      let es := map pevent_of_val (vL (nthv 1 input)) in
      let s := prun false es in
      L (map (fun h => I (if usable s (vN h) then 1 else 0)) (vL (nthv 2 input)))
  | _ => L [I 99]
  end.

Definition holds_pool (input output : val) : val :=
  match vZ (nthv 0 input) with
  | 6%Z =>
      let zs := map vZ (vL (nthv 1 input)) in
      let got := vZ (nthv 0 output) in
      let live_ones := filter (fun z => (0 <=? z)%Z) zs in
      match live_ones with
      | [] => if (got =? -1)%Z then B [] else B (str "a-connection-was-picked-although-the-pool-has-none")
      | _ =>
          if (got <? 0)%Z then
            B (str "no-connection-picked-although-the-pool-has-one")
          else
            let f := nth (Z.to_nat got) zs (-1)%Z in
            if (f <? 0)%Z then B (str "an-empty-slot-was-picked")
            else if forallb (fun z => (f <=? z)%Z) live_ones then B []
            else B (str "the-connection-picked-is-not-the-least-busy-one")
      end
  | 7%Z =>
      (* the property-level reading: every listed host whose bootstrap goroutine has stored can be reached by the session *)
      let es := map pevent_of_val (vL (nthv 1 input)) in
      let s := prun false es in
      let hs := map vN (vL (nthv 2 input)) in
      let bits := map vZ (vL output) in
      if negb (wf_history es) then B (str "harness-error:history-not-well-formed")
      else if forallb (fun hb => negb (memh (fst hb) (listed s)) || memh (fst hb) (booting s) || negb (snd hb =? 0)%Z) (combine hs bits)
      then B [] else B (str "a-listed-host-has-no-usable-pool-in-the-session")
  | _ => B []
  end.
