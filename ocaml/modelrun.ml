(* modelrun <property>: for each stdin line "input TAB impl_output" print
   "model_output TAB holds".  All logic (parsing of the value syntax included) is in the
   extracted Gallina function Modelext.process_line; this file only moves bytes. *)
module M = Modelext

let rec pos_of_int n =
  if n = 1 then M.XH
  else if n land 1 = 0 then M.XO (pos_of_int (n lsr 1))
  else M.XI (pos_of_int (n lsr 1))

let n_table = Array.init 256 (fun i -> if i = 0 then M.N0 else M.Npos (pos_of_int i))

let rec int_of_pos = function
  | M.XH -> 1
  | M.XO p -> 2 * int_of_pos p
  | M.XI p -> 2 * int_of_pos p + 1

let int_of_n = function M.N0 -> 0 | M.Npos p -> int_of_pos p

let nlist_of_string (s : string) : M.n list =
  let r = ref [] in
  for i = String.length s - 1 downto 0 do
    r := n_table.(Char.code s.[i]) :: !r
  done;
  !r

let print_nlist (l : M.n list) =
  let b = Buffer.create 256 in
  List.iter (fun c -> Buffer.add_char b (Char.chr (int_of_n c land 255))) l;
  Buffer.add_char b '\n';
  print_string (Buffer.contents b)

let () =
  let prop = nlist_of_string Sys.argv.(1) in
  (try
     while true do
       let line = input_line stdin in
       print_nlist (M.process_line prop (nlist_of_string line))
     done
   with End_of_file -> ());
  flush stdout
